"""C13 - pattern commands match '*' as a wildcard and everything else literally.

proof: lean/CashewsVerif/Props/C13.lean (translate denotes the glob language; scan / delete_match / get_match
       exact on stores with expired-unpurged entries; get_match yields every live matching key with its own value
       whatever that value is - a stored None is a value - except bit-field objects; transaction merge = direct selection).
tie:   the same (store, pattern, command) cases run on the real `Memory`, the `Cache` facade, inside
       `cache.transaction()` (3 modes) and through `@cache.invalidate`, and on the model driver; compared
       impl == model (correspondence), impl == spec (glob over the live keys: the property), and
       inside-transaction == direct execution (both computed by the real code).
"""
from __future__ import annotations

import itertools
import json
import re
import zlib
from pathlib import Path

from .. import globcase as G
from .. import vtime
from ..core import ROOT, Check, Driver, HarnessError, ddmin, proof_stage

PROP = "C13"
DRIVER = Driver("driver_c13", "Drivers/C13.lean")

# a case counts as non-trivial only if it reaches a state in which a wrong implementation would show
NONTRIVIAL = {
    "regex_reading_would_raise", "regex_reading_would_select_differently", "expired_unpurged_key_matches",
    "tx_pending_delete_of_a_matching_store_key", "tx_matching_key_in_overlay_and_store", "tx_matching_key_only_in_overlay",
    # values: a key must not be left out (or reported with another value) because of what it holds
    "get_match_matching_key_holds_None", "get_match_matching_key_holds_a_falsy_value", "matching_key_holds_a_bit_field",
    "tx_None_written_over_a_matching_store_value", "tx_value_written_over_a_matching_bit_field",
    # several commands in one transaction: an earlier delete_match, a write, the pattern command again
    "tx_delete_match_then_write_then_pattern_command", "tx_delete_match_repeated_with_the_identical_pattern",
    "tx_identical_delete_match_after_a_marked_store_key_was_written_again",
    # an iteration consumed step by step while the store changes under it
    "tx_judged_read_was_already_used_outside_a_transaction", "tx_judged_read_was_already_used_in_an_earlier_transaction",
    "invalidate_template_field_starts_with_a_subscript",
    "tx_expired_buffered_write_over_a_matching_store_key", "tx_matching_store_key_written_then_removed_by_delete_many",
    "iter_matching_key_removed_between_steps", "iter_write_into_a_full_store_between_steps",
    "iter_matching_key_expires_between_steps", "iter_matching_key_rewritten_between_steps",
}

TRUSTED = [
    "Lean 4.33.0 kernel; axioms of every theorem audited to be within {propext, Classical.choice, Quot.sound}",
    "CPython's `re`: in the text cashews builds, a backslash-escaped character and an unescaped non-special character "
    "denote that character, and `.*` under re.DOTALL denotes any run of characters (the Lean model starts from the parsed "
    "regex; `never_raises` proves the text is always inside that fragment). Exercised by this run: the model's text equals "
    "Python's own '.*'.join(re.escape(..)) and re.fullmatch on it agrees with the glob spec on every (pattern, key) pair counted "
    "in `re_trusted_pairs_exercised`",
    "hand-written models lean/CashewsVerif/Model/Glob.lean (Memory.scan/get_match/delete_match, TransactionBackend merge) and "
    "Model/Mem.lean, tied to the code by this run's correspondence; stored values are opaque to the model except for the one "
    "distinction the code makes (bit-field object or not): a stored None is `some Val.nil`, distinct from the default `none`",
    "harness: virtual clock (harness/vtime.py), canonicalisation (results sorted), the template substitution done by the "
    "harness for `invalidate` cases (key templating itself is C08's subject)",
    "a Python `set`/`OrderedDict` holds a key once (hypothesis `Nodup` of the store theorems; proved preserved by the modelled commands)",
]


# ---------------------------------------------------------------------------------------------------
# single cases

def evaluate(cases: list[dict]):
    """run the cases on the implementation and on the driver -> [(obs, answer, bad, diff)]"""
    obs = G.run_cases(cases)
    lines, spans = [], []
    for c, o in zip(cases, obs):
        ls = G.model_lines(c, o)        # an iteration consumed step by step is replayed with the steps the consumer really took
        spans.append((len(lines), len(lines) + len(ls)))
        lines.extend(ls)
    answers = DRIVER.ask(lines)
    out = []
    for c, o, (lo, hi) in zip(cases, obs, spans):
        steps = [a for l, a in zip(lines[lo:hi], answers[lo:hi]) if l == "itnext"]
        bad, diff = G.judge(c, o, answers[hi - 1], steps)
        out.append((o, " ".join(steps) if c["kind"] == "iter" else answers[hi - 1], bad, diff))
    return out


def failing(case: dict, want_bad: bool) -> bool:
    if not G.well_formed(case):
        return False
    (_, _, bad, diff), = evaluate([case])
    return bool(bad) if want_bad else bool(bad or diff)


def _slots(case: dict) -> list[tuple]:
    slots = [("key", t) for t in G.universe(case)]
    if case["kind"] == "invalidate":
        slots += [("arg", n) for n in case["args"] if n not in (case.get("omit") or [])]
        slots += [("lit", j) for j, seg in enumerate(case["template"]) if seg[0] == "lit"]
    return slots


def _slot_text(case: dict, slot) -> str:
    kind, x = slot
    return x if kind == "key" else case["args"][x] if kind == "arg" else case["template"][x][1]


def _with_slot(case: dict, slot, text: str):
    """the case with one string replaced everywhere it occurs (None if two keys would collide)"""
    kind, x = slot
    c = json.loads(json.dumps(case))
    if kind == "key":
        if text in G.universe(case):
            return None
        for k in c["keys"]:
            if k[0] == x:
                k[0] = text
        for op in c.get("txops") or []:
            if op[0] not in G.PATTERN_OPS and op[1] == x:
                op[1] = text
        for ops in c.get("between") or []:
            for op in ops:
                if op[0] in ("del", "set", "get") and op[1] == x:
                    op[1] = text
    elif kind == "arg":
        c["args"][x] = text
    else:
        c["template"][x][1] = text
    return c


def shrink(case: dict, want_bad: bool) -> dict:
    cur = dict(case)

    def with_(field, value):
        c = dict(cur)
        c[field] = value
        return c

    for _ in range(2):
        if len(cur["keys"]) >= 2:
            cur["keys"] = ddmin(cur["keys"], lambda ks: failing(with_("keys", ks), want_bad))
        if len(cur["keys"]) == 1 and failing(with_("keys", []), want_bad):
            cur["keys"] = []
        ops = cur.get("txops") or []
        if len(ops) >= 2:
            cur["txops"] = ddmin(ops, lambda o: failing(with_("txops", o), want_bad))
        if len(cur.get("txops") or []) == 1 and failing(with_("txops", []), want_bad):
            cur["txops"] = []
        for i in range(len(cur.get("between") or [])):
            def with_step(ops, i=i):
                b = [list(x) for x in cur["between"]]
                b[i] = ops
                return with_("between", b)
            if cur["between"][i]:
                kept = ddmin(cur["between"][i], lambda ops: failing(with_step(ops), want_bad)) if len(cur["between"][i]) >= 2 else cur["between"][i]
                if len(kept) == 1 and failing(with_step([]), want_bad):
                    kept = []
                cur = with_step(kept)
        if cur["kind"] != "invalidate" and len(cur["pattern"]) >= 2:
            chars = ddmin(list(cur["pattern"]), lambda cs: failing(with_("pattern", "".join(cs)), want_bad))
            cur["pattern"] = "".join(chars)
        if cur.get("adv") and failing(with_("adv", 0), want_bad):
            cur["adv"] = 0
        # shorten the strings themselves (key texts, template pieces, argument values)
        for slot in _slots(cur):
            if slot not in _slots(cur):
                continue
            text = _slot_text(cur, slot)
            if len(text) < 2:
                continue

            def still(cs, slot=slot):
                c = _with_slot(cur, slot, "".join(cs))
                return c is not None and failing(c, want_bad)

            chars = ddmin(list(text), still)
            if len(chars) < len(text):
                cur = _with_slot(cur, slot, "".join(chars))
    return cur


def report(chk: Check, case: dict, origin: str):
    (o1, a1, bad1, diff1), = evaluate([case])
    (o2, a2, bad2, diff2), = evaluate([case])
    if (o1, a1) != (o2, a2):
        raise HarnessError(f"case is not deterministic: {G.canon(case)}")
    want_bad = bool(bad1)
    small = shrink(case, want_bad)
    (obs, ans, bad, diff), = evaluate([small])
    u = G.universe(small)
    replay = {
        "case": small,
        "universe": {str(i): t for i, t in enumerate(u)},
        "pattern": G.pattern_of(small),
        "implementation": obs,
        "driver": ans,
        "property_violations": bad,
        "model_differences": diff,
        "origin": origin,
        "replay_cmd": "./check C13 --replay <this file>",
    }
    if bad:
        sig = "raises" if any("raised" in b for b in bad) else "tx-vs-direct" if any("directly" in b or "direct execution" in b or "commit" in b for b in bad) else "selection"
        chk.violation(
            f"{small['kind']} {small.get('mode') or ''} pattern {G.pattern_of(small)!r} over keys {u!r}: " + "; ".join(bad),
            replay, signature=sig)
    else:
        chk.violation(
            "correspondence broken: implementation differs from the model (Model/Glob.lean) but agrees with the glob spec: "
            + "; ".join(diff), dict(replay, broken="correspondence Glob model <-> cashews pattern commands"),
            signature=None, no_input=True)


def corpus_cases():
    d = ROOT / "corpus" / PROP
    for f in sorted(d.glob("*.json")):
        yield f.name, json.loads(f.read_text())["case"]


# ---------------------------------------------------------------------------------------------------
# sweeps over one big store

def sweep_frame(chk: Check, st: dict, kind: str, keys: list, adv: int, patterns: list[str], cmd: str, label: str) -> bool:
    """every pattern against one store; returns True if a disagreement was found (and reported)"""

    async def go():
        return await G.sweep(kind, keys, adv, patterns, cmd)

    impl = vtime.run(go)
    answers = DRIVER.ask(G.sweep_lines(keys, adv, patterns, cmd))
    step = 2 if cmd == "delete_match" else 1
    texts = [k[0] for k in keys]
    live_texts = [k[0] for k in keys if k[1] is None or k[1] > adv]
    expired_texts = [k[0] for k in keys if not (k[1] is None or k[1] > adv)]
    bit_texts = [k[0] for k in keys if G.is_bits(k[2]) and (k[1] is None or k[1] > adv)]
    val_of_text = {k[0]: k[2] for k in keys}
    n_live = len(live_texts)
    for j, pat in enumerate(patterns):
        ans = answers[2 + j * step]
        pa = G.parse_answer(ans)
        st["evaluations"] += 1
        st["pairs"] += len(keys)
        st["hist"][f"{cmd}:{kind}:sweep"] = st["hist"].get(f"{cmd}:{kind}:sweep", 0) + 1
        if pa is None or impl[j] != pa[0] or impl[j] != pa[1]:
            case = {"kind": kind, "keys": keys, "adv": adv, "cmd": cmd, "pattern": pat}
            report(chk, case, f"{label}:{pat!r}")
            return True
        # interesting states, from the (agreed) selection
        spec = pa[1]
        if cmd == "scan":
            sel = set() if spec == "-" else {texts[int(i)] for i in spec.split(",")}
        elif cmd == "get_match":
            sel = set() if spec == "-" else {texts[int(p.split("=")[0])] for p in spec.split(";")}
        else:
            left = set() if spec == "-" else {texts[int(i)] for i in spec.split(",")}
            sel = set(live_texts) - left
        tags = []
        if sel and any(c in G.META for c in pat):
            tags.append("metachar_pattern_selects_a_key")
        old = G.old_regex_select(pat, live_texts)
        if old is None:
            tags.append("regex_reading_would_raise")
        elif set(old) != sel:
            tags.append("regex_reading_would_select_differently")
        if "*" in pat and sel and len(sel) < n_live:
            tags.append("wildcard_splits_the_live_keys")
        if expired_texts or bit_texts:
            rx = re.compile(".*".join(re.escape(part) for part in pat.split("*")), re.DOTALL)   # counting only
            if any(rx.fullmatch(k) for k in expired_texts):
                tags.append("expired_unpurged_key_matches")
            if any(rx.fullmatch(k) for k in bit_texts):
                tags.append("matching_key_holds_a_bit_field")
        if cmd == "get_match":
            if any(val_of_text[t] == "n" for t in sel):
                tags.append("get_match_matching_key_holds_None")
            if any(val_of_text[t] in G.FALSY_VALS for t in sel):
                tags.append("get_match_matching_key_holds_a_falsy_value")
        for t in tags:
            st["interesting"][t] = st["interesting"].get(t, 0) + 1
        if set(tags) & NONTRIVIAL:
            st["distinct"].add((label, cmd, kind, pat))
    return False


def re_trusted_base(st: dict, patterns: list[str], keys: list[str]):
    """exercise what is trusted about Python's `re`: (1) the text the model says cashews hands to re.compile is
    Python's own '.*'.join(re.escape(part)); the fragment reader accepts it; (2) re.fullmatch(DOTALL) on that text
    selects exactly the keys the glob spec selects.  A failure here is not a defect of cashews: exit 2."""
    lines = ["univ " + " ".join(G.enc(k) for k in keys), "store 0 " + " ".join(f"{i}/-/i:0" for i in range(len(keys)))]
    for p in patterns:
        lines.append("src " + G.enc(p))
        lines.append("scan " + G.enc(p))
    ans = DRIVER.ask(lines)
    for j, p in enumerate(patterns):
        src_line, scan_line = ans[2 + 2 * j], ans[3 + 2 * j]
        m = re.fullmatch(r"src=(\S+) parse=(\w+)", src_line)
        if not m:
            raise HarnessError(f"driver: {src_line}")
        text = G.dec(m.group(1))
        own = ".*".join(re.escape(part) for part in p.split("*"))
        if text != own or m.group(2) != "ok":
            raise HarnessError(f"trusted base: model regex text {text!r} vs Python's {own!r} for pattern {p!r} (parse={m.group(2)})")
        rx = re.compile(text, re.DOTALL)
        sel = ",".join(str(i) for i, k in enumerate(keys) if rx.fullmatch(k)) or "-"
        spec = G.parse_answer(scan_line)[1]
        if sel != spec:
            raise HarnessError(f"trusted base: Python re on {text!r} selects {sel}, the glob spec {spec} (pattern {p!r})")
        st["re_pairs"] += len(keys)


def pyglob_selfcheck(rng, st: dict):
    """the harness's own glob (used for the lock-key proviso and for counting) against the driver's spec"""
    pairs = []
    for _ in range(400):
        alpha = rng.choice([G.SMALL_ALPHABET, G.FULL_ALPHABET, G.FULL_ALPHABET + G.EXTRA])
        p = G.rand_pattern(rng, alpha, 7)
        k = G.instantiate(rng, p, alpha) if rng.random() < 0.5 else G.near_miss(rng, p, G.instantiate(rng, p, alpha), alpha)
        pairs.append((p, k))
    ans = DRIVER.ask([f"match {G.enc(p)} {G.enc(k)}" for p, k in pairs])
    for (p, k), a in zip(pairs, ans):
        want = "T" if G.pyglob(p, k) else "F"
        if a != f"model={want} spec={want}":
            raise HarnessError(f"harness glob disagrees with the driver on {p!r} / {k!r}: {a}")
    st["pyglob_selfcheck_pairs"] = len(pairs)


# ---------------------------------------------------------------------------------------------------

def gen_cases(chk: Check, n: int) -> list[tuple[str, dict]]:
    rng = chk.rng
    plan = ["mem", "facade", "tx:fast", "tx:locked", "tx:serializable", "invalidate", "facade_secret", "tx:fast",
            "invalidate:fast", "mem", "tx:locked", "invalidate:locked", "tx:serializable", "invalidate:serializable"]
    out = []
    i = 0
    while len(out) < n:
        what = plan[i % len(plan)]
        i += 1
        r = rng.random()
        alpha = G.FULL_ALPHABET if r < 0.7 else G.SMALL_ALPHABET if r < 0.85 else G.FULL_ALPHABET + G.EXTRA
        for _ in range(20):
            if what.startswith("tx:"):
                c = G.gen_small(rng, "tx", alpha, 8, what[3:])
            elif what.startswith("invalidate"):
                c = G.gen_invalidate(rng, alpha, what.split(":")[1] if ":" in what else None)
            else:
                c = G.gen_small(rng, what, alpha, 10)
            if G.well_formed(c):
                out.append((f"gen:{what}:{i}", c))
                break
    return out


def split_cases(chk: Check, n_sample: int | None) -> list[tuple[str, dict]]:
    """every placement of three keys between store / expired / overlay / pending deletes (all of them in the
    thorough tier, a seeded sample in quick), for patterns that separate the keys"""
    rng = chk.rng
    scenarios = [
        (["a.b", "a.c", "axb"], "a.*"),
        (["k+(", "k+(:1", "kk("], "k+(*"),
        (["p|q$", "p|q", "pq$"], "*|q$"),
    ]
    combos = list(itertools.product(G.PLACEMENTS, repeat=3))
    out = []
    if n_sample is None:
        todo = [(si, pl, cmd, mode) for si in range(len(scenarios)) for pl in combos
                for cmd in ("scan", "get_match", "delete_match") for mode in ("fast", "locked", "serializable")
                if si == 0 or zlib.crc32(repr((pl, cmd, mode)).encode()) % 3 == 0]
    else:
        todo = [(rng.randrange(len(scenarios)), rng.choice(combos), rng.choice(["scan", "get_match", "delete_match"]),
                 rng.choice(["fast", "locked", "serializable"])) for _ in range(n_sample)]
    for si, pl, cmd, mode in todo:
        texts, pat = scenarios[si]
        c = G.with_warm(G.split_case(rng, texts, list(pl), pat, cmd, mode), zlib.crc32(repr((si, pl, cmd, mode)).encode()))
        if G.well_formed(c):
            out.append((f"split:{si}:{''.join(p + '/' for p in pl)}{cmd}:{mode}", c))
    return out


def multi_cases(chk: Check, n_sample: int | None) -> list[tuple[str, dict]]:
    """pattern command, write, pattern command again inside one transaction: the whole space x 3 modes in the
    thorough tier, a seeded sample (one mode each) in quick"""
    space = list(G.multi_space())
    out = []
    if n_sample is None:
        todo = [(pt, mode) for pt in space for mode in ("fast", "locked", "serializable")]
    else:
        todo = [(chk.rng.choice(space), chk.rng.choice(["fast", "locked", "serializable"])) for _ in range(n_sample)]
    for pt, mode in todo:
        c = G.with_warm(G.multi_case(*pt, mode), zlib.crc32(repr((pt, mode)).encode()))
        if G.well_formed(c):
            pl, first, w, cmd, pat = pt
            out.append((f"multi:{''.join(pl)}:{first[0]}:{first[1]}:{w[0]}:{w[1]}:{cmd}:{pat}:{mode}", c))
    return out


def run(chk: Check) -> int:
    proof = proof_stage(PROP, "driver_c13", chk.thorough) if not getattr(chk, "skip_proof", False) else None
    rng = chk.rng
    st = {"evaluations": 0, "pairs": 0, "re_pairs": 0, "hist": {}, "interesting": {}, "distinct": set()}
    found = 0
    samples = []

    def run_batch(batch: list[tuple[str, dict]]) -> bool:
        nonlocal found
        for lo in range(0, len(batch), 200):
            part = batch[lo:lo + 200]
            res = evaluate([c for _, c in part])
            for (origin, c), (obs, ans, bad, diff) in zip(part, res):
                st["evaluations"] += 1
                st["pairs"] += len(G.universe(c))
                name = f"{'delete_match' if c['kind'] == 'invalidate' else c['cmd']}:{c['kind']}" + (f":{c['mode']}" if c.get("mode") else "")
                st["hist"][name] = st["hist"].get(name, 0) + 1
                tags = G.interesting(c)
                for t in tags:
                    st["interesting"][t] = st["interesting"].get(t, 0) + 1
                if set(tags) & NONTRIVIAL:
                    st["distinct"].add(G.canon(c))
                    if len(samples) < 4 and len(c["keys"]) <= 4 and c["kind"] in ("tx", "invalidate", "mem")[len(samples) % 3:][:1]:
                        samples.append({"case": c, "implementation": obs, "driver": ans, "interesting": tags})
                if bad or diff:
                    found += 1
                    report(chk, c, origin)
                    if found >= 3:
                        return True
        return False

    # 1. corpus (witnesses of the repaired defects D5, D6 and regression cases)
    corpus = [("corpus:" + n, c) for n, c in corpus_cases()]
    stop = run_batch(corpus)

    # 2. exhaustive: every pattern x every key of length <= 4 over {a : * . + (}
    small = G.all_strings(G.SMALL_ALPHABET, 4)
    exhaustive_done = False
    if not stop:
        pyglob_selfcheck(rng, st)
        all_live = [[t, None, G.STORE_VALS[i % len(G.STORE_VALS)]] for i, t in enumerate(small)]   # every value kind, bit fields too
        stop = sweep_frame(chk, st, "mem", all_live, 0, small, "scan", "exhaustive")
        exhaustive_done = not stop
        found += int(stop)
    if not stop:
        re_trusted_base(st, small, small)
        longer = [G.rand_pattern(rng, G.FULL_ALPHABET + G.EXTRA, 12) for _ in range(chk.budget(200, 2000))]
        lkeys = [k for p in longer[:60] for k in G.gen_keys(rng, p, G.FULL_ALPHABET + G.EXTRA, 3)]
        re_trusted_base(st, longer, lkeys)
    if not stop:
        # the same universe with a third of the keys expired-unpurged and a third on a live ttl
        mixed = []
        for i, t in enumerate(small):
            r = rng.random()
            mixed.append([t, 8 if r < 0.33 else 96 if r < 0.66 else None, rng.choice(G.STORE_VALS)])
        pats = small if chk.thorough else rng.sample(small, 500)
        for kind, cmd in [("mem", "scan"), ("facade", "get_match")] + ([("facade_secret", "scan"), ("mem", "get_match"), ("facade", "scan")] if chk.thorough else []):
            if not stop:
                stop = sweep_frame(chk, st, kind, mixed, 16, pats, cmd, "mixed-ttl")
                found += int(stop)
        dpats = small if chk.thorough else rng.sample(small, 300)
        for kind in ["mem"] + (["facade"] if chk.thorough else []):
            if not stop:
                stop = sweep_frame(chk, st, kind, all_live, 0, dpats, "delete_match", "exhaustive-delete")
                found += int(stop)

    # 2b. the value alphabet: every value (None, the other falsy values, bit fields, ordinary ones) in every position
    #     a pattern command can meet it - store, overlay, both - fully enumerated in both tiers
    if not stop:
        grid = G.value_grid()
        st["value_grid"] = len(grid)
        stop = run_batch(grid)

    # 3. transactions: every split of three keys between store, overlay and pending deletes
    if not stop:
        splits = split_cases(chk, None if chk.thorough else 1500)
        st["tx_splits"] = len(splits)
        stop = run_batch(splits)

    # 3b. several commands in one transaction: pattern command, write, pattern command again
    if not stop:
        multi = multi_cases(chk, None if chk.thorough else 1500)
        st["tx_multi"] = len(multi)
        stop = run_batch(multi)

    # 3b'. a ttl assigned inside the transaction elapses before the judged read (model / spec judged; see globcase `crossing`)
    if not stop:
        cross = G.crossing_cases()
        st["tx_crossing"] = len(cross)
        stop = run_batch(cross)

    # 3c. iterations consumed step by step, the consumer working on the cache between two steps
    if not stop:
        iters = [(f"iter:{i}", c) for i, c in enumerate(G.iter_space())]
        niter_gen = chk.budget(1500, 20000)
        for i in range(niter_gen):
            for _ in range(20):
                c = G.gen_iter(rng, G.FULL_ALPHABET if rng.random() < 0.8 else G.SMALL_ALPHABET)
                if G.well_formed(c):
                    iters.append((f"gen:iter:{i}", c))
                    break
        st["iter_cases"] = len(iters)
        stop = run_batch(iters)

    # 4. random longer patterns / keys over the full metacharacter alphabet, all entry points
    if not stop:
        stop = run_batch(gen_cases(chk, chk.budget(6000, 150000)))

    if proof is not None:
        chk.proof_broken(proof, found > 0)
    chk.coverage.update({
        "evaluations": st["evaluations"],
        "distinct_nontrivial": len(st["distinct"]),
        "rule": "evaluation = one pattern command (scan / get_match / delete_match / invalidating call) executed on the real code and on the "
                "model for one (store, pattern); sources: corpus, the exhaustive grid (every pattern x every key of length <= 4 over "
                "{a : * . + (}, one store holding all 1555 keys, whose values cycle through the whole value alphabet), the same grid with a third "
                "of the keys expired-unpurged and values drawn from the value alphabet, the value grid (fully enumerated in both tiers: every value - None, "
                "0, '', b'', [], False, {}, 0.0, (), True, ordinary ints/strings, bit fields created by incr_bits - under a matching key x "
                "{no ttl, live ttl, expired} x 3 commands x Memory/facade/signed facade, and inside a transaction every value-carrying placement "
                "of that key {S, St, X, SD, O, Ot, OD, SO, XO, SDO} x store value x written value x 3 commands x 3 modes), every split of "
                "three keys between store/overlay/pending deletes, bit-field store keys included (thorough: all 15^3 placements x 3 commands x 3 modes for the first scenario, "
                "a third of them for two more; quick: seeded sample), and seeded random cases over letters, ':', '*' and . + ( ) | ^ $ { } "
                "(15% over the small alphabet, 15% with newline, space, tab, - # & ~ and a non-ASCII letter added) through Memory, the Cache facade (plain, signed), "
                "cache.transaction() in fast/locked/serializable mode and @cache.invalidate (outside and inside a transaction). "
                "A case is non-trivial iff it reaches a state in which a wrong implementation would show: the pre-repair regex reading "
                "(re.compile(pattern.replace('*','.*'))) would raise or select a different key set on this very store; an expired-unpurged key "
                "matches the pattern; inside a transaction a matching store key is pending-deleted / a matching key is in overlay and store / "
                "only in the overlay; a matching visible key holds a bit field; get_match meets a matching key holding None / another falsy value; "
                "a transaction wrote None over a matching store value / a value over a matching bit field. Stored values are drawn from the value "
                "alphabet everywhere (None 18%, other falsy 22%, bit field 10% of store entries). (Weaker states - a metacharacter pattern selecting a key, '*' splitting the live keys, an invalidate "
                "template selecting a key - are counted in interesting_states_cases but do not make a case non-trivial.) "
                "distinct = distinct canonical case (or (sweep, command, backend, pattern)). "
                "Cases whose pattern would reach the transaction's own ':tx_lock:'/':serializable:lock' keys are not generated (the property's proviso); "
                "the glob characters ? [ ] \\ never occur.",
        "samples": samples,
        "exhaustive": bool(exhaustive_done),
        "exhaustive_space": "all 1555 x 1555 (pattern, key) pairs of length <= 4 over {a : * . + (} through Memory.scan, all keys live"
                            + ("; the delete_match / get_match / facade sweeps cover all 1555 patterns too" if chk.thorough else
                               "; get_match / delete_match / expired-mix sweeps use a seeded sample of the patterns in the quick tier"),
        "pattern_key_pairs_evaluated": st["pairs"],
        "re_trusted_pairs_exercised": st["re_pairs"],
        "pyglob_selfcheck_pairs": st.get("pyglob_selfcheck_pairs", 0),
        "corpus_cases": len(corpus),
        "tx_split_cases": st.get("tx_splits", 0),
        "warm_up_rule": "pattern reads BEFORE the judged transaction on the same Cache object (scan / get_match outside any transaction, or inside an earlier "
                        "transaction that commits nothing): five warm-ups + none, assigned round-robin (by a hash of the case) to every split case and every "
                        "multi-command case, drawn for 45% of the random transaction cases and 30% of the invalidate-in-a-transaction cases; the same reads are "
                        "issued on the direct copy. Counted: the judged read had already been used outside a transaction / in an earlier transaction",
        "invalidate_accessor_rule": "half of the invalidate cases reach the text of an argument through an accessor of the template - {x[k]} with a dict "
                                    "argument, {x.a} with an object, {x[k].a} with a dict of objects - instead of a plain {x}; lists are not used (the "
                                    "formatter renders a list argument as text before it indexes it)",
        "tx_crossing_cases": st.get("tx_crossing", 0),
        "tx_crossing_rule": "a ttl assigned INSIDE the transaction elapses (txadv) before the judged scan / get_match: 288 enumerated cases (3 modes x 2 commands x "
                            "key also in the store or not x 4 companion writes x 6 warm-ups) + 12% of the random transaction reads. Excluded by the C03/C04 proviso "
                            "(NoDeadlineCrossed) from the comparison with direct execution and with the commit - there the store's old value legitimately shows "
                            "through again -, but the selection inside the transaction is judged against the model (Glob.Tx.scan: the overlay's LIVE matches, then "
                            "the store's) and the glob spec on the transaction's view: an expired buffered write does not hide the store's key",
        "delete_many_rule": "transaction writes include delete_many (`delm`): a third of the deletes of the random cases, and placement SOD (store entry overwritten "
                            "and then removed with delete_many) in the split cases (16^3 placements in the thorough tier)",
        "iteration_cases": st.get("iter_cases", 0),
        "iteration_rule": "scan / get_match consumed STEP BY STEP (`__anext__` by `__anext__`) on Memory, the facade and the signed facade, the consumer "
                          "issuing other commands between two steps: delete of a key (visited or not yet), write of a new or an existing key - into an "
                          "unlimited store or into one that is exactly full (`size` = number of keys: the write evicts the least recently used key, "
                          "possibly one the iteration has not reached) -, reads (which purge an expired key), delete_match, time advances that let a ttl "
                          "elapse mid-iteration. Enumerated (both tiers): 4 keys x 12 consumer actions after the first item x 12 after the second x "
                          "{scan, get_match} x 3 entry points x {unlimited, full} = 1728 cases; plus seeded random stores / patterns / actions (quick 1500, "
                          "thorough 20000). Judged: no step raises; no key is yielded twice; every yielded key matches; every key that matched, was live "
                          "at the start, was not touched by the consumer, whose ttl did not elapse and that is still there at the end was yielded (for "
                          "get_match: with its own value); and every step equals the model's step (Glob.scanNext / getMatchNext on the snapshot)",
        "tx_multi_command_cases": st.get("tx_multi", 0),
        "tx_multi_command_rule": "inside one transaction: an earlier pattern command (delete_match with the judged pattern, delete_match with "
                                 "another pattern selecting part of / more than it, scan, get_match), then a write (set, set with ttl, delete) of one of "
                                 "three keys (each absent / in the store / expired-unpurged: 27 stores), then the judged pattern command (scan, get_match, "
                                 "delete_match, pattern a.* or a.b*): 7290 points; thorough: all x 3 modes, quick: 1500 drawn from VERIF_SEED. 40% of the "
                                 "random transaction cases also carry 1-2 earlier pattern commands (identical pattern or another) between their writes. "
                                 "Judged like every transaction case: result and keys left inside the transaction = glob spec on the directly updated "
                                 "store (driver) = the same commands executed directly (real code) = keys left after commit",
        "value_grid_cases": st.get("value_grid", 0),
        "value_alphabet": {"plain": G.PLAIN_VALS, "bit_fields": G.BIT_VALS,
                           "legend": "n None; i:<k> int; t:<k> str; e:s '' e:b b'' e:l [] e:f False e:d {} e:z 0.0 e:u () e:T True; "
                                     "b:<k> Bitarray made by incr_bits(key, k%4, size=2, by=1+k//4)"},
        "op_histogram": st["hist"],
        "interesting_states_cases": st["interesting"],
        "trusted_base": TRUSTED,
        "partial": "templating of the invalidate key (str.format of the arguments) is executed, not modelled: the harness substitutes the "
                   "arguments itself (C08 covers key templates); keys/patterns longer than ~12 characters and stores of more than 1555 keys are "
                   "not sampled; only the in-memory backend is run (Redis' own MATCH globbing, also anchored by the property, cannot be run here); "
                   "a deadline elapsing inside a transaction is excluded (proviso of C03/C04); "
                   "results of the EARLIER pattern reads of a multi-command transaction are not compared (only the judged last command is; whole "
                   "histories with every answer compared are C03/C04's harness, harness/txhist.py); bit fields are created in the store before the "
                   "transaction only (incr_bits inside a transaction is proxied straight to the backend and is not a pattern-command matter; the "
                   "in-transaction get_match theorems carry the hypothesis that the overlay holds no bit-field object, proved preserved by the "
                   "transaction commands); values are compared by type and equality (a container value is one of [], {}, ()); decision on re.DOTALL: '*' stands for any run of "
                   "characters including a newline, so keys with '\\n' are part of the random stream and a miss there is reported as a violation",
    })
    chk.assumptions.extend(TRUSTED)
    return chk.finish(proof)


def replay(chk: Check, path: str) -> int:
    c = json.loads(Path(path).read_text())["case"]
    (obs, ans, bad, diff), = evaluate([c])
    print("case:          ", G.canon(c))
    print("universe:      ", {i: t for i, t in enumerate(G.universe(c))})
    print("pattern:       ", repr(G.pattern_of(c)))
    print("implementation:", obs)
    print("driver:        ", ans)
    for b in bad:
        print("property:      ", b)
    for d in diff:
        print("model:         ", d)
    if not bad and not diff:
        print("replay: no disagreement")
        return 0
    print(f"VIOLATION property={PROP} replay={path}" + ("" if bad else " no-failing-input-found"))
    return 1
