"""C20 - client-side cache agrees with the server once invalidations are delivered.

DECIDED RELATIVE TO TWO MODELS (as C19): real `BcastClientSide` instances (2-3 of them) run on the stub `redis` package;
the server they share - keyspace, BCAST tracking, the announcement queues of the invalidation connections - is the Lean
model (lean/Drivers/C20.lean answers every wire command and every read of an invalidation connection).

proof: lean/CashewsVerif/Props/C20.lean.
tie:   generated histories of commands by 2-3 clients, delivery forced after every command (every connected listener is
       pumped until its queue is empty), virtual-time advances across TTLs, drops of the invalidation connection and
       reconnects; compared per command: result == model; and the property itself: every read (get, get_many, exists,
       scan, get_match) == what the server holds at that moment.
       Outages have an explicit reconnect schedule (harness/cshist.py: gen_outage_history): drop, r refused connect attempts
       each `_RECONNECT_WAIT` of virtual time after the previous event (the code's own sleep on the virtual loop), commands -
       reads of the disconnected client, changes by the others - placed in every window, the last one included, reconnect,
       reads.
"""
from __future__ import annotations

import json
from pathlib import Path

from .. import redisstub as rs  # must precede any import of cashews
from .. import cshist as ch
from ..core import ROOT, Check, HarnessError, ddmin, proof_stage

PROP = "C20"

TRUSTED = [
    "Lean 4.33.0 kernel; axioms of every theorem audited to be within {propext, Classical.choice, Quot.sound}",
    "harness/stubs/redis (stand-in for redis-py incl. its PubSub; NOT validated: redis-py is not installed here)",
    "lean/CashewsVerif/Model/RedisSrv.lean + the tracking part of Model/ClientSide.lean: our reading of the Redis documentation "
    "(CLIENT TRACKING ... BCAST PREFIX with REDIRECT: every modification, expiry and flush is announced to every tracking client, the "
    "writer included); expiries are announced the moment time passes the deadline (idealised active expiry); no server is reachable here",
    "hand-written model Model/ClientSide.lean of client_side.py, tied to the code by this run's correspondence",
    "harness: virtual clock, listeners parked on an event instead of the 0.1 s poll, delivery forced after every command, canonicalisation; "
    "a connect attempt of a dropped client hangs at the stub until the history refuses or accepts it (the 10 s reconnect wait itself is the "
    "code's own asyncio.sleep on the virtual loop)",
]
PARTIAL = (
    "Decided relative to models of redis-py and of the server (tracking included), neither validated against the real thing. Quiescent points "
    "only (delivery completed between commands): interleavings of a command with in-flight announcements are not explored. Not exhibited: "
    "late expiry announcements of a real server, get on a key locked with a raw token, get_size, more than one SCAN page, the local copy's capacity, "
    "server down (C19), more than 3 clients. get_expire's answer is compared with the model only (the code lets it differ from the server's). "
    "Outages: a connect attempt is refused or accepted as a whole (no failure between CLIENT TRACKING and SUBSCRIBE), one client in an outage at a "
    "time in the outage histories (the random histories drop several); the local copy is observed through reads only."
)
KNOWN_SIGS = {
    "D28": "D28:negative-int-not-read-back",
    "D26": "D26:rejected-conditional-write-readable",
    "D31": "D31:stale-after-reconnect-echo-mark",
    "D63": "D63:get-many-default-equal-value-remembered-absent",
    "D66": "D66:get-many-repeated-keys",
}


def norm_dump(d: str):
    """(stub keyspace as the caller names the keys - the driver applies removePrefix -, model keyspace)"""
    i = d.index(" model=")
    return d[len("stub="):i], d[i + len(" model="):]


def classify(steps, i) -> str | None:
    """is the wrong read at step i the phantom of an earlier rejected conditional write (D26) or swallowed by a stale echo mark (D31)"""
    s = steps[i]
    op = s["op"]
    c = op[1]
    keys = [op[2]] if op[0] in ("get", "exists") else list(op[2]) if op[0] == "getmany" else ch.case_keys([t["op"] for t in steps])
    if op[0] in ("get", "getmany") and "=" in s["impl"] and "=" in (s["server"] or ""):
        a, b = s["impl"].split("=", 1)[1].split(","), s["server"].split("=", 1)[1].split(",")
        if len(a) == len(b) and all(x == y or (x == "-" and y.startswith("i:-")) for x, y in zip(a, b)):
            return KNOWN_SIGS["D28"]
    for j in range(i, -1, -1):
        # an earlier get_many(default=d) of this client that fetched a stored value equal to d and filed it as "known absent"
        o = steps[j]["op"]
        if o[0] == "getmany" and len(o) > 3 and o[1] == c and set(o[2]) & set(keys):
            dtok = {"i0": "i:0", "none": "o:80054e2e"}.get(o[3])
            held = (s["server"] or "=").split("=", 1)[1].split(",")        # what the server holds where the read went wrong
            if dtok in held:
                return KNOWN_SIGS["D63"]
        if o[0] in ("clear", "drop", "reconnect") and (o[0] == "clear" or o[1] == c):
            break
    for j in range(i - 1, -1, -1):
        o = steps[j]["op"]
        if o[0] in ("set", "setlock") and o[1] == c and o[2] in keys and steps[j]["impl"] == "F":
            return KNOWN_SIGS["D26"]
        if o[0] in ("clear", "drop", "reconnect") and (o[0] == "clear" or o[1] == c):
            break
    # a write by c while it was disconnected, a reconnect within 5 s of it, then another client's write is not seen
    seen_reconnect = False
    ticks = 0
    for j in range(i - 1, -1, -1):
        o = steps[j]["op"]
        if o[0] == "adv":
            ticks += o[1]
        if o[0] == "reconnect" and o[1] == c:
            seen_reconnect = True
        if seen_reconnect and o[0] in ("set", "setmany", "incr", "expire", "setlock") and o[1] == c and ticks < 40:
            return KNOWN_SIGS["D31"]
        if o[0] == "drop" and o[1] == c:
            break
    return None


def judge(steps) -> list[dict]:
    out = []
    for i, s in enumerate(steps):
        impl, model, want = s["impl"], s["model"], s["server"]
        if impl.startswith("?") or impl == "RAISEOTHER":
            dup = s["op"][0] == "getmany" and len(set(s["op"][2])) < len(s["op"][2])
            out.append({"i": i, "kind": "property", "sig": KNOWN_SIGS["D66"] if dup else None,
                        "what": f"`{s['line']}` -> {impl} {s['detail']}" + (" (get_many with a key asked for twice: one answer per position)" if dup else "")})
            continue
        if want is not None and impl != want:
            sig = classify(steps, i)
            out.append({"i": i, "kind": "property", "sig": sig,
                        "what": f"client {s['op'][1]} read `{s['line']}` -> {impl} but the server holds {want} (all announcements delivered)"})
            if sig is not None:
                break           # a listed defect has struck: the local copies are off from here on, nothing more to learn from this case
            continue
        if impl != model:
            out.append({"i": i, "kind": "correspondence", "sig": None, "what": f"`{s['line']}` -> impl {impl}, model {model}"})
            break
        a, b = norm_dump(s["dump"])
        if a != b:
            out.append({"i": i, "kind": "correspondence", "sig": None,
                        "what": f"server keyspace after `{s['line']}` differs from the model's: {a} vs {b}"})
            break
    return out


ALLKEYS: list[str] = []       # the keys of the history being judged (set by stats_of)


def keys_read(op) -> list[str]:
    """keys whose server content a read fetches (and, for a disconnected client, writes into its local copy)"""
    if op[0] in ("get", "exists"):
        return [op[2]]
    if op[0] == "getmany":
        return list(op[2])
    if op[0] == "getmatch":
        return list(ALLKEYS)
    return []


def keys_changed(op) -> list[str]:
    if op[0] in ("set", "incr", "delete", "expire", "setlock", "unlock"):
        return [op[2]]
    if op[0] == "setmany":
        return [kv[0] for kv in op[3]]
    if op[0] == "delmany":
        return list(op[2])
    if op[0] in ("clear", "delmatch"):
        return list(ALLKEYS)
    return []


def stats_of(steps, prefix=None) -> set[str]:
    st = set()
    ALLKEYS[:] = ch.case_keys([t["op"] for t in steps])
    pfx = prefix or ch.DEFAULT_PREFIX
    if prefix is not None:
        st.add("custom_prefix")
    if any(pfx in k for k in ALLKEYS):
        st.add("key_contains_prefix_text")
    if any(k == pfx for k in ALLKEYS):
        st.add("key_equals_prefix")
    if any(a != b and b.startswith(a) for a in ALLKEYS for b in ALLKEYS):
        st.add("keys_prefixes_of_each_other")
    dropped = set()
    last_writer: dict[str, int] = {}
    outage_reads: dict[int, set] = {}       # disconnected client -> keys it read since the drop / the last refused attempt
    outage_stale: dict[int, set] = {}       # …of which somebody else changed afterwards (the local copy is now wrong)
    watch: dict[int, set] = {}              # after the reconnect: keys whose outage-time copy would be stale
    refusals: dict[int, int] = {}
    for i, s in enumerate(steps):
        op = s["op"]
        if op[0] == "drop":
            dropped.add(op[1])
            st.add("drop")
            outage_reads[op[1]], outage_stale[op[1]], refusals[op[1]] = set(), set(), 0
        if op[0] == "refuse":
            st.add("refused_connect_attempt")
            if outage_reads.get(op[1]):
                st.add("refusal_clears_outage_reads")
            outage_reads[op[1]], outage_stale[op[1]] = set(), set()
            refusals[op[1]] = refusals.get(op[1], 0) + 1
        if op[0] == "reconnect":
            if op[1] in dropped:
                if outage_reads.get(op[1]):
                    st.add("reconnect_after_outage_reads")
                if outage_stale.get(op[1]):
                    st.add("reconnect_with_stale_outage_reads")
                    if refusals.get(op[1]):
                        st.add("reconnect_with_stale_outage_reads_after_refusals")
                watch[op[1]] = set(outage_stale.get(op[1], ()))
            dropped.discard(op[1])
            st.add("reconnect")
        if len(op) > 1 and op[0] != "adv":
            c = op[1]
            if c in dropped:
                outage_reads[c].update(keys_read(op))
            for d in dropped:
                if d != c:
                    outage_stale[d].update(set(keys_changed(op)) & outage_reads[d])
            if c not in dropped and c in watch and set(keys_read(op)) & watch[c] and op[0] != "getmatch":
                st.add("read_after_reconnect_of_key_gone_stale_in_outage")
                watch[c] -= set(keys_read(op))
        if op[0] == "getmany" and len(op) > 3:
            st.add("get_many_with_callers_default")
            dt = "i:0" if op[3] == "i0" else None
            if dt and dt in (s["server"] or "")[3:].split(","):
                st.add("get_many_default_equals_stored_value")
        if op[0] == "getmany" and len(set(op[2])) < len(op[2]):
            st.add("get_many_repeated_key")
        if op[0] in ("getmatch", "scan") and (s["server"] or "")[3:]:
            st.add("pattern_read_nonempty")
        if op[0] == "getexpire" and s["impl"].startswith("n=") and int(s["impl"][2:]) > 0:
            st.add("get_expire_positive")
        if op[0] == "expire" and op[3] == 0:
            st.add("expire_zero")
        if op[0] == "incr" and op[4] is not None:
            st.add("incr_with_ttl")
        if op[0] in ("get", "exists") and op[1] in dropped:
            st.add("read_while_disconnected")
        if op[0] == "set" and op[5] != "a" and s["impl"] == "F":
            st.add("rejected_conditional_write")
        if op[0] == "setlock" and s["impl"] == "F":
            st.add("rejected_lock")
        if op[0] in ("set", "setmany", "incr", "delete", "delmany", "expire"):
            for k in ([op[2]] if op[0] != "setmany" and op[0] != "delmany" else ([kv[0] for kv in op[3]] if op[0] == "setmany" else op[2])):
                last_writer[k] = op[1]
        if op[0] == "get" and op[2] in last_writer and last_writer[op[2]] != op[1]:
            st.add("read_of_key_written_by_other_client")
        if op[0] == "adv" and s["model_queues_before_delivery"].replace("0", "").replace(",", ""):
            st.add("expiry_announced")
        if op[0] == "clear":
            st.add("flush")
        if op[0] == "get" and s["impl"] == "v=-" and i > 0:
            st.add("negative_read")
    return st


class Ctx:
    def __init__(self, chk: Check):
        self.chk = chk
        self.drv = rs.PersistentDriver("driver_c20", "Drivers/C20.lean")
        self.evaluations = 0
        self.distinct: set = set()
        self.interesting: dict[str, int] = {}
        self.op_hist: dict[str, int] = {}
        self.samples: list = []
        self.reported: set = set()
        self.found = 0
        self.pending_corr = None
        self.prefix = None            # client_side_prefix of the case being run (None = the default)

    def run(self, n, ops):
        steps = ch.run_case(self.drv, n, ops, self.prefix)
        return steps, judge(steps)

    def account(self, n, ops, steps):
        self.evaluations += 1
        st = stats_of(steps, self.prefix)
        for k in st:
            self.interesting[k] = self.interesting.get(k, 0) + 1
        for s in steps:
            self.op_hist[s["op"][0]] = self.op_hist.get(s["op"][0], 0) + 1
        if st:
            self.distinct.add((n, json.dumps(ops)))
        if len(self.samples) < 3 and len(st) >= 3 and len(ops) <= 14:
            self.samples.append({"clients": n, "ops": ops, "impl": [s["impl"] for s in steps]})

    def handle(self, n, ops, steps, probs, origin):
        props = [p for p in probs if p["kind"] == "property"]
        if not props:
            if self.pending_corr is None:
                self.pending_corr = (n, ops, probs[0], origin, self.prefix)
            return
        for p in props:
            key = p["sig"] or "fresh"
            if p["sig"] and p["sig"] in self.reported:
                continue
            known = p["sig"] and any(f.get("status") == "known" and f.get("signature") == p["sig"] for f in self.chk.known)
            if known:
                self.reported.add(p["sig"])
                self.chk.violation(p["what"], replay_dict(n, ops, steps, p, origin, self.prefix), signature=p["sig"])
                continue
            target = p["sig"]

            def fails(sub):
                try:
                    _, pr = self.run(n, sub)
                except HarnessError:
                    return False
                return any(q["kind"] == "property" and q["sig"] == target for q in pr)

            small = ddmin(ops, fails) if len(ops) > 1 else ops
            steps2, pr2 = self.run(n, small)
            p2 = next((q for q in pr2 if q["kind"] == "property" and q["sig"] == target), None)
            if p2 is None:
                raise HarnessError(f"disagreement not reproducible on re-run: {p['what']}")
            if target:
                self.reported.add(target)
            self.chk.violation(p2["what"] + f" ({n} clients)", replay_dict(n, small, steps2, p2, origin, self.prefix), signature=target)
            self.found += 1
            if key == "fresh":
                break

    def report_correspondence(self):
        n, ops, p, origin, self.prefix = self.pending_corr

        def fails(sub):
            try:
                _, pr = self.run(n, sub)
            except HarnessError:
                return False
            return bool(pr) and all(q["kind"] == "correspondence" for q in pr)

        small = ddmin(ops, fails) if len(ops) > 1 else ops
        steps2, pr2 = self.run(n, small)
        p2 = next((q for q in pr2 if q["kind"] == "correspondence"), None)
        if p2 is None:
            raise HarnessError(f"disagreement not reproducible on re-run: {p['what']}")
        self.chk.violation(
            "correspondence broken (client_side.py vs Model/ClientSide.lean; no read contradicting the server was found in this run): " + p2["what"],
            dict(replay_dict(n, small, steps2, p2, origin, self.prefix), broken="correspondence Model/ClientSide.lean <-> cashews/backends/redis/client_side.py"),
            signature=None, no_input=True)
        self.found += 1


def replay_dict(n, ops, steps, p, origin, prefix=None):
    return {"clients": n, "prefix": prefix, "ops": ops, "origin": origin, "first_problem_step": p["i"], "kind": p["kind"],
            "trace": [dict({"line": s["line"], "impl": s["impl"], "server": s["server"], "model": s["model"], "detail": s["detail"]},
                           **({"model_local_copy_of_clients_in_outage": s["model_local"]} if "model_local" in s else {})) for s in steps],
            "replay_cmd": "./check C20 --replay <this file>"}


def corpus_cases():
    for f in sorted((ROOT / "corpus" / PROP).glob("*.json")):
        c = json.loads(f.read_text())
        yield f.name, c["clients"], c["ops"], c.get("prefix")


def run(chk: Check) -> int:
    proof = proof_stage(PROP, "driver_c20", chk.thorough) if not getattr(chk, "skip_proof", False) else None
    ctx = Ctx(chk)
    try:
        ncorpus = 0
        for name, n, ops, pfx in corpus_cases():
            ncorpus += 1
            ctx.prefix = pfx
            steps, probs = ctx.run(n, ops)
            ctx.account(n, ops, steps)
            if probs:
                ctx.handle(n, ops, steps, probs, "corpus:" + name)
        total = chk.budget(500, 14000)
        noutage = 0
        necho = 0
        for i in range(total):
            if ctx.found >= 3:
                break
            n = 2 if i % 3 else 3
            if i % 4 == 2:
                ops = ch.gen_outage_history(chk.rng, n, maxpre=(6 if i % 8 == 2 else 0))
                noutage += 1
            elif i % 8 == 4:
                ops = ch.gen_echo_history(chk.rng, n, necho)
                necho += 1
            else:
                ops = ch.gen_history(chk.rng, n, 30 if i % 4 else 10, with_drops=(i % 5 != 0))
            # the configured prefix and the key alphabet: default / short custom prefixes x plain keys / keys that contain the prefix
            # text, equal it, end in it / keys that are prefixes of each other, a fragment of the prefix, the doubled prefix
            ctx.prefix = ch.PREFIXES[i % len(ch.PREFIXES)]
            ops = ch.rename_ops(ops, ch.keymaps(ctx.prefix)[(i // 2) % 3])
            steps, probs = ctx.run(n, ops)
            ctx.account(n, ops, steps)
            if probs:
                ctx.handle(n, ops, steps, probs, f"gen:{i}")
        if ctx.pending_corr is not None and ctx.found == 0:
            ctx.report_correspondence()
        if proof is not None:
            chk.proof_broken(proof, ctx.found > 0)
        chk.coverage.update({
            "evaluations": ctx.evaluations,
            "distinct_nontrivial": len(ctx.distinct),
            "rule": "histories of 2..30 commands issued by 2 or 3 real BcastClientSide instances sharing one modelled server, generated from "
                    "VERIF_SEED (reads, pattern reads (scan, get_match), get_expire, writes, pipelined writes, conditional writes followed by a "
                    "read, increments with and without a TTL, deletes, pattern deletes, re-timing, flush, locks, time advances of 0..5 s, "
                    "drops and reconnects of the invalidation connection); every connected listener is pumped "
                    "until its queue is empty after every command; every fourth history is an OUTAGE history with an explicit reconnect "
                    "schedule: warm-up, drop of one client, 0..3 refused connect attempts each at least _RECONNECT_WAIT (80 ticks of "
                    "virtual time, the code's own sleep) after the previous event, in every window - always in the last - reads of the "
                    "disconnected client (get / get_many / exists / get_match, hits and misses), changes of those keys by other "
                    "clients (overwrite, create, delete, incr, expire 0, pipeline, flush, pattern delete), more reads, then the "
                    "accepted attempt, reads, another change, reads; a case is non-trivial iff it reached an interesting state "
                    "(interesting_states_cases); distinct = distinct (clients, ops)",
            "prefix_and_key_alphabet_rule": "history i runs with client_side_prefix = [default, 'c:', default, 'k:', 'v1:'][i % 5] and its keys renamed by "
                                            "alphabet (i // 2) % 3: 0 plain (k:a k:b j:a k:zz L:a - under the prefix 'k:' these already contain the prefix "
                                            "text); 1 the prefix text again inside a key, a key equal to the prefix, a key ending in the prefix; 2 keys that are "
                                            "prefixes of each other ('k:', 'k:<prefix>'), a fragment of the prefix, the doubled prefix",
            "outage_histories": noutage,
            "echo_motif_histories": necho,
            "echo_motif_rule": "every eighth history consists of 4 motifs `client a gets into a state about a key (knows it absent / has it cached / "
                               "knows nothing) -> a issues one of 11 commands on it (expire short/long, expire 0, get_expire, set nx/xx, incr with/without ttl, delete, "
                               "delete_many, set_many) -> another client changes the key 0..10 s later (inside / outside the 5 s life of an "
                               "echo mark) -> a reads`; the 33 (state, command) pairs are swept round-robin, so each is exercised several times per run",
            "samples": ctx.samples,
            "corpus_cases": ncorpus,
            "op_histogram": ctx.op_hist,
            "interesting_states_cases": ctx.interesting,
            "driver_requests": ctx.drv.requests,
            "trusted_base": TRUSTED,
            "partial": PARTIAL,
        })
        chk.assumptions.extend(TRUSTED)
        return chk.finish(proof)
    finally:
        ctx.drv.close()


def replay(chk: Check, path: str) -> int:
    c = json.loads(Path(path).read_text())
    if "ops" not in c:
        print("replay file carries no input (broken proof); nothing to run")
        return 0
    ctx = Ctx(chk)
    try:
        ctx.prefix = c.get("prefix")
        steps, probs = ctx.run(c["clients"], c["ops"])
        for s in steps:
            print(f"{s['line'][:50]:50s} impl={s['impl'][:40]:40s} server={str(s['server'])[:40]:40s} model={s['model'][:40]}"
                  + ("   model-local " + " ".join(f"c{i}:{v}" for i, v in s["model_local"].items()) if "model_local" in s else ""))
        probs = [p for p in probs if not (p["sig"] and any(f.get("status") == "known" and f.get("signature") == p["sig"] for f in chk.known))]
        if not probs:
            print("replay: no disagreement")
            return 0
        for p in probs:
            print("  " + p["kind"] + ": " + p["what"])
        print(f"VIOLATION property={PROP} replay={path}")
        return 1
    finally:
        ctx.drv.close()
