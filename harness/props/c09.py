"""C09 - serialization round-trips every supported value under every configuration.

proof: lean/CashewsVerif/Props/C09.lean (framing round trip for every payload/key/secret/digest/pickler under explicit
       pickler hypotheses P1-P3 and a hex-MAC hypothesis).
tie:   generated values x keys x every configuration `Cache.setup('mem://?...')` can build are written and read back
       through set/get, set_many/get_many (and get with the default None) on the real code, with an instrumented
       pickler installed through `Serializer.set_pickler`; the same cases go through the model driver in five
       batched rounds (MAC query, stored form, MAC query, pre-unpickler decision, result).  Compared:
       (a) stored form, unpickler calls and results: implementation == model;
       (b) the property itself: what comes back is canon-equal (deep value + type) to what was stored.
       P1-P3 are validated for the real picklers on every generated value (sampling).
       Registration programs (harness/serial_reg.py): `register_type` calls interleaved with the construction of caches,
       writes and reads - a type registered before / after cache.setup(), between two caches, written before it was
       registered, a name registered again with another codec - under every configuration; the model is asked with the
       registry of the moment of each call (Model/Serial.lean: `reg` is an argument of encode and of decode).
       Classes: the driver is told the CLASS handed to register_type and the class of each value (__name__ and
       __qualname__) and derives the registry key itself with ONE function (Klass.tag) for both; registered classes
       nested in classes and local to functions are written and read under every configuration, classes sharing a
       __name__ and subclasses of registered classes in registration programs; (c) "through that pair": the registered
       encoder ran during the write, the registered decoder during the read.

"json where applicable": the json pickler is exercised on JSON-native shapes only (None, bool, int, float, str, lists,
dicts with str keys, recursively) plus top-level bytes / registered custom types (never handed to json) and top-level
ints (stored raw).  Tuples, sets, Decimal, dates, dataclasses, named tuples, non-str dict keys and bytes *inside*
containers are not representable in JSON (tuples would come back as lists, the rest raise in json.dumps) and are not
generated for that pickler.  `pickle_type=null` with a secret is the default pickler (`_get_pickler`), and is run as such.
"""
from __future__ import annotations

import copy
import datetime
import decimal
import json
from pathlib import Path

from .. import serial as S
from .. import serial_reg as R
from .. import vtime
from ..core import ROOT, Check, Driver, HarnessError, ddmin, proof_stage

PROP = "C09"
DRIVER = Driver("driver_c09", "Drivers/C09.lean")

TRUSTED = [
    "Lean 4.33.0 kernel; axioms of every theorem audited to be within {propext, Classical.choice, Quot.sound}",
    "hand-written model lean/CashewsVerif/Model/Serial.lean of cashews/serialize.py, tied to the code by this run's correspondence",
    "hypothesis P1 (loads(dumps v) = v, not bytes), P2 (dumps v never starts with '<registered type>:'), P3 (dumps v is not a digit "
    "string, with or without a leading '-') about pickle/json: hypotheses of decode_encode, validated here by sampling on every generated value, not proved",
    "hypothesis HexMac (MAC output is [0-9a-f]*): proved for every MAC of the shape hexdigest()/f'{s:x}' (hex_mac_of_raw); that hmac's "
    "hexdigest() is such a rendering is trusted",
    "registered custom codecs satisfy dec(enc v) = v (hypothesis; the harness' own codecs do); across a re-registration of a name the "
    "hypothesis dec_read(enc_write v) = v of decode_encode_registries is evaluated literally on the harness codecs - where it fails "
    "(incompatible codec) only implementation == model is compared",
    "harness isolation of registration programs resets Serializer._type_mapping (the class-level dict) between programs",
    "harness: 'class C is registered' = C was handed to register_type and no class with the same __name__ was registered "
    "after it (serial.slot mirrors Klass.tag); the harness' codecs record their own invocations (serial.CODEC_CALLS)",
    "harness: canonical form of values (harness/serial.py canon), instrumented pickler, protocol encoding",
]

# which branch of decode a case went through: counted, but not what makes a case non-trivial
PATH_TAGS = {"unpickle_path", "custom_decode_path", "passthrough_object", "raw_int", "separator_in_key", "digit_key"}

NS = {"datetime": datetime, "decimal": decimal, "Decimal": decimal.Decimal, "inf": float("inf"), "nan": float("nan"),
      "Rec": S.Rec, "Point": S.Point, "Pair": S.Pair, "Triple": S.Triple, **S.BOX, **S.NS_CLASSES}


def conf_to_json(c: S.Conf) -> dict:
    return {"pickle_type": c.pickle_type, "secret": c.secret, "digest": c.digest, "via": c.via}


def conf_from_json(d: dict) -> S.Conf:
    return S.Conf(d.get("pickle_type"), d.get("secret"), d.get("digest", "md5"), d.get("via", "url"))


def pairs_src(pairs) -> str:
    return S.rp(list(pairs))


def pairs_eval(src: str):
    with S.no_int_str_limit():       # a replay file may spell an integer of more than 4300 digits out
        return [tuple(p) for p in eval(src, dict(NS))]  # corpus / replay files are part of this repository


# ----------------------------------------------------------------------------------------------------
# implementation side
# ----------------------------------------------------------------------------------------------------
def run_impl(conf: S.Conf, pairs):
    """returns one record per pair: raw stored forms, outcomes of the three read paths, pickler calls"""

    async def go():
        cache, backend, rec = conf.setup()
        # r["value"] is an INDEPENDENT deep snapshot taken before any call: the reference of every comparison and what the
        # model is asked about.  The cache is handed other objects (r["live"], r["live2"]: the caller's own), which the
        # caller changes at the top level right after set / set_many - "storing the value" means the value at that moment.
        # An object used under several keys stays ONE object on the caller's side (shared deepcopy memo).
        memo1: dict = {}
        memo2: dict = {}
        recs = [{"key": k, "value": copy.deepcopy(v), "live": copy.deepcopy(v, memo1), "live2": copy.deepcopy(v, memo2)} for k, v in pairs]
        for r in recs:
            rec.reset()
            del S.CODEC_CALLS[:]
            try:
                r["set"] = await cache.set(r["key"], r["live"])
            except Exception as exc:  # noqa: BLE001
                r["set"] = "raised:" + type(exc).__name__
            r["dumps"] = list(rec.dumps_calls)
            r["enc_calls"] = list(S.CODEC_CALLS)
        mutated = set()
        for r in recs:
            if id(r["live"]) not in mutated:
                mutated.add(id(r["live"]))
                r["mutated"] = S.mutate_top(r["live"])
        for r in recs:
            r["rawA"] = await cache.get_raw(r["key"])
        for r in recs:
            rec.reset()
            del S.CODEC_CALLS[:]
            r["getA"] = await S.read(cache.get(r["key"], default=S.SENT))
            r["loadsA"] = list(rec.loads_calls)
            r["dec_calls"] = list(S.CODEC_CALLS)
            rec.reset()
            o = await S.read(cache.get(r["key"]))
            r["getC"] = o
        await cache.clear()
        try:
            await cache.set_many({r["key"]: r["live2"] for r in recs})
            sm = True
        except Exception as exc:  # noqa: BLE001
            sm = "raised:" + type(exc).__name__
        mutated = set()
        for r in recs:
            if id(r["live2"]) not in mutated:
                mutated.add(id(r["live2"]))
                S.mutate_top(r["live2"])
        for r in recs:
            r["set_many"] = sm
            r["rawB"] = await cache.get_raw(r["key"])
        rec.reset()
        many = await S.read(cache.get_many(*[r["key"] for r in recs], default=S.SENT))
        loads_b = list(rec.loads_calls)
        for i, r in enumerate(recs):
            if many[0] == "value":
                x = many[1][i] if i < len(many[1]) else S.SENT
                r["manyB"] = ("dflt", None) if x is S.SENT else ("value", x)
            else:
                r["manyB"] = many
        return recs, loads_b

    return vtime.run(go)


def check_hyps(conf: S.Conf, v, hyp):
    """validate P1-P3 for the real pickler of this configuration on the value v (sampling)"""
    slots = S.registered_slots()
    if conf.pk != "real" or type(v) is int or S.slot(type(v)) in slots:
        return
    from cashews.picklers import PicklerType, get_pickler

    pk = get_pickler(PicklerType.JSON if conf.is_json else PicklerType.DEFAULT)
    try:
        d = pk.dumps(v)
        back = pk.loads(d)
        p1 = isinstance(d, bytes) and S.canon_s(back) == S.canon_s(v) and not isinstance(back, bytes)
    except Exception:  # noqa: BLE001
        d, p1 = None, False
    for name, ok in (("P1", p1),
                     ("P2", d is not None and not (b":" in d and d.split(b":", 1)[0] in slots)),
                     ("P3", d is not None and not d.isdigit() and not (d[:1] == b"-" and d[1:].isdigit()))):
        h = hyp.setdefault(name, {"checked": 0, "failed": 0, "first_failure": None})
        h["checked"] += 1
        if not ok:
            h["failed"] += 1
            h["first_failure"] = h["first_failure"] or f"{conf.name()} {S.RP(v)!r}"[:200]


# ----------------------------------------------------------------------------------------------------
# model side + comparison
# ----------------------------------------------------------------------------------------------------
def evaluate(cases, ids: S.Ids):
    """cases: list of (conf, pairs).  Returns per case a list of problems [(kind, text)], kind in {'spec','model'}
    and per-case interesting-state tags."""
    impl = []
    for conf, pairs in cases:
        impl.append(run_impl(conf, pairs))
    flat = []  # (case index, record)
    for ci, (recs, _) in enumerate(impl):
        for r in recs:
            flat.append((ci, r))

    def base(ci, r):
        conf = cases[ci][0]
        return f"{conf.fields()} {S.key_field(r['key'])}"

    def dumps_field(r):
        if r["dumps"]:
            out = r["dumps"][-1][1]
            return "dumps=" + S.show_val(out, ids)
        return "dumps=-"

    # round 1/2: encode
    l1 = [f"enc1 {base(ci, r)} v={S.show_val(r['value'], ids)} {dumps_field(r)}" for ci, r in flat]
    a1 = DRIVER.ask(l1) if l1 else []
    l2 = [l.replace("enc1 ", "enc2 ", 1) + " " + S.mac_field(a, cases[ci][0].secret) for l, a, (ci, r) in zip(l1, a1, flat)]
    a2 = DRIVER.ask(l2) if l2 else []
    # round 3/4/5: decode what the implementation stored
    l3 = [f"dec1 {base(ci, r)} w={S.show_val(r['rawA'], ids)} same=0" for ci, r in flat]
    a3 = DRIVER.ask(l3) if l3 else []
    l4 = [l.replace("dec1 ", "dec2 ", 1) + " " + S.mac_field(a, cases[ci][0].secret) for l, a, (ci, r) in zip(l3, a3, flat)]
    a4 = DRIVER.ask(l4) if l4 else []

    def verdict(r):
        if len(r["loadsA"]) == 1:
            _, kind, res = r["loadsA"][0]
            return "ok:" + S.show_val(res, ids) if kind == "ok" else kind
        return "-"

    l5 = [l.replace("dec2 ", "dec3 ", 1) + " loads=" + verdict(r) for l, (ci, r) in zip(l4, flat)]
    a5 = DRIVER.ask(l5) if l5 else []
    # get(k) with the default None: `value is default` exactly when the stored object is None
    l6 = [f"dec3 {base(ci, r)} w={S.show_val(r['rawA'], ids)} same={1 if r['rawA'] is None else 0} "
          + S.mac_field(a, cases[ci][0].secret) + " loads=" + verdict(r) for a, (ci, r) in zip(a3, flat)]
    a6 = DRIVER.ask(l6) if l6 else []

    problems = [[] for _ in cases]
    tags = [set() for _ in cases]
    for i, (ci, r) in enumerate(flat):
        conf = cases[ci][0]
        v = r["value"]
        want = S.canon_s(v)
        pr = problems[ci]
        for ans in (a1[i], a2[i], a3[i], a4[i], a5[i], a6[i]):
            if ans == "bad-op":
                raise HarnessError(f"driver could not parse a request for case {conf.name()} {r['key']!r} {S.RP(v)!r}")
            if "miss=1" in ans:
                raise HarnessError(f"model asked for a MAC the driver did not announce: {ans}")
        # ---- (b) the property: equal value of the same type on every read path
        if r["set"] is not True:
            pr.append(("spec", f"set({r['key']!r}, {S.RP(v)!r}) -> {r['set']}"))
        if r["set_many"] is not True:
            pr.append(("spec", f"set_many with {r['key']!r}: {S.RP(v)!r} -> {r['set_many']}"))
        for path in ("getA", "manyB", "getC"):
            kind, got = r[path]
            label = {"getA": "set/get", "manyB": "set_many/get_many", "getC": "set/get(default None)"}[path]
            if kind != "value" or S.canon_s(got) != want:
                shown = f"{S.RP(got)!r} ({type(got).__name__})" if kind == "value" else (kind + (":" + str(got) if got else ""))
                pr.append(("spec", f"{label}: stored {S.RP(v)!r} ({type(v).__name__}) under {r['key']!r}, read back {shown}"))
        # ---- (c) "round-trip through that pair": the pair registered for the value's class was used
        own = S.registered_slots().get(S.slot(type(v)))
        if isinstance(v, S.Boxed) and own is not None and own[0] is type(v):
            if ("enc", type(v), own[1]) not in r["enc_calls"]:
                pr.append(("spec", f"set({r['key']!r}, {S.RP(v)!r}): {type(v).__qualname__} was handed to register_type but its encoder "
                                   f"was not called; stored form {S.rp(r['rawA'])[:80]}"))
            elif ("dec", type(v), own[1]) not in r["dec_calls"]:
                pr.append(("spec", f"get({r['key']!r}) of {S.RP(v)!r}: {type(v).__qualname__} is registered but its decoder was not called"))
        # ---- (a) implementation vs model
        m_stored = a2[i].split()[0]
        for which in ("rawA", "rawB"):
            i_stored = "stored=" + S.show_val(r[which], ids)
            if m_stored != i_stored:
                pr.append(("model", f"stored form ({'set' if which == 'rawA' else 'set_many'}) of {S.RP(v)!r} under {r['key']!r}: impl {i_stored[:120]} model {m_stored[:120]}"))
        pre = a4[i].split()[0]
        called = [p for p, _, _ in r["loadsA"]]
        expect = [bytes.fromhex(pre.split(":", 1)[1])] if pre.startswith("pre=loads:") else []
        if called != expect:
            pr.append(("model", f"unpickler calls on get({r['key']!r}): impl {called!r} model {expect!r} ({pre[:80]})"))
        m_res = a5[i].split()[0]
        i_res = "res=" + S.show_outcome(r["getA"], ids)
        if m_res != i_res:
            pr.append(("model", f"get({r['key']!r}) of stored {S.RP(v)!r}: impl {i_res[:120]} model {m_res[:120]}"))
        i_many = "res=" + S.show_outcome(r["manyB"], ids)
        if m_res != i_many and m_stored == "stored=" + S.show_val(r["rawB"], ids):
            pr.append(("model", f"get_many({r['key']!r}) of stored {S.RP(v)!r}: impl {i_many[:120]} model {m_res[:120]}"))
        m_c = a6[i].split()[0]
        gc = r["getC"]
        i_c = "res=dflt" if (gc[0] == "value" and gc[1] is None and r["rawA"] is None) else "res=" + S.show_outcome(gc, ids)
        if m_c != i_c:
            pr.append(("model", f"get({r['key']!r}) with default None of stored {S.RP(v)!r}: impl {i_c[:120]} model {m_c[:120]}"))
        # ---- interesting states
        t = tags[ci]
        if isinstance(v, bytes) and v.isdigit():
            t.add("digit_only_bytes")
        if isinstance(v, (bytes, str)) and any(c in (v if isinstance(v, str) else v.decode("latin1")) for c in "_:"):
            t.add("separator_in_payload")
        if isinstance(v, bytes) and b"_" in v and b":" in v.split(b"_")[0]:
            t.add("bytes_look_like_signature_header")
        if isinstance(v, bool):
            t.add("bool_top_level")
        if isinstance(v, S.Boxed):
            t.add("custom_type")
            if type(v).__qualname__ != type(v).__name__:
                t.add("custom_type_nested_or_function_local")
            if b"\n" in v.payload or b"." in v.payload:
                t.add("custom_payload_with_pickle_opcodes")
        if isinstance(v, (list, tuple, set, frozenset, dict)) and len(v) == 0:
            t.add("empty_container")
        if any(c in r["key"] for c in "_:"):
            t.add("separator_in_key")
            if conf.secret:
                t.add("signed_key_with_separator")
        if r["key"].isdigit():
            t.add("digit_key")
        if pre.startswith("pre=custom:"):
            t.add("custom_decode_path")
        if pre.startswith("pre=loads:"):
            t.add("unpickle_path")
        if pre.startswith("pre=pass:"):
            t.add("passthrough_object" if not pre.startswith("pre=pass:i:") else "raw_int")
        if type(v).__name__ in ("Rec", "Point", "Pair", "Triple"):
            t.add("dataclass_or_namedtuple")
        if type(v).__name__ in ("Decimal", "date", "datetime", "timedelta", "time"):
            t.add("decimal_or_date")
        if r["rawA"] is None and v is None:
            t.add("value_is_default_none")
        if r.get("mutated"):
            t.add("mutable_value_changed_by_the_caller_after_the_write")
    sample_lines = [{"request": l5[i], "answer": a5[i]} for i in range(min(2, len(l5)))]
    return problems, tags, sample_lines


def one_case_problems(conf, pairs):
    return evaluate([(conf, pairs)], S.Ids())[0][0]


# ----------------------------------------------------------------------------------------------------
# shrinking, reporting
# ----------------------------------------------------------------------------------------------------
def children(v):
    if isinstance(v, S.Boxed) and len(v.payload) > 1:
        cls = type(v)
        n = len(v.payload)
        return [cls(v.payload[: n // 2]), cls(v.payload[n // 2:]), cls(v.payload[1:]), cls(v.payload[:-1])]
    if isinstance(v, (bytes, str)) and len(v) > 1:
        n = len(v)
        return [v[: n // 2], v[n // 2:], v[1:], v[:-1]]
    if isinstance(v, dict):
        return list(v.values()) + list(v.keys()) + [dict(list(v.items())[:-1])] if v else []
    if isinstance(v, S.Rec):
        return [v.items, v.extra, v.name]
    if isinstance(v, (list, tuple, set, frozenset)) and not hasattr(v, "_fields"):
        xs = list(v)
        return xs + ([type(v)(xs[:-1])] if xs else [])
    if isinstance(v, tuple):
        return list(v)
    return []


def shrink(conf, pairs, kind):
    def fails(ps):
        try:
            return any(k == kind for k, _ in one_case_problems(conf, ps))
        except HarnessError:
            return False

    pairs = ddmin(list(pairs), fails) if len(pairs) > 1 else list(pairs)
    changed = True
    rounds = 0
    while changed and rounds < 40:
        changed = False
        rounds += 1
        for i, (k, v) in enumerate(pairs):
            for c in children(v):
                if conf.is_json and not S.json_applicable(c):
                    continue
                trial = pairs[:i] + [(k, c)] + pairs[i + 1:]
                if fails(trial):
                    pairs = trial
                    changed = True
                    break
            if changed:
                break
    return pairs


def report(chk: Check, conf, pairs, origin):
    probs = one_case_problems(conf, pairs)
    kind = "spec" if any(k == "spec" for k, _ in probs) else "model"
    small = shrink(conf, pairs, kind)
    probs = [p for p in one_case_problems(conf, small) if p[0] == kind] or probs
    replay = {
        "config": conf_to_json(conf),
        "pairs": pairs_src(small),
        "problems": [t for _, t in probs][:6],
        "origin": origin,
        "procedure": "each value is handed to set (then to set_many) as the caller's own object, which the caller changes at the top "
                     "level right after the write (serial.mutate_top); reads are compared with an independent snapshot",
        "replay_cmd": "./check C09 --replay <this file>",
    }
    v = small[0][1] if small else None
    if kind == "spec":
        # a value containing an integer beyond the interpreter's int -> str limit that cannot be READ back: the repr check
        # of Serializer._decode (candidate defect, proposed_fixes/D58_C09_repr_check_must_not_fail_the_read.diff)
        huge = any(S.has_huge_int(x) for _, x in small) and any("ValueError" in t for _, t in probs)
        chk.violation(f"serialization does not round-trip under {conf.name()}: {probs[0][1]}"[:600], replay,
                      signature="C09:repr-check-raises-on-read" if huge else f"roundtrip:{type(v).__name__}")
    else:
        chk.violation(f"correspondence broken: cashews/serialize.py differs from model Serial but the value still round-trips "
                      f"({conf.name()}): {probs[0][1]}"[:600],
                      dict(replay, broken="correspondence Serial model <-> cashews/serialize.py"), signature=None, no_input=True)


def corpus_cases():
    for f in sorted((ROOT / "corpus" / PROP).glob("*.json")):
        c = json.loads(f.read_text())
        if "program" not in c:
            yield f.name, conf_from_json(c["config"]), pairs_eval(c["pairs"])


def corpus_programs():
    for f in sorted((ROOT / "corpus" / PROP).glob("*.json")):
        c = json.loads(f.read_text())
        if "program" in c:
            yield f.name, R.program_from_json(c["program"], NS)


def report_program(chk: Check, steps, origin):
    probs = R.evaluate_programs([steps], S.Ids(), DRIVER)[0][0]
    kind = "spec" if any(k == "spec" for k, _ in probs) else "model"
    small = R.shrink_program(steps, kind, DRIVER)
    probs = [p for p in R.evaluate_programs([small], S.Ids(), DRIVER)[0][0] if p[0] == kind] or probs
    replay = {
        "program": R.program_to_json(small),
        "problems": [t for _, t in probs][:6],
        "origin": origin,
        "replay_cmd": "./check C09 --replay <this file>",
    }
    vals = [s[3] for s in small if s[0] == "set"]
    if kind == "spec":
        chk.violation(f"serialization does not round-trip when register_type / cache construction / write / read are ordered as in "
                      f"the program: {probs[0][1]}"[:700], replay,
                      signature=f"roundtrip-registry:{type(vals[0]).__name__ if vals else '-'}")
    else:
        chk.violation(f"correspondence broken: cashews/serialize.py differs from model Serial (registry of the moment) but the "
                      f"value still round-trips: {probs[0][1]}"[:700],
                      dict(replay, broken="correspondence Serial model <-> cashews/serialize.py"), signature=None, no_input=True)


def gen_case(rng, conf: S.Conf):
    n = rng.choice([1, 1, 2, 3, 4])
    keys = rng.sample(S.KEYS, n)
    pairs = []
    for k in keys:
        r = rng.random()
        if r < 0.2:
            v = S.gen_boxed(rng)
        elif conf.is_json:
            v = S.gen_json_value(rng)
        else:
            v = S.gen_value(rng, huge=True)
        if pairs and rng.random() < 0.08:
            v = pairs[-1][1]                 # ONE object under two keys
        pairs.append((k, v))
    return pairs


# the option `check_repr` (default on): given in a settings url it must be read as a boolean like the other switches
CHECK_REPR_CASES = [("url", "false", False), ("url", "0", False), ("url", "False", False), ("url", "true", True), ("url", "1", True),
                    ("url", None, True), ("kw", False, False), ("kw", True, True)]


def check_repr_option(chk: Check) -> dict:
    """a pickled object whose repr raises AttributeError is answered with the caller's default while the repr check is on and
    comes back while it is off - for every way of switching it (settings url text, keyword), with and without a secret.
    Defect D72: `_serialize_params` did not list check_repr among the boolean options, `?check_repr=false` stayed the truthy
    text 'false' and the check could not be switched off through a url."""
    import urllib.parse

    out = {}
    for via, given, on in CHECK_REPR_CASES:
        for secret in (None, "s3cret"):
            q = {"pickle_type": "default", "check_interval": "0"}
            kw = {}
            if secret:
                q["secret"] = secret
            if via == "url" and given is not None:
                q["check_repr"] = given
            if via == "kw":
                kw["check_repr"] = given
            url = "mem://?" + urllib.parse.urlencode(q)

            async def go(url=url, kw=kw):
                cache = S.Cache()
                cache.setup(url, **kw)
                await cache.set("k", S.ReprBroken(b"x"))
                a = await S.read(cache.get("k", default=S.SENT))
                b = await S.read(cache.get_many("k", default=S.SENT))
                return a, b

            a, b = vtime.run(go)
            b = ("dflt", None) if b[0] == "value" and b[1][0] is S.SENT else (("value", b[1][0]) if b[0] == "value" else b)
            want = ("dflt", None) if on else ("value", S.ReprBroken(b"x"))
            name = f"{url} {kw or ''}".strip()
            out[name] = "default (repr check on)" if a[0] == "dflt" else ("value (repr check off)" if a[0] == "value" else str(a))
            for label, got in (("get", a), ("get_many", b)):
                if got[0] != want[0] or (want[0] == "value" and not (got[1] == want[1])):
                    chk.violation(
                        f"check_repr given as {given!r} ({via}): the repr check should be {'on' if on else 'off'}, but {label} of a pickled "
                        f"object whose repr raises AttributeError answered {got[0]}{'' if got[0] != 'raised' else ':' + str(got[1])} "
                        f"instead of {'the default' if on else 'the object'} ({url})",
                        {"url": url, "keywords": {k: v for k, v in kw.items()}, "value": "serial.ReprBroken(b'x')", "expected": want[0],
                         "observed": got[0], "how": "Cache().setup(url, **keywords); await cache.set('k', value); await cache.get('k', default=<sentinel>)"},
                        signature="D72:url-check-repr-not-boolean")
                    return out
    return out


def run(chk: Check) -> int:
    S.register_boxes()
    proof = proof_stage(PROP, "driver_c09", chk.thorough) if not getattr(chk, "skip_proof", False) else None
    found = 0
    try:
        S.check_labels(DRIVER)
    except S.LabelMismatch as exc:
        chk.violation(f"digest table of the model differs from HashSigner._digestmods: {exc}",
                      {"broken": "Digest.label table <-> HashSigner._digestmods", "model": exc.model, "code": exc.code},
                      no_input=True)
        found += 1
    check_repr_cov = check_repr_option(chk)
    found = max(found, len(chk.violations))
    confs = S.all_confs()
    # secrets that look like numbers / are given as str keywords: judged like every other configuration.  A configuration
    # that cannot store and read back at all (defect D42, repaired in /repo as c2756b4: the settings url turned such a secret
    # into an int / float, every write raised TypeError, `secret=0` built an unsigned cache) violates the property outright.
    secret_probe = {f"{c.via}:secret={c.secret!r}": c.probe() for c in S.spelled_secret_confs()}
    confs += [c for c in S.spelled_secret_confs() if c.probe() == "signed"]
    for c in S.spelled_secret_confs():
        if c.probe() != "signed":
            chk.violation(
                f"a cache configured with secret {c.secret!r} ({c.via}), digest {c.digest}, pickler {c.pickle_type} cannot store and read back "
                f"a value: set('probe', 'p') -> {c.probe()}",
                {"config": {"secret": c.secret, "via": c.via, "digest": c.digest, "pickle_type": c.pickle_type}, "probe": c.probe(),
                 "how": "Cache().setup(<settings url / keywords of the config>); await cache.set('probe', 'p'); await cache.get('probe')"},
                signature="D42:url-numeric-secret")
            found += 1
    n = chk.budget(5000, 80000)
    cases = [("corpus:" + name, conf, pairs) for name, conf, pairs in corpus_cases()]
    ncorpus = len(cases)
    for i in range(n):
        conf = confs[i % len(confs)]
        cases.append((f"gen:{i}", conf, gen_case(chk.rng, conf)))
    hyp: dict = {}
    ids = S.Ids()
    evaluations = 0
    distinct = set()
    interesting: dict = {}
    conf_hist: dict = {}
    type_hist: dict = {}
    samples = []
    path_hist: dict = {}
    CH = 400
    prog_states: dict = {}
    prog_kinds: dict = {}
    prog_distinct = set()
    prog_reads = 0

    def run_programs(programs):
        nonlocal found, evaluations, prog_reads
        PCH = 300
        for off in range(0, len(programs), PCH):
            if found >= 3:
                break
            chunk = programs[off:off + PCH]
            problems, tags, sample_lines = R.evaluate_programs([st for _, st in chunk], ids, DRIVER)
            bad = sorted((j for j, pr in enumerate(problems) if pr), key=lambda j: (not any(k == "spec" for k, _ in problems[j]), j))
            seen = set()
            for j in bad:
                kind = "spec" if any(k == "spec" for k, _ in problems[j]) else "model"
                tmpl = chunk[j][0].split(":")[1]
                if found >= 3 or (kind, tmpl) in seen:
                    continue
                seen.add((kind, tmpl))
                report_program(chk, chunk[j][1], chunk[j][0])
                found += 1
            for (origin, steps), tg in zip(chunk, tags):
                evaluations += 1
                kind = "corpus" if origin.startswith("corpus:") else origin.split(":")[1]
                prog_kinds[kind] = prog_kinds.get(kind, 0) + 1
                prog_reads += sum(1 for s in steps if s[0] == "get")
                for t in tg:
                    prog_states[t] = prog_states.get(t, 0) + 1
                if tg - {"custom_decode_path"}:
                    src = json.dumps(R.program_to_json(steps))
                    prog_distinct.add(src)
                    if sum(1 for x in samples if "program" in x) < 2 and len(src) < 700 and "after" in origin:
                        samples.append({"program": R.program_to_json(steps), "states": sorted(tg)})
            for v in [s[3] for _, st in chunk for s in st if s[0] == "set"]:
                type_hist[type(v).__name__] = type_hist.get(type(v).__name__, 0) + 1

    corpus_progs = [("corpus:" + name, steps) for name, steps in corpus_programs()]
    nprog_corpus = len(corpus_progs)
    run_programs(corpus_progs)
    for off in range(0, len(cases), CH):
        if found >= 3:
            break
        chunk = cases[off:off + CH]
        problems, tags, sample_lines = evaluate([(c, p) for _, c, p in chunk], ids)
        # report real failing inputs before mere model differences
        bad = sorted((j for j, pr in enumerate(problems) if pr), key=lambda j: (not any(k == "spec" for k, _ in problems[j]), j))
        for j in bad:
            if found >= 3:
                break
            found += 1
            report(chk, chunk[j][1], chunk[j][2], chunk[j][0])
        for (origin, conf, pairs), probs, tg in zip(chunk, problems, tags):
            evaluations += 1
            conf_hist[conf.name()] = conf_hist.get(conf.name(), 0) + 1
            for _, v in pairs:
                check_hyps(conf, v, hyp)
                type_hist[type(v).__name__] = type_hist.get(type(v).__name__, 0) + 1
            paths = {t for t in tg if t in PATH_TAGS}
            tg = tg - PATH_TAGS
            for t in paths:
                path_hist[t] = path_hist.get(t, 0) + 1
            for t in tg:
                interesting[t] = interesting.get(t, 0) + 1
            if tg:
                distinct.add((conf.name(), pairs_src(pairs)))
            if len(samples) < 3 and tg and len(pairs_src(pairs)) < 160:
                samples.append({"config": conf.name(), "pairs": pairs_src(pairs), "states": sorted(tg)})
        if not samples[-1:] or "request" not in samples[-1]:
            samples.extend(sample_lines[:1])
        if found >= 3:
            break
    # ---- registration programs: the class-level registry changes while caches exist
    run_programs(R.gen_programs(chk.rng, confs, chk.budget(400, 6000)))
    if proof is not None:
        chk.proof_broken(proof, found > 0)
    chk.coverage.update({
        "evaluations": evaluations,
        "distinct_nontrivial": len(distinct) + len(prog_distinct),
        "registration_programs": {
            "programs": sum(prog_kinds.values()), "corpus_programs": nprog_corpus, "by_kind": prog_kinds, "reads_judged": prog_reads,
            "distinct_nontrivial": len(prog_distinct), "interesting_states_programs": prog_states,
            "rule": "a program = register_type calls (harness classes, 3 codecs: box, plain, tolerant), cache constructions, set/set_many, "
                    "get/get_many/get(default None) and raw copies between two caches of one configuration, run with the class-level "
                    "registry reset to what `import cashews` leaves; six fixed orderings (registered before the cache; after it; between "
                    "two caches, each reading what the other wrote; the same name registered again with another codec after writes and "
                    "reads; another name registered between write and read; value written before its type was registered and read "
                    "after; a registered class nested in a class / local to a function; two classes with one __name__ in different "
                    "scopes registered one after the other; instances of subclasses of a registered class, with their own and with the "
                    f"parent's __name__) x each of the {len(confs)} configurations, plus random programs over two caches, three of "
                    f"{len(R.NAMES)} classes, three keys. The driver gets the classes (name + qualified name) and derives the registry keys. The model "
                    "is asked with the list of registrations made so far at each call. Non-trivial iff some read happened in one of "
                    "the states of interesting_states_programs (custom_decode_path alone does not count)",
        },
        "rule": "cases = 1..4 (key, value) pairs from VERIF_SEED: values from a recursive generator (depth <= 3) over None/bool/int/float/"
                "str/bytes/Decimal/date/datetime/time/timedelta/tuple/list/set/frozenset/dict/dataclasses/named tuples with adversarial "
                "leaves (b'123', b'md5:x_y', '_', ':', empty containers, NaN, -0.0, lone surrogate), or an instance of one of "
                f"{len(S.BOX_NAMES)} registered custom classes whose names start with pickle opcodes or of a registered class nested in a "
                f"class (Api.Session) / local to a function (LocalSample); keys from a {len(S.KEYS)}-key text alphabet; "
                f"round-robin over {len(confs)} configurations = {{pickle_type omitted,null,default,json}} x {{no secret, secret x md5,sha1,sha256,sum}} "
                "through the settings url plus keyword-argument variants; json gets JSON-native shapes, top-level bytes and custom types only. "
                "Each case is run through set/get, set_many/get_many and get with default None. Non-trivial iff at least one pair is adversarial for "
                "the framing: digit-only bytes, '_'/':' in a str/bytes payload, bytes that look like a signature header, top-level bool, "
                "empty container, custom type (in particular with newline/'.' in its payload), dataclass/named tuple, Decimal/date/duration, "
                "a stored None read with default None, or a key containing '_'/':' under a signing configuration (see "
                "interesting_states_cases; decode_path_cases counts which branch of decode was taken); distinct = distinct (configuration, pairs).",
        "samples": samples,
        "corpus_cases": ncorpus + nprog_corpus,
        "configurations": conf_hist,
        "value_type_histogram": type_hist,
        "interesting_states_cases": interesting,
        "decode_path_cases": path_hist,
        "pickler_hypotheses_sampled": hyp,
        "secret_spellings_probed": secret_probe,
        "check_repr_option": check_repr_cov,
        "trusted_base": TRUSTED,
        "partial": "P1-P3 for pickle/json are sampled, not proved; dill/sqlalchemy picklers are not installed; redis/diskcache backends "
                   "are not exercised (C09 is anchored on the in-memory backend); numeric-looking secrets in the settings url are probed and judged (defect D42, repaired as c2756b4); two classes that share a __name__ share one "
                   "registry slot (the later register_type serves both) and an instance of a subclass that keeps its registered "
                   "parent's __name__ is written through the parent's pair and read back as the parent: mirrored by the model "
                   "(same_name_classes_share_slot), no round-trip claim",
    })
    chk.assumptions.extend(TRUSTED)
    return chk.finish(proof)


def replay(chk: Check, path: str) -> int:
    S.register_boxes()
    c = json.loads(Path(path).read_text())
    if "program" in c:
        steps = R.program_from_json(c["program"], NS)
        probs = R.evaluate_programs([steps], S.Ids(), DRIVER)[0][0]
        for st in R.program_to_json(steps):
            print("  step", st)
        for kind, t in probs:
            print(f"  [{kind}] {t}")
        if not probs:
            print("replay: no disagreement")
            return 0
        print(f"VIOLATION property={PROP} replay={path}")
        return 1
    conf = conf_from_json(c["config"])
    pairs = pairs_eval(c["pairs"])
    probs = one_case_problems(conf, pairs)
    print(f"config {conf.name()}  pairs {pairs_src(pairs)}")
    for kind, t in probs:
        print(f"  [{kind}] {t}")
    if not probs:
        print("replay: no disagreement")
        return 0
    print(f"VIOLATION property={PROP} replay={path}")
    return 1
