"""C14 - early / soft / failover / hit keep their staleness and reuse bounds.

proof: lean/CashewsVerif/Props/C14.lean (invariants of the four decorator models over the ideal TTL map, by induction
       over all call histories with arbitrary gaps).
tie:   generated call histories run on the real decorators through the public `Cache` facade (`mem://`) under the
       virtual clock, background refreshes completing at scheduled points, and on the model driver; compared per call
       (a) impl == model (result, execution inside the call, refresh started, refreshes in flight, the instant the call returned) and
       (b) impl vs the sentences of the property evaluated on the observed outputs (harness/decor14.oracle).
"""
from __future__ import annotations

import json
import os
import subprocess
import sys
from pathlib import Path

from .. import decor14 as D
from .. import overlap14 as O
from ..core import ROOT, WORK, Check, Driver, HarnessError, ddmin, proof_stage

PROP = "C14"
DRIVER = Driver("driver_c14", "Drivers/C14.lean")

TRUSTED = [
    "Lean 4.33.0 kernel; axioms of every theorem audited to be within {propext, Classical.choice, Quot.sound}",
    "hand-written models lean/CashewsVerif/Model/Decor/{Early,Soft,Fail,Hit}.lean of cashews/decorators/cache/{early,soft,fail,hit}.py, "
    "written over the ideal TTL map (C01 proves the in-memory backend refines it); tied to the code by this run's history correspondence",
    "the wrapped function is a script of outcomes (success with a fresh stamped token | listed exception | unlisted exception) and of "
    "DURATIONS: a foreground execution sleeps the scripted number of ticks on the virtual loop before it returns / raises (the model's "
    "`.call o d`), background refreshes complete at explicit `done` operations; a call is atomic (nothing else touches its key while its "
    "function body runs: concurrent callers are C07); the age of what a call hands out is judged at the instant the call returns; every call "
    "is made in a task of its own: a call that executes nothing and cannot return while a recalculation of its key is in flight (early after "
    "D44) is PARKED (`joined:<id>`), later operations go on, and what it is handed is observed when that recalculation's `done` is played",
    "harness: virtual clock and patched datetime.now (harness/vtime.py), gating of background refresh tasks, canonicalisation (harness/decor14.py)",
    "overlapping-calls stage (harness/overlap14.py): every body parks on a gate, calls are tasks; which call a body belongs to is read off the "
    "order in which bodies start; failover / unprotected soft are diffed against Model/Decor/Overlap.lean, the rest is judged by the oracle only; "
    "capacity stage: oracle only (the ideal TTL map has no size limit)",
    "results of outcome `same` compare equal to the earlier result (tuple equality) but carry the ordinal of the execution that produced them "
    "(harness/decor14.Pay), which is how a served value is attributed to its store event",
    "always explicit early_ttl / soft_ttl: the default ttl*0.33 is a float product outside the model",
    "the store step after a successful execution is scripted too: cfg mode=default uses the facade's default condition (store every "
    "successful result), a plain ttl and no middleware; mode=script passes a user `condition` that turns down / raises on the results the "
    "script flags, a callable `ttl` that raises on flagged results (failover, soft) and a middleware that refuses the SET of flagged values, "
    "each with a Listed or an Unlisted exception; protected=False (single-flight is C07)",
]


def run_impl(case):
    return D.execute(case["cfg"], case["ops"])


def _impl_chunk(chunk):
    return [run_impl(c) for _, c in chunk]


def sharded(chunks, nproc, workers):
    """generator of the implementation's events per chunk, computed by `nproc` worker processes (harness/c14worker.py)"""
    WORK.mkdir(exist_ok=True)
    path = WORK / f"c14_cases_{os.getpid()}.json"
    path.write_text(json.dumps(chunks))
    try:
        for k in range(nproc):
            workers.append(subprocess.Popen([sys.executable, "-m", "harness.c14worker", str(path), str(k), str(nproc)],
                                            cwd=ROOT, stdout=subprocess.PIPE, text=True))
        for i in range(len(chunks)):
            line = workers[i % nproc].stdout.readline()
            if not line:
                raise HarnessError(f"worker {i % nproc} died before delivering chunk {i}")
            j, evs = json.loads(line)
            if j != i:
                raise HarnessError(f"worker {i % nproc} delivered chunk {j} instead of {i}")
            yield evs
    finally:
        path.unlink(missing_ok=True)


def ask_model(cases_events):
    """one driver batch for many cases; returns per case a list (aligned with ops) of model answers per event
    (None for events of other arguments' blocks are filled from their own block)"""
    lines = []
    plan = []
    for case, events in cases_events:
        blocks = D.model_block(case["cfg"], case["ops"], events)
        for arg, blines, idx in blocks:
            plan.append((len(lines), len(blines), idx))
            lines.extend(blines)
        plan.append(None)
    answers = DRIVER.ask(lines) if lines else []
    out = []
    cur = {}
    ci = 0
    for p in plan:
        if p is None:
            case, events = cases_events[ci]
            out.append([cur.get(i, "model=ok" if case["ops"][i].startswith("adv") else None)
                        for i in range(len(case["ops"]))])
            cur = {}
            ci += 1
            continue
        start, n, idx = p
        if answers[start] != "ok":
            raise HarnessError(f"driver rejected the case line: {lines[start]!r} -> {answers[start]!r}")
        for j, opi in enumerate(idx):
            a = answers[start + 1 + j]
            if lines[start + 1 + j].startswith("adv"):
                # an adv belongs to every argument's block; all blocks must say ok
                if not a.startswith("model=ok"):
                    raise HarnessError(f"driver answered {a!r} to an adv line")
                if opi is not None:          # None: the time another argument's function body took
                    cur[opi] = "model=ok"
            else:
                cur[opi] = a
    return out


def diff_model(events, answers):
    """first op index where the implementation's observation differs from the model's answer"""
    for i, (ev, ans) in enumerate(zip(events, answers)):
        if ans is None:
            return i
        iv = "ok" if ev["kind"] == "adv" else D.impl_view(ev)
        if iv != D.model_view(ev, ans):
            return i
    return None


def judge(case):
    """run one case everywhere; returns (events, answers, problems, interesting, first model diff)"""
    events = run_impl(case)
    answers = ask_model([(case, events)])[0]
    problems, seen = D.oracle(case["cfg"], events)
    return events, answers, problems, seen, diff_model(events, answers)


def replay_dict(case, events, answers, origin, extra=None):
    d = {
        "cfg": case["cfg"],
        "ops": case["ops"],
        "trace": [{"op": e["op"], "t": e["t"], "impl": e["impl"], "model": a} for e, a in zip(events, answers)],
        "origin": origin,
        "replay_cmd": "./check C14 --replay <this file>",
    }
    if extra:
        d.update(extra)
    return d


def merge_advs(ops):
    out = []
    for l in ops:
        if l.startswith("adv") and out and out[-1].startswith("adv"):
            out[-1] = "adv %d" % (int(out[-1].split()[1]) + int(l.split()[1]))
        else:
            out.append(l)
    return out


def drop_durations(ops, fails):
    """after ddmin: take the duration off every call that does not need one for the failure"""
    ops = list(ops)
    for i, l in enumerate(ops):
        w = l.split()
        if w[0] == "call" and len(w) == 4:
            for shorter in (" ".join(w[:3]), " ".join(w[:3] + ["1"])):
                if shorter != l and fails(ops[:i] + [shorter] + ops[i + 1:]):
                    ops[i] = shorter
                    break
    return ops


def shrink_problem(case, sig):
    def fails(ops):
        try:
            ev = D.execute(case["cfg"], ops)
        except HarnessError:
            return False
        pr, _ = D.oracle(case["cfg"], ev)
        return any(s == sig for _, s, _ in pr)
    small = drop_durations(ddmin(case["ops"], fails), fails)
    merged = merge_advs(small)
    return {"cfg": case["cfg"], "ops": merged if fails(merged) else small}


def shrink_diff(case):
    def fails(ops):
        c = {"cfg": case["cfg"], "ops": ops}
        try:
            ev = run_impl(c)
        except HarnessError:
            return False
        return diff_model(ev, ask_model([(c, ev)])[0]) is not None
    small = drop_durations(ddmin(case["ops"], fails), fails)
    merged = merge_advs(small)
    return {"cfg": case["cfg"], "ops": merged if fails(merged) else small}


def report_problem(chk: Check, case, sig, origin):
    small = shrink_problem(case, sig)
    events, answers, problems, _, dm = judge(small)
    hit = [(i, s, txt) for i, s, txt in problems if s == sig]
    if not hit:          # shrinking lost it (should not happen): fall back to the original case
        small = case
        events, answers, problems, _, dm = judge(small)
        hit = [(i, s, txt) for i, s, txt in problems if s == sig]
    i, s, txt = hit[0]
    chk.violation(
        f"{small['cfg']['decor']}: {txt} — at op {i} `{events[i]['op']}` (t={events[i]['t']}) of {small['ops']}",
        replay_dict(small, events, answers, origin, {"problem_at": i, "first_diff_vs_model": dm}),
        signature=s)


def report_diff(chk: Check, case, origin):
    small = shrink_diff(case)
    events, answers, problems, _, dm = judge(small)
    if dm is None:
        small = case
        events, answers, problems, _, dm = judge(small)
    chk.violation(
        f"correspondence broken: cashews/decorators/cache/{small['cfg']['decor']}.py differs from its model at op {dm} "
        f"`{events[dm]['op']}`: impl `{events[dm]['impl']}` vs `{answers[dm]}`; the property's sentences hold on this case",
        replay_dict(small, events, answers, origin,
                    {"first_diff_vs_model": dm, "broken": f"correspondence model Decor/{small['cfg']['decor']} <-> code"}),
        signature=None, no_input=True)


def corpus_cases():
    d = ROOT / "corpus" / PROP
    for f in sorted(d.glob("*.json")):
        c = json.loads(f.read_text())
        if c.get("stage") is None:
            yield f.name, {"cfg": c["cfg"], "ops": c["ops"]}


def staged_corpus(stage):
    d = ROOT / "corpus" / PROP
    return [("corpus:" + f.name, {"cfg": c["cfg"], "ops": c["ops"]}) for f in sorted(d.glob("*.json"))
            for c in [json.loads(f.read_text())] if c.get("stage") == stage]


# ---- overlapping calls (harness/overlap14.py) ----------------------------------------------------------------------

def judge_overlap(case):
    """run one overlapping-calls case: (run, impl views, model views or None, problems, interesting, first diff)"""
    run_ = O.execute(case["cfg"], case["ops"])
    problems, seen = O.oracle(case["cfg"], run_)
    iv = O.impl_views(case["cfg"], run_)
    mv, dm = None, None
    if O.modelled(case["cfg"]):
        ans = DRIVER.ask(O.model_lines(case["cfg"], case["ops"]))
        if ans[0] != "ok":
            raise HarnessError(f"driver rejected the overlap case line: {ans[0]!r}")
        mv = [O.model_view(a) for a in ans[1:]]
        dm = next((i for i, (a, b) in enumerate(zip(iv, mv)) if a != b), None)
    return run_, iv, mv, problems, seen, dm


def overlap_replay_dict(case, origin, extra=None):
    run_, iv, mv, problems, seen, dm = judge_overlap(case)
    d = {"stage": "overlap", "cfg": case["cfg"], "ops": case["ops"], "origin": origin,
         "trace": [{"op": e["op"], "t": e["t"], "impl": v, "model": (mv[i] if mv else None)} for i, (e, v) in enumerate(zip(run_["events"], iv))],
         "calls": run_["calls"], "first_diff_vs_model": dm, "replay_cmd": "./check C14 --replay <this file>"}
    if extra:
        d.update(extra)
    return d, problems, dm, iv, mv


def overlap_stage(chk: Check, stats):
    cases = staged_corpus("overlap") + [(f"overlap:{i}", c) for i, c in enumerate(O.overlap_cases(chk.thorough))]
    reported, diff_pending = set(), []
    CH = 250
    for c0 in range(0, len(cases), CH):
        chunk = cases[c0:c0 + CH]
        runs = [O.execute(c["cfg"], c["ops"]) for _, c in chunk]
        lines, spans = [], []
        for (_, c), r in zip(chunk, runs):
            if O.modelled(c["cfg"]):
                ml = O.model_lines(c["cfg"], c["ops"])
                spans.append((len(lines), len(ml)))
                lines.extend(ml)
            else:
                spans.append(None)
        answers = DRIVER.ask(lines) if lines else []
        for (origin, c), r, sp in zip(chunk, runs, spans):
            stats["evaluations"] += 1
            d = c["cfg"]["decor"]
            problems, seen = O.oracle(c["cfg"], r)
            key = f"{d}{'+protected' if c['cfg'].get('protected') else ''}"
            stats["per"][key] = stats["per"].get(key, 0) + 1
            for s_ in seen:
                stats["interesting"][f"overlap.{d}.{s_}"] = stats["interesting"].get(f"overlap.{d}.{s_}", 0) + 1
            if seen:
                stats["nontrivial"] += 1
            for sig in sorted({s_ for _, s_, _ in problems}):
                if (d, sig) in reported:
                    continue
                reported.add((d, sig))

                def fails(ops, c=c, sig=sig):
                    try:
                        pr, _ = O.oracle(c["cfg"], O.execute(c["cfg"], ops))
                    except HarnessError:
                        return False
                    return any(s2 == sig for _, s2, _ in pr)
                small = {"cfg": c["cfg"], "ops": ddmin(c["ops"], fails)}
                rd, pr, dm, iv, mv = overlap_replay_dict(small, origin)
                hit = [x for x in pr if x[1] == sig] or [(0, sig, "lost while shrinking")]
                prot = " protected=True" if c["cfg"].get("protected") else (" protected=False" if d in ("soft", "early") else "")
                chk.violation(f"{d}{prot}, overlapping calls: {hit[0][2]} — at op {hit[0][0]} of {small['ops']}", rd, signature=sig)
                stats["found_real"] += 1
            if sp is not None and not problems:
                a0, n = sp
                if answers[a0] != "ok":
                    raise HarnessError(f"driver rejected the overlap case line {lines[a0]!r}: {answers[a0]!r}")
                mv = [O.model_view(a) for a in answers[a0 + 1:a0 + n]]
                if mv != O.impl_views(c["cfg"], r):
                    stats["diffs"] += 1
                    if not any(x[1]["cfg"]["decor"] == d for x in diff_pending):
                        diff_pending.append((origin, c))
    for origin, c in diff_pending:
        if any(dd == c["cfg"]["decor"] for dd, _ in reported):
            continue

        def fails(ops, c=c):
            try:
                return judge_overlap({"cfg": c["cfg"], "ops": ops})[5] is not None
            except HarnessError:
                return False
        small = {"cfg": c["cfg"], "ops": ddmin(c["ops"], fails)}
        rd, pr, dm, iv, mv = overlap_replay_dict(small, origin, {"broken": "correspondence model Decor/Overlap <-> code"})
        if dm is None:
            continue
        chk.violation(f"correspondence broken (overlapping calls): cashews/decorators/cache/{c['cfg']['decor']}.py differs from "
                      f"Model/Decor/Overlap.lean at op {dm} `{small['ops'][dm]}`: impl `{iv[dm]}` vs model `{mv[dm]}` in {small['ops']}; "
                      f"the property's sentences hold on this case", rd, signature=None, no_input=True)
    return len(cases)


# ---- hit on a store at capacity ------------------------------------------------------------------------------------

CAP_SIGS = ("hit-too-many-serves", "unexpected-result")


def capacity_problems(case):
    ev = D.execute(case["cfg"], case["ops"])
    pr, _ = D.oracle(case["cfg"], ev)
    return ev, [p for p in pr if p[1] in CAP_SIGS]


def capacity_stage(chk: Check, stats):
    cases = staged_corpus("capacity") + [(f"capacity:{i}", c) for i, c in enumerate(O.capacity_cases(chk.rng, chk.thorough))]
    reported = set()
    for origin, c in cases:
        ev, problems = capacity_problems(c)
        stats["evaluations"] += 1
        stats["per"]["hit@capacity"] = stats["per"].get("hit@capacity", 0) + 1
        served = [e for e in ev if e["kind"] == "call" and e["res"].startswith("stored")]
        executed = sum(1 for e in ev if e["kind"] == "call" and e["x"])
        if served and executed > 1:
            stats["nontrivial"] += 1
            stats["interesting"]["capacity.hit.served_and_reexecuted_on_a_full_store"] = \
                stats["interesting"].get("capacity.hit.served_and_reexecuted_on_a_full_store", 0) + 1
        for sig in sorted({s_ for _, s_, _ in problems}):
            if sig in reported:
                continue
            reported.add(sig)

            def fails(ops, c=c, sig=sig):
                try:
                    return any(p[1] == sig for p in capacity_problems({"cfg": c["cfg"], "ops": ops})[1])
                except HarnessError:
                    return False
            small = {"cfg": c["cfg"], "ops": ddmin(c["ops"], fails)}
            ev2, pr2 = capacity_problems(small)
            hit = [x for x in pr2 if x[1] == sig] or [(0, sig, "lost while shrinking")]
            chk.violation(f"hit on a store at capacity ({O.CAP_STORES[small['cfg']['store']]}): {hit[0][2]} — at op {hit[0][0]} of "
                          f"{small['ops']} (answers {[e['impl'].split()[0] for e in ev2]})",
                          {"stage": "capacity", "cfg": small["cfg"], "ops": small["ops"], "origin": origin,
                           "trace": [{"op": e["op"], "t": e["t"], "impl": e["impl"]} for e in ev2],
                           "replay_cmd": "./check C14 --replay <this file>"}, signature=sig)
            stats["found_real"] += 1
    return len(cases)


def exhaustive_cases():
    """every parameter combination of the property's grids with a fixed boundary-walking history"""
    out = []
    for ttl in D.TTLS:
        for inner in D.INNERS:
            for d in ("early", "soft"):
                for bg in ((0, 1) if d == "early" else (0,)):
                    for o in ("ok", "lis", "unl"):
                        cfg = {"decor": d, "ttl": ttl, "inner": inner, "hits": 0, "upd": 0, "bg": bg, "store": "plain"}
                        ops = ["call a ok", f"adv {inner - 1}", f"call a {o}", "adv 1", f"call a {o}", "adv 1", f"call a {o}"]
                        if bg:
                            ops += ["call a ok", f"adv {inner}", "call a ok", f"done a 0 {o}", "call a ok", f"done a 0 {o}"]
                        ops += [f"adv {max(ttl - inner - 3, 0)}", f"call a {o}", "adv 1", f"call a {o}", "adv 1", f"call a {o}"]
                        out.append({"cfg": cfg, "ops": ops})
        for o in ("ok", "lis", "unl"):
            cfg = {"decor": "fail", "ttl": ttl, "inner": 0, "hits": 0, "upd": 0, "bg": 0, "store": "plain"}
            ops = [f"call a {o}", "call a ok", f"adv {ttl - 1}", f"call a {o}", "adv 1", f"call a {o}", "adv 1", f"call a {o}"]
            out.append({"cfg": cfg, "ops": ops})
        for hits in D.HITS:
            for upd in D.UPDS:
                for bg in (0, 1):
                    for o in ("ok", "lis"):
                        cfg = {"decor": "hit", "ttl": ttl, "inner": 0, "hits": hits, "upd": upd, "bg": bg, "store": "plain"}
                        ops = ["call a ok"] + [f"call a {o}"] * (hits + 2)
                        if bg:
                            ops += [f"done a 0 {o}", "call a ok", "call a ok", "done a 0 ok"]
                        ops += ["call a ok", f"adv {ttl - 1}", f"call a {o}", "adv 1", f"call a {o}", "call a ok"]
                        out.append({"cfg": cfg, "ops": ops})
    out += callable_ttl_grid()
    out += store_step_grid()
    out += duration_grid()
    out += recalculation_grid()
    out += fine_grid()
    return out


def callable_ttl_grid():
    """hit and dynamic (= hit(cache_hits=3, update_after=1)) with the ttl given as a CALLABLE returning the same number (with and
    without a `result` parameter): every parameter combination with the boundary-walking history; the model is the same"""
    out = []
    for ttl in D.TTLS:
        for cttl in (1, 2):
            for hits in D.HITS:
                for upd in D.UPDS:
                    for bg in (0, 1):
                        cfg = {"decor": "hit", "ttl": ttl, "inner": 0, "hits": hits, "upd": upd, "bg": bg, "store": "plain", "cttl": cttl}
                        ops = ["call a ok"] + ["call a lis"] * (hits + 1)
                        if bg:
                            ops += ["done a 0 ok"]
                        ops += ["call a ok", "adv 5", "call a lis", f"adv {ttl - 6}", "call a lis", "adv 1", "call a lis", "call a ok"]
                        out.append({"cfg": cfg, "ops": ops})
        for cttl in (0, 1, 2):
            cfg = {"decor": "hit", "ttl": ttl, "inner": 0, "hits": 3, "upd": 1, "bg": 1, "store": "plain", "via": "dynamic"}
            if cttl:
                cfg["cttl"] = cttl
            for o in ("ok", "lis"):
                ops = ["call a ok", "call a lis", f"done a 0 {o}", "call a lis", "call a lis", "call a lis", "call a lis", f"done a 0 {o}",
                       f"adv {ttl - 1}", "call a lis", "adv 1", "call a lis"]
                out.append({"cfg": cfg, "ops": ops})
    return out


def fine_grid():
    """(1) hit, every parameter combination x every SUB-SECOND offset k/8 s (k = 1..7) of the first hit after the store: the value
    is used up, then calls in each of the last four ticks before the hard ttl and at it (a counter that dies even a fraction of
    a second before its value would hand the used-up value out again); (2) every strategy: successful executions that return a
    result EQUAL to the stored one (`same`) at ttl-1 after the previous one, then a listed failure later than ttl after the
    FIRST of them but within ttl of the LAST (the confirmed result must still be there), then beyond"""
    out = []
    for ttl in D.TTLS:
        for hits in D.HITS:
            for upd in D.UPDS:
                for bg in (0, 1):
                    cfg = {"decor": "hit", "ttl": ttl, "inner": 0, "hits": hits, "upd": upd, "bg": bg, "store": "plain"}
                    for k in range(1, 8):
                        ops = ["call a ok", f"adv {k}"] + ["call a lis"] * hits
                        ops += [f"adv {ttl - k - 4}"] + ["call a lis", "adv 1"] * 4 + ["call a ok", "call a lis"]
                        out.append({"cfg": cfg, "ops": ops})
        for d in ("fail", "soft", "early", "hit"):
            if d in ("soft", "early"):
                variants = [(inner, 0, 0, bg) for inner in D.INNERS for bg in ((0, 1) if d == "early" else (0,))]
            elif d == "hit":
                variants = [(0, hits, 0, 0) for hits in (1, 3)]
            else:
                variants = [(0, 0, 0, 0)]
            for inner, hits, upd, bg in variants:
                cfg = {"decor": d, "ttl": ttl, "inner": inner, "hits": hits, "upd": upd, "bg": bg, "store": "plain"}
                for n in (1, 2):
                    ops = ["call a ok"]
                    for _ in range(n):
                        ops += [f"adv {ttl - 1}", "call a same"]
                        if bg:
                            ops += ["done a 0 same"]
                    ops += [f"adv {ttl - 1}", "call a lis", "adv 1", "call a lis", "call a same", "adv 3", "call a lis"]
                    out.append({"cfg": cfg, "ops": ops})
    return out


def recalculation_grid():
    """early, background on, every (ttl, early_ttl) x outcome of the recalculation: a recalculation that outlives its lock key
    (a stale hit after it must start nothing) and the stored result (cold misses meanwhile execute nothing, are parked on it and
    answered when it completes — two of them, one with a duration of its own that must be ignored), then the calls after it"""
    out = []
    for ttl in D.TTLS:
        for inner in D.INNERS:
            for store in ("plain", "purge"):
                cfg = {"decor": "early", "ttl": ttl, "inner": inner, "hits": 0, "upd": 0, "bg": 1, "store": store}
                for o in ("ok", "lis", "unl"):
                    ops = ["call a ok", f"adv {inner + 1}", "call a ok", f"adv {inner}", "call a lis", f"adv {max(ttl - 2 * inner - 1, 0)}",
                           "call a lis 2", "adv 1", "call a ok 3", "call b ok 1", "adv 1", f"done a 0 {o}", "call a lis", "call a ok 1",
                           f"adv {inner + 1}", "call a lis", f"adv {ttl}", "call a lis 1", f"done a 0 {o}", "call a ok"]
                    out.append({"cfg": cfg, "ops": ops})
    for ttl in D.TTLS:
        for f in D.SCRIPT_EXTRA["early"]:
            cfg = {"decor": "early", "ttl": ttl, "inner": 4, "hits": 0, "upd": 0, "bg": 1, "store": "plain", "mode": "script"}
            ops = ["call a ok", "adv 5", "call a ok", f"adv {ttl}", f"call a {f}", "call a lis", f"done a 0 {f}", "call a lis", "call a ok"]
            out.append({"cfg": cfg, "ops": ops})
    return out


def duration_grid():
    """executions that TAKE TIME, for every strategy x parameter combination x outcome: a slow first execution (the
    deadlines count from its completion), then for each boundary B (inner ttl, hard ttl) a call that begins just below B
    and whose function body ends just beyond / exactly at B, a body that outlasts the early lock / the inner ttl, and
    probes just below / at the inner ttl counted from the completion (not the start) of the slow execution"""
    out = []
    for ttl in D.TTLS:
        for d in ("fail", "soft", "early", "hit"):
            if d in ("soft", "early"):
                variants = [(inner, 0, 0, bg) for inner in D.INNERS for bg in ((0, 1) if d == "early" else (0,))]
            elif d == "hit":
                variants = [(0, hits, upd, bg) for hits in (1, 2) for upd in (0, 1, 2) for bg in (0, 1)]
            else:
                variants = [(0, 0, 0, 0)]
            for inner, hits, upd, bg in variants:
                cfg = {"decor": d, "ttl": ttl, "inner": inner, "hits": hits, "upd": upd, "bg": bg, "store": "plain"}
                for o in ("ok", "lis", "unl"):
                    for B in ((inner, ttl) if inner else (ttl,)):
                        # begins at age B-1, ends at age B+1 | begins at B-2, ends exactly at B | begins at B-1, ends at B
                        for gap, dur in ((B - 1, 2), (B - 2, 2), (B - 1, 1)):
                            if gap < 0:
                                continue
                            ops = ["call a ok 3", f"adv {gap}", f"call a {o} {dur}", f"call a {o}", "call a lis", "call a ok 1",
                                   f"adv {B - 1}", "call a lis", "adv 1", f"call a {o} 1"]
                            if bg:
                                ops += ["done a 0 ok", "call a lis"]
                            out.append({"cfg": cfg, "ops": ops})
                    if inner:
                        # a body that outlasts the inner ttl (= the lifetime of the early lock) started by a call on a stale result
                        ops = ["call a ok 2", f"adv {inner + 1}", f"call a {o} {inner + 1}", f"call a {o}", "adv 1", "call a lis 1"]
                        if bg:
                            ops += ["done a 0 ok", "call a lis"]
                        out.append({"cfg": cfg, "ops": ops})
                        # inner deadline from completion: the body takes `inner` ticks; probes at completion + inner-1 / inner / inner+1
                        ops = [f"call a ok {inner}", f"adv {inner - 1}", "call a lis", "adv 1", "call a lis", "adv 1", f"call a {o} 1"]
                        out.append({"cfg": cfg, "ops": ops})
    return out


def store_step_grid():
    """mode script: for every strategy, parameter combination and every way the store step can fail (condition / callable ttl /
    backend.set x listed / unlisted) or turn the result down: the failure with nothing stored, with a young, a stale and an
    expired stored result, each followed by a listed failure of the function (is the older result still what is stored?) and
    by a success"""
    out = []
    for ttl in D.TTLS:
        for d in ("fail", "soft", "early", "hit"):
            for f in D.SCRIPT_EXTRA[d]:
                if d in ("soft", "early"):
                    variants = [(inner, 0, 0, bg) for inner in D.INNERS for bg in ((0, 1) if d == "early" else (0,))]
                elif d == "hit":
                    variants = [(0, hits, upd, bg) for hits in (1, 2) for upd in (0, 1, 2) for bg in (0, 1)]
                else:
                    variants = [(0, 0, 0, 0)]
                for inner, hits, upd, bg in variants:
                    cfg = {"decor": d, "ttl": ttl, "inner": inner, "hits": hits, "upd": upd, "bg": bg, "store": "plain",
                           "mode": "script"}
                    young = max(inner - 1, 1) if inner else 1
                    stale = (inner + 1) if inner else ttl // 2
                    ops = [f"call a {f}", "call a ok", f"adv {young}", f"call a {f}", "call a lis",
                           f"adv {stale}", f"call a {f}", "call a lis", f"call a {f}"]
                    if bg:
                        ops += [f"done a 0 {f}", "call a lis", f"call a {f}", "done a 0 ok", f"done a 0 {f}"]
                    ops += ["call a ok", "call a ok", f"call a {f}", "call a lis", "call a ok",
                            f"adv {ttl}", f"call a {f}", "call a lis", "call a ok", f"call a {f}"]
                    out.append({"cfg": cfg, "ops": ops})
    return out


def run(chk: Check) -> int:
    proof = proof_stage(PROP, "driver_c14", chk.thorough) if not getattr(chk, "skip_proof", False) else None
    n = chk.budget(5000, 260000)
    enum_len = chk.budget(4, 6)
    cases = [("corpus:" + name, c) for name, c in corpus_cases()]
    ncorpus = len(cases)
    grid = exhaustive_cases()
    cases += [(f"grid:{i}", c) for i, c in enumerate(grid)]
    enum_sizes = {}
    for cfg, alphabet in D.ENUM:
        hs = D.enumerate_histories(alphabet, enum_len)
        enum_sizes[f"{cfg['decor']} bg={cfg['bg']} hits={cfg['hits']} upd={cfg['upd']}: |alphabet|={len(alphabet)}"] = len(hs)
        cases += [(f"enum:{cfg['decor']}:{i}", {"cfg": cfg, "ops": h}) for i, h in enumerate(hs)]
    enum_len_s = chk.budget(4, 5)
    for cfg, alphabet in D.ENUM_SCRIPT:
        hs = D.enumerate_histories(alphabet, enum_len_s)
        enum_sizes[f"{cfg['decor']} bg={cfg['bg']} hits={cfg['hits']} upd={cfg['upd']} mode=script (1..{enum_len_s} ops): "
                   f"|alphabet|={len(alphabet)}"] = len(hs)
        cases += [(f"enum-script:{cfg['decor']}:{i}", {"cfg": cfg, "ops": h}) for i, h in enumerate(hs)]
    enum_len_d = chk.budget(4, 5)
    for cfg, alphabet in D.ENUM_DUR:
        hs = D.enumerate_histories(alphabet, enum_len_d)
        enum_sizes[f"{cfg['decor']} bg={cfg['bg']} hits={cfg['hits']} upd={cfg['upd']} mode={cfg.get('mode', 'default')} executions "
                   f"with durations (1..{enum_len_d} ops): |alphabet|={len(alphabet)}"] = len(hs)
        cases += [(f"enum-dur:{cfg['decor']}:{i}", {"cfg": cfg, "ops": h}) for i, h in enumerate(hs)]
    enum_len_f = chk.budget(5, 6)
    for cfg, alphabet in D.ENUM_FINE:
        hs = D.enumerate_histories(alphabet, enum_len_f)
        enum_sizes[f"{cfg['decor']} bg={cfg['bg']} hits={cfg['hits']} upd={cfg['upd']} sub-second steps / equal results (1..{enum_len_f} ops): "
                   f"|alphabet|={len(alphabet)}"] = len(hs)
        cases += [(f"enum-fine:{cfg['decor']}:{i}", {"cfg": cfg, "ops": h}) for i, h in enumerate(hs)]
    enum_len_j = chk.budget(6, 7)
    for cfg, alphabet in D.ENUM_JOIN:
        hs = D.enumerate_histories(alphabet, enum_len_j)
        enum_sizes[f"{cfg['decor']} bg={cfg['bg']} one recalculation at a time (1..{enum_len_j} ops): |alphabet|={len(alphabet)}"] = len(hs)
        cases += [(f"enum-join:{i}", {"cfg": cfg, "ops": h}) for i, h in enumerate(hs)]
    decors = ["early", "soft", "fail", "hit", "early", "hit"]
    for i in range(n):
        cfg = D.gen_cfg(chk.rng, decors[i % len(decors)])
        cases.append((f"gen:{i}", {"cfg": cfg, "ops": D.gen_ops(chk.rng, cfg, 14 if i % 4 else 30)}))

    evaluations = 0
    distinct = set()
    interesting: dict[str, int] = {}
    per_decor: dict[str, int] = {}
    op_hist: dict[str, int] = {}
    samples = []
    seen_sigs = set()
    real_decors = set()
    diffs = 0
    found_real = 0
    pending_diff = []
    CH = 400
    chunks = [cases[c0:c0 + CH] for c0 in range(0, len(cases), CH)]
    workers = []
    if chk.thorough:
        # the implementation runs are independent and deterministic: shard them over a few worker processes
        impl_runs = sharded(chunks, 4, workers)
    else:
        impl_runs = map(_impl_chunk, chunks)
    for chunk, evs in zip(chunks, impl_runs):
        answers = ask_model([(c, e) for (_, c), e in zip(chunk, evs)])
        for (origin, case), events, ans in zip(chunk, evs, answers):
            evaluations += 1
            d = case["cfg"]["decor"]
            per_decor[d] = per_decor.get(d, 0) + 1
            for e in events:
                k = e["kind"] + (":" + e["outcome"] if e["kind"] != "adv" else "")
                op_hist[k] = op_hist.get(k, 0) + 1
            problems, seen = D.oracle(case["cfg"], events)
            for s in seen:
                key = f"{d}.{s}"
                interesting[key] = interesting.get(key, 0) + 1
            if seen:
                distinct.add(json.dumps(case, sort_keys=True))
                if len(samples) < 4 and len(case["ops"]) <= 10 and not any(s["cfg"]["decor"] == d for s in samples):
                    samples.append({"cfg": case["cfg"], "ops": case["ops"], "impl": [e["impl"] for e in events],
                                    "interesting": sorted(seen)})
            for sig in sorted({s for _, s, _ in problems}):
                if (d, sig) in seen_sigs:
                    continue
                seen_sigs.add((d, sig))
                before = len(chk.violations)
                report_problem(chk, case, sig, origin)
                found_real += len(chk.violations) - before
                if len(chk.violations) > before:
                    real_decors.add(d)
            dm = diff_model(events, ans)
            if dm is not None and not problems:
                diffs += 1
                if len(pending_diff) < 2 and not any(p[1]["cfg"]["decor"] == d for p in pending_diff):
                    pending_diff.append((origin, case))
        if found_real >= 4:
            break
    for w in workers:
        w.kill()
        w.wait()
    for origin, case in pending_diff:
        if case["cfg"]["decor"] not in real_decors:      # a genuine violation of the same decorator says it all
            report_diff(chk, case, origin)
    stage = {"evaluations": 0, "nontrivial": 0, "per": {}, "interesting": {}, "found_real": 0, "diffs": 0}
    n_overlap = overlap_stage(chk, stage)
    n_capacity = capacity_stage(chk, stage)
    found_real += stage["found_real"]
    diffs += stage["diffs"]
    interesting.update(stage["interesting"])
    per_decor.update({"stage:" + k: v for k, v in stage["per"].items()})
    if proof is not None:
        chk.proof_broken(proof, found_real > 0)
    chk.coverage.update({
        "evaluations": evaluations + stage["evaluations"],
        "distinct_nontrivial": len(distinct) + stage["nontrivial"],
        "overlapping_calls_cases": n_overlap,
        "capacity_cases": n_capacity,
        "stages_note": "overlapping calls: a stored result aged young / stale / one or two ticks before its ttl / expired, then EVERY interleaving of "
                       "two calls (begin / finish of their function bodies) x outcomes ok/listed x time steps between the steps, and every interleaving "
                       "of three calls, for failover, soft (single-flight protection off and on), early (background on/off, protection off/on) and hit; "
                       "judged by the property's sentences (failover: the function is executed for every call and a stored result is returned only after a "
                       "listed exception of the call's OWN execution; soft / early: nothing older than ttl is handed out, a stale result only after a listed "
                       "failure), failover and unprotected soft also diffed against Model/Decor/Overlap.lean. capacity: hit on `mem://?size=3..5` with filler "
                       "keys set / deleted between the calls (every history of 1..6 ops over a 4-letter alphabet for size 3, cache_hits 1, plus sampled ones), "
                       "judged by 'served at most cache_hits times before the function is executed again'",
        "rule": "call histories (1..30 ops: call with scripted outcome ok/listed/unlisted or `same` (a successful execution that returns a result "
                "EQUAL to its latest successful one; every success is a store event of its own for the model), time steps also at SUB-SECOND offsets "
                "(2..7 ticks of 1/8 s after a store, the last three ticks before the hard ttl), hit / dynamic also with the ttl given as a callable, about a third of the calls with a DURATION for their "
                "function body — it sleeps that long on the virtual loop before returning / raising; aimed so that the execution ends just "
                "below / exactly at / just beyond the inner and the hard TTL of the stored result, or outlasts the early lock — and, for the half of the configurations with "
                "mode=script (user condition, callable ttl for failover/soft, SET-refusing middleware) — rej (the condition turns the result "
                "down) and cL/cU/tL/tU/sL/sU (the function returns, then the condition / the callable ttl / backend.set raises a Listed / "
                "Unlisted exception); adv; done of a background refresh with any of these outcomes; one or two "
                "argument values) generated from VERIF_SEED over the grids ttl∈{2,10}s, early/soft∈{½,1,4}s, cache_hits∈{1,2,3}, "
                "update_after∈{0,1,2}, background on/off, store set-up plain/purge-task/pickle; gaps aimed below / exactly at / between / "
                "exactly at / beyond the inner and hard TTL measured from the latest store; preceded by the corpus and by a fixed "
                "boundary-walking history for EVERY parameter combination of the grids, instantaneous and with executions that take time "
                "(grid_cases, enumerated completely). The age of what a call hands out is judged at the instant the call RETURNS. A case is "
                "non-trivial iff it reached at least one interesting state (interesting_states_cases lists them with the number of cases: "
                "call exactly at an inner/hard TTL, an execution that took time / straddled the ttl of the stored result / outlasted the inner ttl or the "
                "early lock, a listed failure after the result expired DURING the execution, a stale value served after a slow failure that ended "
                "inside ttl, a result young only because its deadlines count from the completion of a slow execution, a foreground refresh that "
                "straddles the ttl (fresh result served), a cold miss parked on the recalculation in flight and answered fresh / with its exception "
                "at the `done`, several callers parked on one recalculation, a stale hit after the recalculation outlived its lock key (starts "
                "nothing), refresh started / in flight during a call / finishing after a later call / outliving "
                "its lock, failing foreground or background refresh, stale value served on a listed exception, listed failure after hard "
                "expiry, last allowed hit, execution after cache_hits serves, refresh at update_after, a store step failing (by stage and by "
                "exception class) with and without an older result stored, in a foreground / background refresh, a turned-down result and the "
                "execution after it, a refused SET that deleted the hit counter while the older result stayed, ...); distinct = distinct (cfg, ops)",
        "samples": samples,
        "corpus_cases": ncorpus,
        "grid_cases": len(grid),
        "exhaustive": True,
        "exhaustive_note": f"enumerated completely: (1) every history of 1..{enum_len} operations (starting with a call) over a boundary alphabet "
                           "(calls ok/listed[/unlisted], gaps reaching ages exactly at / between / beyond the inner and hard TTL, completion of the "
                           f"oldest refresh ok/listed) for six fixed configurations, every history of 1..{enum_len_d} operations over eight alphabets whose calls carry "
                           "DURATIONS (a function body of 1, 2 or 5 ticks started just below the inner / hard TTL so that it ends at / beyond it; default and script mode), "
                           f"and every history of 1..{enum_len_s} operations over six mode=script alphabets (calls whose "
                           "store step fails in the condition / callable ttl / SET, listed and unlisted, turned-down results, listed failures, gaps, "
                           "completions of a background refresh with those outcomes) (enumerated_histories gives the sizes); (2) every parameter "
                           "combination of the property's grids with a fixed boundary-walking history, and every strategy x parameter combination x way "
                           "the store step can fail (3 stages x listed/unlisted, or turned down) with nothing / a young / a stale / an expired result "
                           "stored, and every strategy x parameter combination x outcome x boundary with a slow first execution and a call whose function "
                           "body begins just below the boundary and ends exactly at / just beyond it (grid_cases). Longer histories and the other "
                           "configurations are sampled",
        "enumerated_histories": enum_sizes,
        "cases_per_decorator": per_decor,
        "op_histogram": op_hist,
        "interesting_states_cases": dict(sorted(interesting.items())),
        "model_diffs_without_property_violation": diffs,
        "trusted_base": TRUSTED,
        "partial": "not exhibited by the model/harness: anything happening to a key WHILE its function body runs (a call is atomic: concurrent callers "
                   "are C07; a background refresh completing, an invalidation or another writer during a foreground execution), conditions that return an "
                   "exception (with_exceptions / only_exceptions: storing a failure), time_condition, a callable ttl for early (evaluated before the "
                   "execution, without the result) and for hit (unusable: the raw callable reaches backend.incr(expire=...)), store-step failures that "
                   "leave the backend half-written, the float default early/soft ttl (ttl*0.33), non-dyadic TTLs, more than two argument values, histories > 30 ops. "
                   "D19 (early, background=False: a failing refresh propagates instead of answering from the store) is a recorded known finding; "
                   "the corresponding theorem carries the excluding hypothesis (early_answers_from_store_partial) and its negation is witnessed "
                   "(early_foreground_failure_propagates).",
    })
    chk.assumptions.extend(TRUSTED)
    return chk.finish(proof)


def replay(chk: Check, path: str) -> int:
    c = json.loads(Path(path).read_text())
    case = {"cfg": c["cfg"], "ops": c["ops"]}
    if c.get("stage") == "overlap":
        rd, problems, dm, iv, mv = overlap_replay_dict(case, "replay")
        for i, tr in enumerate(rd["trace"]):
            print(f"t={tr['t']:<5d} {tr['op']:14s} impl={tr['impl']:34s} model={tr['model']}")
        for k, cl in enumerate(rd["calls"]):
            print(f"call {k}: began {cl['t']}, own execution {cl['own']}, answered {cl['res']} at {cl['t_ans']} (by the end of execution {cl['via']})")
        for i, s_, txt in problems:
            print(f"problem at op {i}: [{s_}] {txt}")
        if problems or dm is not None:
            print(f"VIOLATION property={PROP} replay={path}")
            return 1
        print("replay: no disagreement")
        return 0
    if c.get("stage") == "capacity":
        ev, problems = capacity_problems(case)
        for e in ev:
            print(f"t={e['t']:<5d} {e['op']:18s} impl={e['impl']}")
        for i, s_, txt in problems:
            print(f"problem at op {i}: [{s_}] {txt}")
        if problems:
            print(f"VIOLATION property={PROP} replay={path}")
            return 1
        print("replay: no disagreement")
        return 0
    events, answers, problems, seen, dm = judge(case)
    print(D.case_line(case["cfg"]), "store=" + case["cfg"]["store"], "mode=" + case["cfg"].get("mode", "default"))
    for e, a in zip(events, answers):
        print(f"t={e['t']:<5d} {e['op']:18s} impl={e['impl']:34s} {a}")
    for i, s, txt in problems:
        print(f"problem at op {i}: [{s}] {txt}")
    known = {f.get("signature") for f in chk.known if f.get("status") == "known"}
    real = [p for p in problems if p[1] not in known]
    for p in problems:
        if p[1] in known:
            print(f"KNOWN-FINDING: property={PROP} {p[1]}")
    if real or dm is not None:
        if dm is not None:
            print(f"first difference implementation vs model at op {dm}")
        print(f"VIOLATION property={PROP} replay={path}")
        return 1
    print("replay: no disagreement" + (" (known finding only)" if problems else ""))
    return 0
