"""C07 - single-flight: one execution per key in flight, shared by all waiters; cancelling one caller affects
only that caller.

proof: lean/CashewsVerif/Props/C07.lean  (transition system Model/SingleFlight.lean; invariants by induction
       over all traces).
tie:   2-5 real callers of functions protected by `thunder_protection` - bare, and through
       `Cache.cache / early / soft (protected=True)` on `mem://` - are driven by the gate scheduler
       (harness/sfsched.py) through recorded schedules: single releases, bursts, cancellation of a caller at
       any point.  The wrapped body returns, raises, or ENDS CANCELLED (its own await is cancelled - not a
       caller), and later calls for the same key follow.  Besides one-parameter functions there are
       two-parameter ones `f(s, k)` whose key template leaves `s` out (callers agree on the key and differ in
       `s`, positional / keyword spelling, plain values and per-request objects) or - default template -
       contains both; "key" everywhere below is the cache key the arguments render to (sfimpl.key_id), not the
       argument list.  EXCEPTIONS come from a family of classes with non-trivial constructors (keyword-only,
       multi-argument, message built in __init__, state in attributes / slots, explicit cause, notes; harness/sfexc.py)
       and carry a payload derived from the raising execution's id: a caller "received E<shape>.<x>" only if what it
       ended with equals, in every observable respect, what the body of execution x raised.  TIME: schedules contain
       explicit time steps ("tick", d) that advance the virtual clock while bodies are suspended, with ttls of 1-2 s, so
       callers arrive when the execution in flight is younger than, exactly as old as, or older than the ttl, and stored
       results expire between calls; the property has no ttl carve-out and neither has the oracle.
       EARLY: with an early_ttl the run can reach (ttl 16/24 ticks, early_ttl 8) stored values go stale and stale hits
       start RECALCULATIONS - tasks that run the wrapped body outside thunder_protection's table, in the background or
       awaited (background=False) - which outlive their lock key (early_ttl) and the stored value (ttl) while callers
       keep arriving in every window; the body counter per key counts them like any other body.  A tree without the
       per-key `recalculations` table (repair D44) is reported under the signature "D44:early-overlapping-recalculation".
       SHARING is decided by the rendered cache key and by nothing else: decorator OBJECTS are reused (`cached = cache(...)`
       applied to other functions before / after the function under test), callers can be tasks SPAWNED BY A BODY (with a
       copy of its context) that call while a later execution is in flight, keys depend on the template context
       (`key_context(tenant=...)`, same call arguments) and on the type of equal arguments (1 / 1.0 / True); upper=True
       variants go through the facade's other code path ("D49:upper-unprotected" without its repair).
       Further: STACKS of two protected decorators with coarser / equal / finer outer key templates; bodies that RETURN
       error-like objects (an Exception instance, a BaseException instance, a wrapper) which every waiter must receive as
       a value; a stage with two event loops one after the other ("D70:stale-loop-entry" without its repair).
       Callers may carry a CONTROL STATE ("ctl": single commands - get / set / both - disabled in the caller's context, a
       partial disable): they must still share executions with everybody else; those cases are judged by the oracle only.
       After every scheduler step the observable state (what each caller has received, bodies
       running / started per key, the clock) is compared with
         (a) the Lean model replaying the recorded trace (driver_c07), and
         (b) the property oracle below: the statement of C07 evaluated on the events the real run produced.
"""
from __future__ import annotations

import asyncio
import itertools
import json
from pathlib import Path

from .. import sfexc, sfimpl
from ..core import ROOT, Check, Driver, HarnessError, ddmin, proof_stage
from ..sched import enumerate_schedules

PROP = "C07"
BIG = 1500          # schedules; see the exhaustive part of run()
DRIVER = Driver("driver_c07", "Drivers/C07.lean")

TRUSTED = [
    "Lean 4.33.0 kernel; axioms of every theorem audited to be within {propext, Classical.choice, Quot.sound}",
    "asyncio assumption A1 (a task is not preempted between suspension points, so everything `_wrapper` does before its "
    "await is one atomic `call` step) and A2 (cancelling a task that awaits asyncio.shield(t) does not cancel t): modelled, "
    "not proved; exercised against the real event loop by every run of this check",
    "asyncio assumption A3 (a task whose coroutine ends with CancelledError is done like any other: done-callbacks run, every "
    "`await asyncio.shield(task)` raises CancelledError in the waiter): modelled as the third outcome `Outcome.cancelled`, "
    "exercised by the scripted bodies that end cancelled (raise / inner future cancelled / child task cancelled)",
    "the key of a call is computed by the harness (harness/sfimpl.py key_id: the parameters the template mentions, the tenant "
    "of the template context for the *_ctx variants, the type of the argument for the *_typed variants), not by cashews' "
    "get_cache_key - rendering of keys is C08",
    "hand-written model lean/CashewsVerif/Model/SingleFlight.lean of cashews/decorators/locked.py thunder_protection and of "
    "the protected=True glue in cashews/wrapper/decorators.py, tied to the code by this run's schedule correspondence",
    "harness: virtual event loop (harness/vtime.py), gate scheduler (harness/sched.py, harness/sfsched.py), scripted bodies "
    "and outcome canonicalisation (harness/sfimpl.py)",
    "cache decorators are modelled only as far as single-flight sees them (miss -> run the body and store a returned value; "
    "hit -> deliver the stored value without running the body, as long as the backend holds it: now < stored_at + ttl); "
    "`early` in full as far as bodies are concerned: early deadline, stale hit, lock key, recalculation table, recalculation "
    "tasks (background / awaited); `soft`'s soft_ttl and the early_ttl of the gated `early` variants are set beyond the reach "
    "of a run whenever time passes (soft's re-run happens inside the protected execution, which the table invariant covers, "
    "but the value it then delivers - fall-back to the stored one when the body raises - is not modelled)",
    "time passes only through the schedule's explicit tick entries (harness/sfimpl.py SfLoop disables the virtual loop's "
    "sleep(0)-spin rule); the clock read by cashews is harness/vtime.py's (time.time / time.monotonic / perf_counter / "
    "datetime.now / loop.time all read it)",
    "what a caller can observe of an exception is harness/sfexc.py observe(): class, args, str(), attributes, slots, notes, "
    "explicit cause, __suppress_context__ - not object identity, not __traceback__, not the implicit __context__",
]


# ------------------------------------------------------------------------------------------------------------
# protocol

def kid_of(case, c):
    """the key of caller tuple `c`: the cache key its arguments render to (sfimpl.key_id), not the argument list"""
    return sfimpl.key_id(case["variant"], c[1], sfimpl.arg_of(c))


def case_keys(case):
    return sorted({kid_of(case, c) for c in case["callers"]})


def item_of(ent, cinfo, variant):
    kind, i = ent
    if kind == "c":
        c = cinfo[i]
        _, k_, n, k, val = c[:5]
        if k == "e":
            out = f"e{val % sfexc.NSHAPES}.{i}"        # an exception's payload: the id of the execution
        elif k == "v":
            # a returned error-like object: a value; `n`: one that the cache decorator of the variant does not store
            keeps = sfimpl.kept(variant, k, val) or not sfimpl.CACHING[variant]
            out = ("r" if keeps else "n") + str(sfexc.value_code(val, i))
        else:
            out = f"{k}{val}"      # an exception's payload: the id of the execution
        item = f"c{i}:{sfimpl.key_id(variant, k_, sfimpl.arg_of(c))}:{sfimpl.gates_of(variant, n, k, val)}:{out}"
        if sfimpl.TWO_PARAM.get(variant) == "omit":
            item += f":a{sfimpl.arg_of(c)}"        # the argument the key template leaves out (model: Act.callWith)
        return item
    return f"x{i}"


def model_lines(case, eff):
    callers = [tuple(c) for c in case["callers"]]
    cinfo = {c[0]: c for c in callers}
    keys = case_keys(case)
    v = case["variant"]
    lines = ["case caching=%d ttl=%d early=%d ettl=%d bg=%d skip=0 callers=%s keys=%s" % (
        1 if sfimpl.CACHING[v] else 0, sfimpl.ttl_ticks(case),
        1 if sfimpl.EARLY[v] else 0, sfimpl.early_ticks(case) if sfimpl.EARLY[v] else 0, 0 if sfimpl.FOREGROUND[v] else 1,
        ",".join(str(c[0]) for c in callers), ",".join(map(str, keys)))]
    for kind, arg in eff:
        if kind == "cancel":
            lines.append(f"do k{arg}")
        elif kind == "tick":
            lines.append(f"do t{arg}")
        else:
            lines.append("do " + " ".join(item_of(tuple(e), cinfo, case["variant"]) for e in arg))
    return lines


def impl_strings(case, run):
    callers = [c[0] for c in case["callers"]]
    keys = case_keys(case)
    out = []
    for o in run.obs:
        out.append(("," .join(o["callers"][c] for c in callers),
                    ";".join(f"{k}:{o['running'].get(k, 0)}:{o['starts'].get(k, 0)}" for k in keys), str(o["now"])))
    return out


def parse_answer(ans: str):
    if not ans.startswith("en="):
        return None
    f = dict(p.split("=", 1) for p in ans.split(" "))
    keys = []
    for part in f["keys"].split(";") if f["keys"] else []:
        k, infl, br, bs, ex = part.split(":")
        keys.append((k, int(infl), br, bs))
    return {"en": f["en"], "callers": f["callers"], "now": f.get("now", "?"),
            "keys": ";".join(f"{k}:{br}:{bs}" for k, _, br, bs in keys),
            "inflight_max": max([i for _, i, _, _ in keys], default=0)}


def compare(case, run, answers):
    """index of the first step where the implementation's observation differs from the model (None if none)"""
    impl = impl_strings(case, run)
    gated = sfimpl.GATED[case["variant"]]
    if answers[0] != "ok":
        return 0, "driver rejected the case line: " + answers[0]
    if len(impl) != len(run.eff):
        return len(impl), "run ended before the last step was observed (stuck=%s)" % run.stuck
    for i, ((ic, ik, inow), ans) in enumerate(zip(impl, answers[1:])):
        p = parse_answer(ans)
        if p is None:
            return i, "driver answered " + ans
        if "0" in p["en"]:
            return i, f"the real run took a step the model considers impossible here (enabled flags {p['en']})"
        if inow != p["now"]:
            return i, f"clock: impl at tick {inow}, model at tick {p['now']} (time passed that the schedule did not ask for)"
        if ic != p["callers"]:
            return i, f"callers: impl {ic} model {p['callers']}"
        if gated:
            # the execution also parks outside the wrapped body (after the lookup, before the store): the model counts the
            # body as started at the call and running until the execution ends, the real counters lag / lead by those
            # steps; they must never exceed the model's and must agree once nothing is in flight
            ok = True
            for a, b in zip(ik.split(";"), p["keys"].split(";")):
                (_, ar, as_), (_, br, bs) = a.split(":"), b.split(":")
                if int(ar) > int(br) or int(as_) > int(bs) or (p["inflight_max"] == 0 and (ar, as_) != (br, bs)):
                    ok = False
            if not ok:
                return i, f"bodies running/started per key: impl {ik} exceeds / ends unlike model {p['keys']}"
        elif ik != p["keys"]:
            return i, f"bodies running/started per key: impl {ik} model {p['keys']}"
    if run.stuck:
        return len(impl), "the real run got stuck: live callers, nothing left to release"
    return None, ""


# ------------------------------------------------------------------------------------------------------------
# property oracle: C07 evaluated on what the real run did

D44 = "D44:early-overlapping-recalculation"
D49 = "D49:upper-unprotected"
D70 = "D70:stale-loop-entry"
PRIORITY = [D44, D49, "cancel_spreads", "two_bodies", "wrong_outcome", "stuck", "exec_cancelled", "exec_lost", "exec_not_started"]


def say(code):
    return {"K": "CancelledError (K: of an execution that ended cancelled)", "C": "its own cancellation (C)"}.get(code, code)


def code_of(kind, val, x):
    """what execution x delivers according to its script"""
    if kind == "k":
        return "K"          # the execution ended cancelled: its waiters get CancelledError
    if kind == "e":
        return f"E{val % sfexc.NSHAPES}.{x}"      # THE exception its body raises (shape, payload of execution x)
    if kind == "v":
        return f"R{sfexc.value_code(val, x)}"     # the error-like object its body RETURNS: a value
    return "R" + str(val)


def stored_val(kind, val, x):
    """the value a later hit delivers: the int a body returned, or the code of the error-like object execution x returned"""
    return val if kind == "r" else sfexc.value_code(val, x)


def oracle(case, run):
    """returns (violations [(signature, text)], interesting-state counters)"""
    caching = sfimpl.CACHING[case["variant"]]
    gated = sfimpl.GATED[case["variant"]]
    script = {c[0]: tuple(c) for c in case["callers"]}
    ttl = sfimpl.ttl_ticks(case)
    early = sfimpl.EARLY[case["variant"]]
    foreground = sfimpl.FOREGROUND[case["variant"]]
    spawned_by = {int(c_): int(p_) for c_, p_ in (case.get("spawned") or {}).items()}
    # per-caller control state: single commands disabled in the caller's context (1: get, 2: set, 3: both).  The invariant:
    # while the cache is not FULLY disabled, overlapping equal-key calls share one execution whatever single commands are
    # disabled for any of them.  What the disabled commands do change is the cache decorator inside an execution such a
    # caller STARTS (its context is copied): get disabled - the lookup finds nothing; set disabled - the result is not stored
    ctl = {int(c_): int(m_) for c_, m_ in (case.get("ctl") or {}).items()} if caching else {}
    ettl = sfimpl.early_ticks(case)      # early deadline of a stored value / lifetime of the lock key (early only)
    now = 0             # ticks; moved by the schedule's time steps only
    viol = []
    stats = {}

    def hit(name):
        stats[name] = stats.get(name, 0) + 1

    if tuple(case.get("reuse", (0, 0))) != (0, 0):
        hit("decorator_object_shared_with_other_functions")
    inflight = {}       # key -> record of the execution in flight
    recs = {}           # exec id -> record
    cache_val = {}
    expected = {}       # caller -> record whose outcome it must receive
    running = {}        # key -> ids of bodies running
    cancelled = set()
    earlier = set()     # keys that had an execution before
    last_out = {}       # key -> outcome of the last execution that ended
    args_by_k = {}      # (all-args variants) first parameter k -> set of keys in flight together
    refresh = {}        # key -> the recalculation of the key that is running (early: started by a stale hit)
    refreshes = {}      # id of the caller whose execution started it -> recalculation record
    refresh_body = set()    # ids x whose running body belongs to recalculation x (not to execution x)
    recalculated = set()    # keys for which a recalculation was ever started

    upper = case["variant"] in sfimpl.UPPER_VARIANTS
    D44_ = D49 if upper else D44     # under upper=True the repair of D49 is what keeps recalculations from overlapping

    def awaiting_rec(c, k, rf, arg):
        """an execution that runs no body: it awaits recalculation rf and delivers its outcome"""
        r = new_rec(c, k, rf["outcome"], False, arg)
        r["awaits"] = rf
        rf["awaiting"].append(r)
        return r

    def new_rec(c, k, outcome, is_hit, arg=0):
        r = {"id": c, "key": k, "outcome": outcome, "ended": is_hit, "hit": is_hit, "waiters": [c], "started": False,
             "arg": arg, "t0": now}
        recs[c] = r
        inflight[k] = r
        expected[c] = r
        if k in earlier:
            hit("refill_after_finish")
            if last_out.get(k) == "K":
                hit("call_after_execution_ended_cancelled")
        earlier.add(k)
        return r

    for ev in run.frozen:
        t = ev[0]
        if t == "go":
            if len(ev[1]) >= 2:
                hit("burst")
        elif t == "tick":
            now += ev[1]
            if any(not r["ended"] for r in inflight.values()):
                hit("time_passes_while_an_execution_is_in_flight")
            if any(now >= exp for _, _, exp in cache_val.values()):
                hit("stored_value_expired")
            for k_, rf in refresh.items():
                hit("time_passes_while_a_recalculation_runs")
                if now >= rf["lock_until"]:
                    hit("lock_key_expired_while_recalculation_runs")
                if k_ in cache_val and now >= cache_val[k_][2]:
                    hit("stored_value_expired_while_recalculation_runs")
        elif t == "call":
            _, c, k, arg = ev
            if c in spawned_by:
                hit("call_by_a_task_spawned_in_a_body")
                pr = recs.get(spawned_by[c])
                if pr is not None and pr["ended"] and inflight.get(k) is not None and inflight[k] is not pr \
                        and not inflight[k]["ended"]:
                    hit("spawned_task_joins_a_later_execution_of_its_parents_key" if pr["key"] == k else
                        "spawned_task_joins_an_execution_of_another_key")
            get_off = bool(ctl.get(c, 0) & 1)
            if ctl.get(c, 0):
                hit("call_with_single_commands_disabled")
            r = inflight.get(k)
            if r is not None and ctl.get(c, 0) and not r["ended"]:
                hit("caller_with_disabled_commands_joins_the_execution_in_flight")
            if r is not None:
                # no ttl carve-out: an execution in flight is joined however old it is
                expected[c] = r
                r["waiters"].append(c)
                hit("late_join" if r["ended"] else "join")
                if not r["ended"] and now > r["t0"]:
                    age = now - r["t0"]
                    hit("join_execution_younger_than_ttl" if age < ttl else
                        "join_execution_exactly_ttl_old" if age == ttl else "join_execution_older_than_ttl")
                if arg != r["arg"]:
                    hit("join_differs_in_argument_outside_key")
                if r.get("body_done") and not r["ended"]:
                    hit("join_after_body_before_store")
                elif not r["started"] and not r["hit"] and not r.get("awaits"):
                    hit("join_before_body_started")
                if r.get("awaits") and not r["ended"]:
                    hit("join_execution_that_awaits_a_recalculation")
            elif get_off and not (early and refresh.get(k) is not None):
                # nothing in flight, `get` disabled for the caller: the execution it starts does not see what is stored
                if k in cache_val and now < cache_val[k][2]:
                    hit("get_disabled_execution_runs_despite_stored_value")
                _, _, n, kind, val = script[c][:5]
                new_rec(c, k, code_of(kind, val, c), False, arg)
            elif caching and k in cache_val and now < cache_val[k][2] and (not early or now <= cache_val[k][1]):
                new_rec(c, k, code_of("r", cache_val[k][0], c), True, arg)
                hit("cache_hit")
                if now + 1 == cache_val[k][2]:
                    hit("cache_hit_at_last_valid_tick")
                if early and now == cache_val[k][1]:
                    hit("fresh_hit_exactly_at_early_deadline")
            elif caching and k in cache_val and now < cache_val[k][2]:
                # early: the stored value is stale - it is served, and its recalculation is started unless one is running
                stored = code_of("r", cache_val[k][0], c)
                rf = refresh.get(k)
                hit("stale_hit")
                if rf is not None:
                    new_rec(c, k, stored, True, arg)
                    hit("stale_hit_while_recalculating")
                    if now >= rf["lock_until"]:
                        hit("stale_hit_while_recalculating_after_lock_key_expired")
                else:
                    _, _, n, kind, val = script[c][:5]
                    rf = {"id": c, "key": k, "outcome": code_of(kind, val, c), "started": False, "ended": False,
                          "lock_until": now + ettl, "t0": now, "awaiting": []}
                    refresh[k] = rf
                    refreshes[c] = rf
                    recalculated.add(k)
                    hit("recalculation_started")
                    if foreground:
                        awaiting_rec(c, k, rf, arg)      # background=False: the execution awaits what it started
                        hit("foreground_recalculation")
                    else:
                        new_rec(c, k, stored, True, arg)
            elif early and refresh.get(k) is not None:
                # cold miss while the recalculation of the key is running: join it (one body per key)
                awaiting_rec(c, k, refresh[k], arg)
                hit("cold_miss_joins_recalculation")
                if k in cache_val:
                    hit("call_after_stored_value_expired")
            else:
                if caching and k in cache_val:
                    hit("call_after_stored_value_expired")
                    if now == cache_val[k][2]:
                        hit("call_exactly_at_expiry")
                _, _, n, kind, val = script[c][:5]
                new_rec(c, k, code_of(kind, val, c), False, arg)
                if any(k2 != k and k2 >= 100 and (k2 - 100) // 10 == (k - 100) // 10 and not r2["ended"]
                       for k2, r2 in inflight.items()) and k >= 100:
                    hit("same_k_other_argument_in_key_runs_separately")
        elif t == "start":
            _, x, k = ev
            rf = refreshes.get(x)
            if rf is not None and rf["key"] == k and not rf["started"]:
                # the body of the recalculation that the execution of caller x started
                rf["started"] = True
                refresh_body.add(x)
                running.setdefault(k, []).append(x)
                if len(running[k]) > 1:
                    viol.append((D44_, f"the wrapped body runs {len(running[k])} times at once for key {k}: the recalculation "
                                      f"started by caller {x}'s execution overlaps with the bodies of {running[k][:-1]}"))
                continue
            r = recs.get(x)
            if r is not None and r.get("awaits") and not r["started"]:
                # the execution had to await the recalculation of its key; it runs the body itself
                r["awaits"]["awaiting"].remove(r)
                r["awaits"] = None
                r["hit"] = True
            if r is None or r["key"] != k or r["started"]:
                # a body started for a call that, by the property, had to share an execution in flight (or hit)
                _, _, n, kind, val = script[x][:5]
                old = expected.get(x)
                if old is not None and x in old["waiters"] and old["id"] != x:
                    old["waiters"].remove(x)
                r = {"id": x, "key": k, "outcome": code_of(kind, val, x), "ended": False, "hit": False, "waiters": [x],
                     "started": False, "arg": sfimpl.arg_of(script[x]), "t0": now}
                recs[x] = r
                expected[x] = r
                if k not in inflight or inflight[k]["ended"]:
                    inflight[k] = r
            if r["hit"]:           # the property allows a hit to be served without a body; if a body does run, its script counts
                _, _, n, kind, val = script[x][:5]
                r["outcome"] = code_of(kind, val, x)
            r["started"] = True
            r["hit"] = False
            r["ended"] = False
            running.setdefault(k, []).append(x)
            if len(running[k]) > 1:
                if early and k in recalculated:
                    viol.append((D44_, f"the wrapped body runs {len(running[k])} times at once for key {k} (scripts of callers "
                                      f"{running[k]}) after a recalculation of the key was started"
                                      + (f": recalculation {refresh[k]['id']} is still running" if k in refresh else "")))
                else:
                    viol.append((D49 if upper else "two_bodies",
                                 f"the wrapped body runs {len(running[k])} times at once for key {k} "
                                 f"(executions started by callers {running[k]})"))
            if sum(1 for v in running.values() if v) >= 2:
                hit("two_keys_in_parallel")
        elif t == "end":
            _, x, k, how, kind, val = ev
            if x in running.get(k, []):
                running[k].remove(x)
            if x in refresh_body:
                # the recalculation ends: a returned value is stored with new deadlines; the executions that awaited it end
                refresh_body.discard(x)
                rf = refreshes[x]
                rf["ended"] = True
                rf["outcome"] = code_of(kind, val, x)
                if refresh.get(k) is rf:
                    del refresh[k]
                hit("recalculation_finished")
                if now >= rf["lock_until"]:
                    hit("recalculation_outlived_its_lock_key")
                if k in cache_val and now >= cache_val[k][2]:
                    hit("recalculation_outlived_the_stored_value")
                for r in rf["awaiting"]:
                    r["ended"] = True
                    r["outcome"] = rf["outcome"]
                    last_out[k] = r["outcome"]
                    live = [w for w in r["waiters"] if w not in cancelled]
                    if len(live) >= 2:
                        hit("recalculation_outcome_fanout")
                    if kind == "e" and live:
                        hit("recalculation_exception_delivered")
                    if not live:
                        hit("orphan_execution_finished")
                if how == "cancelled":
                    live = [w for r in rf["awaiting"] for w in r["waiters"] if w not in cancelled]
                    if live:
                        viol.append(("exec_cancelled", f"the recalculation started by caller {x}'s execution (key {k}) was "
                                                       f"cancelled while callers {live} waited for it"))
                elif sfimpl.kept(case["variant"], kind, val):
                    cache_val[k] = (stored_val(kind, val, x), now + ettl, now + ttl)
                continue
            r = recs.get(x)
            if r is not None:
                noset = bool(ctl.get(x, 0) & 2)
                if gated and sfimpl.kept(case["variant"], kind, val) and how == "ok" and not noset:
                    r["body_done"] = True          # still in flight: the decorator has yet to store the result
                else:
                    r["ended"] = True
                r["outcome"] = code_of(kind, val, x)
                last_out[k] = r["outcome"]
                live = [w for w in r["waiters"] if w not in cancelled]
                if kind == "k" and how == "ok":
                    hit("execution_ended_cancelled")
                    if len(live) >= 2:
                        hit("cancelled_outcome_fanout")
                if not live:
                    hit("orphan_execution_finished")
                if kind == "e" and len(live) >= 2:
                    hit("exception_fanout")
                    if val % sfexc.NSHAPES in sfexc.NONTRIVIAL:
                        hit("exception_with_nontrivial_constructor_fanout")
                if kind == "r" and len(live) >= 2:
                    hit("result_fanout")
                if kind == "v" and how == "ok":
                    hit("error_like_object_returned_as_a_value")
                    if len(live) >= 2:
                        hit("returned_error_like_object_fanout")
                    if caching and not sfimpl.kept(case["variant"], kind, val):
                        hit("returned_value_not_stored_by_the_decorator")
            if how == "cancelled":
                live = [w for w in (r["waiters"] if r else []) if w not in cancelled]
                if live:
                    viol.append(("exec_cancelled", f"the shared execution started by caller {x} (key {k}) was cancelled while "
                                                   f"callers {live} still waited for it; only callers {sorted(cancelled)} were cancelled"))
                else:
                    # nobody is affected: not against the property's text; the model (shielded await: the execution
                    # goes on) will differ and say so
                    hit("exec_cancelled_with_no_waiter_left")
            elif caching and sfimpl.kept(case["variant"], kind, val):
                if ctl.get(x, 0) & 2:
                    hit("set_disabled_result_not_stored")
                else:
                    cache_val[k] = (stored_val(kind, val, x), now + ettl, now + ttl)
        elif t == "stored":
            r = recs.get(ev[1])
            if r is not None:
                r["ended"] = True
                if r["key"] in cache_val:          # gated backends: the value is stored now, not when the body ended
                    cache_val[r["key"]] = (cache_val[r["key"]][0], cache_val[r["key"]][1], now + ttl)
        elif t == "cancel":
            c = ev[1]
            cancelled.add(c)
            r = expected.get(c)
            if r is None:
                hit("cancel_before_call")
            else:
                others = [w for w in r["waiters"] if w != c and w not in cancelled]
                if r["id"] == c:
                    hit("cancel_creator")
                if others:
                    hit("cancel_one_of_several_waiters")
                else:
                    hit("cancel_last_waiter")
        elif t == "quiet":
            for k in [k for k, r in inflight.items() if r["ended"]]:
                del inflight[k]

    for k, m in run.maxrun.items():
        if m > 1 and not any(s in ("two_bodies", D44, D49) for s, _ in viol):
            viol.append((D44_ if early and k in recalculated else D49 if upper else "two_bodies",
                         f"concurrent-execution counter of the wrapped body reached {m} for key {k}"))
    for c, fin in sorted(run.final.items()):
        if c in cancelled:
            continue          # what the cancelled caller itself sees is the model's business, not the property's
        r = expected.get(c)
        if fin == "C" or (fin == "K" and (r is None or (r["outcome"] != "K" and any(w in cancelled for w in r["waiters"])))):
            viol.append(("cancel_spreads", f"caller {c} ended with CancelledError although only callers {sorted(cancelled)} were "
                                           f"cancelled" + ("" if r is None else f" and the execution it shares (started by caller "
                                                           f"{r['id']} for key {r['key']}) delivered {r['outcome']}")))
        elif fin == "W" or fin == "N":
            viol.append(("stuck", f"caller {c} never received a result"))
        elif r is None:
            viol.append(("wrong_outcome", f"caller {c} finished with {fin} without having called"))
        elif fin != r["outcome"] and r.get("awaits"):
            rf = r["awaits"]
            viol.append(("wrong_outcome", f"caller {c} (key {r['key']}) received {say(fin)}, but the execution it shares (started "
                                          f"by caller {r['id']}) awaited the recalculation of key {r['key']} started by caller "
                                          f"{rf['id']}'s execution, which " + (f"delivered {rf['outcome']}" if rf["ended"] else
                                                                              "has not ended")))
        elif fin != r["outcome"]:
            if not r["started"] and not r["hit"]:
                viol.append(("wrong_outcome", f"caller {c} received {say(fin)}: nothing was in flight for key {r['key']} when caller "
                                              f"{r['id']} called, so that call had to start a new execution (script: "
                                              f"{r['outcome']}), but no body was started for it - the call was served by "
                                              f"something that was already over"))
            else:
                how = ""
                got, raised = run.received_obs.get(c), run.raised_obs.get(r["id"])
                if got is not None and raised is not None and r["outcome"].startswith("E"):
                    fields = sfexc.diff_fields(got, raised)
                    how = ("; what it received is not the exception the body raised - it differs in " + ", ".join(
                        f"{f} (received {sfexc.obs_dict(got)[f]!r}, raised {sfexc.obs_dict(raised)[f]!r})" for f in fields))
                viol.append(("wrong_outcome", f"caller {c} (key {r['key']}) received {say(fin)}, but the execution it had to share "
                                              f"(started by caller {r['id']} for key {r['key']}) delivered {r['outcome']}{how}"))
    for x, r in recs.items():
        if r["started"] and not r["ended"]:
            viol.append(("exec_lost", f"the execution started by caller {x} never ran to its end"))
        if not r["started"] and not r["hit"] and not r.get("awaits") and not run.stuck:
            viol.append(("exec_not_started", f"caller {x} called with key {r['key']} while nothing was in flight and nothing was "
                                             f"stored for it, but no execution of the body was started"))
    for x, rf in refreshes.items():
        if rf["started"] and not rf["ended"]:
            viol.append(("exec_lost", f"the recalculation started by caller {x}'s execution never ran to its end"))
    viol.sort(key=lambda v: PRIORITY.index(v[0]))
    return viol, stats


# ------------------------------------------------------------------------------------------------------------
# running and judging one case

def explicit(case, run):
    """the same run as a case with an explicit schedule (replays without choice points / cancel budget)"""
    two = case["variant"] in sfimpl.TWO_PARAM
    ex = {"variant": case["variant"], "callers": [list(c) if two else list(c)[:5] for c in case["callers"]],
          "schedule": [[k, [list(e) for e in a]] if k == "go" else [k, a] for k, a in run.eff]}
    for f in ("ttl", "early_ttl", "reuse", "spawned", "ctl"):
        if f in case:
            ex[f] = case[f]
    return ex


def judge(case, cancel_budget=0, tick_budget=0, tick_sizes=()):
    run = sfimpl.execute(case, cancel_budget=cancel_budget, tick_budget=tick_budget, tick_sizes=tick_sizes)
    if run.ticks > sfimpl.MAX_RUN_TICKS:
        raise HarnessError(f"virtual time ran away during a C07 case ({run.ticks} ticks)")
    viol, stats = oracle(case, run)
    return run, viol, stats


def ask_model(cases_runs):
    """batch: one driver process for many (case, run) pairs -> list of answer lists"""
    lines, spans = [], []
    for case, run in cases_runs:
        ls = model_lines(case, run.eff)
        spans.append((len(lines), len(ls)))
        lines.extend(ls)
    if not lines:
        return []
    ans = DRIVER.ask(lines)
    return [ans[a:a + n] for a, n in spans]


def fails_with(sig):
    def f(case):
        _, viol, _ = judge(case)
        return any(s == sig for s, _ in viol)
    return f


def shrink(case, sig):
    """smallest explicit case that still violates the property with the same signature"""
    fails = fails_with(sig)
    cur = case
    if not fails(cur):
        return cur
    sched = ddmin(cur["schedule"], lambda s: fails(dict(cur, schedule=s))) if len(cur["schedule"]) >= 2 else cur["schedule"]
    if fails(dict(cur, schedule=[])):
        sched = []
    cur = dict(cur, schedule=sched)
    # drop callers
    changed = True
    while changed and len(cur["callers"]) > 1:
        changed = False
        for c in list(cur["callers"]):
            rest = [x for x in cur["callers"] if x != c]
            cand = dict(cur, callers=rest, schedule=[e for e in cur["schedule"] if not (
                (e[0] == "cancel" and e[1] == c[0]) or (e[0] == "go" and all(tuple(i)[1] == c[0] for i in e[1])))])
            cand["schedule"] = [[e[0], [i for i in e[1] if tuple(i)[1] != c[0]]] if e[0] == "go" else e for e in cand["schedule"]]
            if fails(cand):
                cur = cand
                changed = True
                break
    # smaller arguments outside the key (two-parameter variants)
    for idx in range(len(cur["callers"])):
        while len(cur["callers"][idx]) > 5 and cur["callers"][idx][5] > 0:
            cs = [list(c) for c in cur["callers"]]
            cs[idx][5] -= 1
            cand = dict(cur, callers=cs)
            if fails(cand):
                cur = cand
            else:
                break
    # shorter time steps (down to the shortest that still fails), then none at all
    for idx in range(len(cur["schedule"])):
        e = cur["schedule"][idx]
        if e[0] != "tick":
            continue
        lo, hi = 1, e[1]            # invariant: hi fails
        while lo < hi:
            mid = (lo + hi) // 2
            sc = list(cur["schedule"])
            sc[idx] = ["tick", mid]
            if fails(dict(cur, schedule=sc)):
                hi = mid
            else:
                lo = mid + 1
        sc = list(cur["schedule"])
        sc[idx] = ["tick", hi]
        cur = dict(cur, schedule=sc)
    if "ttl" in cur and not any(e[0] == "tick" for e in cur["schedule"]):
        cand = {k: v for k, v in cur.items() if k not in ("ttl", "early_ttl")}
        if fails(cand):
            cur = cand
    # plainer exceptions (shape 0 = an ordinary class rebuilt from .args) where the failure does not need the shape
    for idx in range(len(cur["callers"])):
        if cur["callers"][idx][3] == "e" and cur["callers"][idx][4] != 0:
            cs = [list(c) for c in cur["callers"]]
            cs[idx][4] = 0
            cand = dict(cur, callers=cs)
            if fails(cand):
                cur = cand
    # fewer suspension points
    for idx in range(len(cur["callers"])):
        while cur["callers"][idx][2] > 0:
            cs = [list(c) for c in cur["callers"]]
            cs[idx][2] -= 1
            cand = dict(cur, callers=cs)
            if fails(cand):
                cur = cand
            else:
                break
    return cur


def trace_table(case, run, answers):
    rows = []
    impl = impl_strings(case, run)
    lines = model_lines(case, run.eff)
    for i, l in enumerate(lines[1:]):
        rows.append({"step": l, "impl": " ".join(impl[i]) if i < len(impl) else "-",
                     "model": answers[i + 1] if answers and i + 1 < len(answers) else "-"})
    return rows


def exc_table(run):
    """what the bodies raised and what the callers ended with, field by field"""
    return {"raised_by_execution": {str(x): sfexc.obs_dict(o) for x, o in sorted(run.raised_obs.items())},
            "received_by_caller": {str(c): sfexc.obs_dict(o) for c, o in sorted(run.received_obs.items())}}


def report(chk: Check, case, run, viol, origin, answers=None, diff=None):
    ex = explicit(case, run)
    if viol:
        sig = viol[0][0]
        small = shrink(ex, sig)
        run2, viol2, _ = judge(small)
        if not any(s == sig for s, _ in viol2):      # shrinking lost it (should not happen): report the original
            small, run2, viol2 = ex, run, viol
        ans2 = ask_model([(small, run2)])[0]
        text = next(t for s, t in viol2 if s == sig)
        chk.violation(
            f"single-flight violated ({small['variant']}): {text}",
            {"case": small, "violations": [t for _, t in viol2], "final": run2.final, "max_concurrent_bodies": run2.maxrun,
             "ttl_ticks": sfimpl.ttl_ticks(small), "exceptions": exc_table(run2),
             "trace": trace_table(small, run2, ans2), "events": [list(e) for e in run2.frozen], "origin": origin,
             "replay_cmd": "./check C07 --replay <this file>"},
            signature=sig)
    else:
        i, why = diff
        chk.violation(
            f"correspondence broken: real run differs from model SingleFlight at step {i} ({why}); the property oracle "
            f"found nothing wrong on this case (variant {case['variant']})",
            {"case": ex, "first_diff": i, "why": why, "final": run.final, "trace": trace_table(case, run, answers),
             "ttl_ticks": sfimpl.ttl_ticks(ex), "exceptions": exc_table(run),
             "events": [list(e) for e in run.frozen], "origin": origin,
             "broken": "correspondence Model/SingleFlight.lean <-> cashews/decorators/locked.py, cashews/wrapper/decorators.py",
             "replay_cmd": "./check C07 --replay <this file>"},
            signature=None, no_input=True)


# ------------------------------------------------------------------------------------------------------------
# two event loops, one after the other (D70)

# (no lock=True variant: the lock key taken by the execution of the dead loop legitimately blocks until its ttl - C05/C06)
DEAD_LOOP_VARIANTS = ["bare", "bare_default", "cache", "early", "early_fg", "soft", "cache_upper", "early_upper",
                      "soft_upper", "stack_coarse"]


def dead_loop_stage(variant: str):
    """Loop 1: the only caller of f(0) gives up while the execution is in flight; the loop is closed without draining (the
    execution can never finish).  Loop 2, same process, same decorated function: two overlapping calls f(0).  By the property
    nothing is in flight for the key in loop 2 - an execution whose loop is gone is not 'in flight' -, so the first call starts
    an execution and the second joins it: one more body, both receive its result.  Assumption instead of a model of loops: an
    entry of a loop that is gone counts as absent (the Lean model has one loop).  Returns (problem text or None, details)."""
    calls = {"n": 0, "running": 0, "peak": 0}
    holder = {}

    async def body(k_, s_):
        calls["n"] += 1
        me = calls["n"]
        calls["running"] += 1
        calls["peak"] = max(calls["peak"], calls["running"])
        try:
            if me == 1:
                await asyncio.Event().wait()        # never returns: its loop is closed underneath it
            await asyncio.sleep(0)
            return 70 + me
        finally:
            calls["running"] -= 1

    async def first():
        holder["f"], holder["cache"] = sfimpl.build(variant, body)
        t = asyncio.ensure_future(holder["f"](0, 0, False))
        for _ in range(20):
            await asyncio.sleep(0)
        t.cancel()                                  # the caller times out
        for _ in range(5):
            await asyncio.sleep(0)
        return calls["n"]

    async def second():
        f = holder["f"]
        try:
            return await asyncio.wait_for(asyncio.gather(f(0, 0, False), f(0, 0, True), return_exceptions=True), 64)
        except asyncio.TimeoutError:
            return "never returned"

    def run_on_new_loop(coro_fn, drain):
        loop = sfimpl.vtime.VLoop()      # with the sleep(0)-spin rule: a busy wait lets virtual time pass, `wait_for` ends it
        asyncio.set_event_loop(loop)
        try:
            return loop.run_until_complete(coro_fn())
        finally:
            if drain:
                pending = [t for t in asyncio.all_tasks(loop) if not t.done()]
                for t in pending:
                    t.cancel()
                if pending:
                    loop.run_until_complete(asyncio.gather(*pending, return_exceptions=True))
            asyncio.set_event_loop(None)
            loop.close()

    sfimpl.vtime.CLOCK.reset()
    n1 = run_on_new_loop(first, drain=False)
    calls["running"] = 0            # the body of loop 1 is gone with its loop
    res = run_on_new_loop(second, drain=True)
    shown = res if isinstance(res, str) else [r if isinstance(r, int) else f"{type(r).__name__}: {str(r)[:90]}" for r in res]
    details = {"stage": "dead_loop", "variant": variant, "bodies_started_in_loop_1": n1, "loop_2_results": shown,
               "bodies_started_in_all": calls["n"], "bodies_at_once_in_loop_2": calls["peak"]}
    if n1 != 1:
        raise HarnessError(f"C07 dead-loop stage ({variant}): {n1} bodies started in loop 1")
    if res == "never returned":
        return "the calls of loop 2 never return: they wait for the execution of a loop that is gone", details
    if any(not isinstance(r, int) for r in res):
        return (f"a call in loop 2 fails with {shown}: it was joined to the execution left behind by loop 1 (that loop is gone; "
                f"nothing is in flight for the key)"), details
    if calls["n"] != 2 or res[0] != res[1] or res[0] != 72:
        return f"loop 2: results {shown}, {calls['n'] - 1} bodies started (expected one, shared by both callers)", details
    return None, details


def twin_functions_stage(kind: str):
    """Two decorated functions that use the same key template under different prefixes (`key="tw:{x}"`, prefix v1 / v2: two
    versions of one cached entity side by side): their cache keys differ, so by the property neither call may be served by the
    other's execution.  f1(7) is started and held inside its body; f2(7) and a second f1(7) are called meanwhile; then the
    body is released.  Expected: f2's body runs on its own while f1's is in flight, the second f1(7) joins the first, every
    caller receives the result of its own function, and what is stored under f2's key is f2's result.  Real code only (the
    Lean model has one function per key family; round 7, C07-19: a registry keyed by the template alone).
    Returns (problem text or None, details)."""
    from cashews import Cache

    async def go():
        cache = Cache()
        cache.setup("mem://")
        gate = asyncio.Event()
        started = {1: asyncio.Event(), 2: asyncio.Event()}
        runs = {1: 0, 2: 0}
        extra = {"early": {"early_ttl": 30}, "soft": {"soft_ttl": 30}}.get(kind, {})
        deco = getattr(cache, kind)

        @deco(ttl=60, key="tw:{x}", prefix="v1", **extra)
        async def f1(x):
            runs[1] += 1
            started[1].set()
            await gate.wait()
            return 100 + x

        @deco(ttl=60, key="tw:{x}", prefix="v2", **extra)
        async def f2(x):
            runs[2] += 1
            started[2].set()
            await gate.wait()
            return 200 + x

        t1 = asyncio.ensure_future(f1(7))
        await asyncio.wait_for(started[1].wait(), 64)
        t2 = asyncio.ensure_future(f2(7))
        t1b = asyncio.ensure_future(f1(7))
        for _ in range(40):
            await asyncio.sleep(0)
        own_body = started[2].is_set()
        gate.set()
        res = await asyncio.wait_for(asyncio.gather(t1, t2, t1b, return_exceptions=True), 64)
        again = await f2(7)
        await cache.close()
        return {"results_f1_f2_f1": [r if isinstance(r, int) else f"{type(r).__name__}: {str(r)[:80]}" for r in res],
                "bodies_run": [runs[1], runs[2]], "f2_body_started_while_f1_in_flight": own_body, "f2_again": again}

    obs = sfimpl._vrun(go)
    details = {"stage": "twin_functions", "kind": kind, **obs}
    if obs["results_f1_f2_f1"] != [107, 207, 107] or obs["bodies_run"][:1] != [1] or obs["bodies_run"][1] < 1 or obs["f2_again"] != 207 \
            or not obs["f2_body_started_while_f1_in_flight"]:
        return (f"f1(7), f2(7), f1(7) overlapping received {obs['results_f1_f2_f1']} (expected [107, 207, 107]), bodies run "
                f"[f1, f2] = {obs['bodies_run']}, f2's body started while f1's was in flight: {obs['f2_body_started_while_f1_in_flight']}, "
                f"a later f2(7) answered {obs['f2_again']}: a call was served by the execution of another function's key"), details
    return None, details


# ------------------------------------------------------------------------------------------------------------
# case sources

def corpus_cases():
    d = ROOT / "corpus" / PROP
    for f in sorted(d.glob("*.json")):
        c = json.loads(f.read_text())
        yield "corpus:" + f.name, c["case"]


def gen_case(rng, variant):
    m = rng.choice([2, 3, 3, 4, 4, 5])
    nk = rng.choice([1, 1, 2, 2, 3])
    timed = rng.random() < 0.4 and variant not in sfimpl.UNTIMED          # time passes during the run; ttl of 1 or 2 seconds
    ttl = rng.choice([8, 8, 16]) if timed else None
    # early with an early_ttl the run can reach: stored values go stale, stale hits start recalculations that outlive
    # their lock key (early_ttl) and the stored value (ttl)
    recalc = timed and sfimpl.EARLY[variant] and not sfimpl.GATED[variant] and rng.random() < 0.7
    if recalc:
        ttl = rng.choice([16, 24, 24])
    callers = []
    for i in range(1, m + 1):
        key = 0 if rng.random() < 0.5 else rng.randrange(nk)
        p = rng.random()
        kind = "r" if p < 0.52 else ("e" if p < 0.74 else ("k" if p < 0.88 else "v"))
        val = 10 + i if kind == "r" else (rng.randrange(sfexc.NSHAPES) if kind == "e" else
                                          rng.randrange(sfexc.NVALUES) if kind == "v" else rng.randrange(3))
        if kind == "v" and variant in sfimpl.STACKS:
            val = 1 + val % 2           # values every layer stores
        c = [i, key, rng.choice([1, 1, 2, 3, 0]) if timed else rng.randrange(4), kind, val]
        if recalc and i == 1 and rng.random() < 0.7:
            c[2], c[3], c[4] = 0, "r", 11          # the first call fills the cache at once
        if variant in sfimpl.TWO_PARAM:
            c.append(rng.randrange(3))
        callers.append(c)
    ents = [("c", c[0]) for c in callers] + [("x", c[0]) for c in callers]
    sched = []
    ncancel = 0
    for _ in range(rng.randrange(2, 4 + 3 * m)):
        p = rng.random()
        if recalc and rng.random() < 0.3:
            sched.append(["tick", rng.choice([1, 8, 9, 9, ttl - 8, ttl - 7, ttl])])
        elif timed and rng.random() < 0.25:
            sched.append(["tick", rng.choice([1, ttl - 1, ttl, ttl + 1, ttl + 1, 2 * ttl])])
        elif p < 0.55:
            sched.append(rng.randrange(6))
        elif p < 0.8:
            k = rng.choice([2, 2, 3, m])
            sched.append(["go", [list(e) for e in rng.sample(ents, min(k, len(ents)))]])
        elif ncancel < 2:
            ncancel += 1
            sched.append(["cancel", rng.randrange(1, m + 1)])
    case = {"variant": variant, "callers": callers, "schedule": sched}
    if not variant.startswith("bare") and rng.random() < 0.3:
        case["reuse"] = [rng.randrange(3), rng.randrange(2)]      # the decorator object also decorates other functions
    # (not on stack_finer: a get-disabled execution re-stores under ONE outer key, the two layers then hold different values)
    if not variant.startswith("bare") and variant != "stack_finer" and not recalc and rng.random() < 0.2:
        # one or two callers have single commands disabled in their context (1 get, 2 set, 3 both)
        case["ctl"] = {str(c_): rng.choice([1, 1, 2, 3]) for c_ in rng.sample(range(1, m + 1), rng.choice([1, 2]))}
    if m >= 3 and "ctl" not in case and rng.random() < 0.25:      # (a spawned task would inherit the disabled commands)
        # one or two callers are tasks spawned by the body of an earlier caller's script
        kids = rng.sample(range(2, m + 1), rng.choice([1, 1, 2]))
        case["spawned"] = {str(c_): rng.randrange(1, c_) for c_ in kids}
    if timed:
        case["ttl"] = ttl
    if recalc:
        case["early_ttl"] = 8
    return case


def timed_programs(thorough: bool):
    """(callers, variants, opts): programs enumerated with TIME STEPS as an extra branch at every scheduler step (opts:
    ttl in ticks, the sizes a time step can have, how many time steps a schedule may contain, cancellations)"""
    ALL = [v for v in sfimpl.VARIANTS if v not in sfimpl.UNTIMED]
    CACHED = [v for v in ALL if sfimpl.CACHING[v]]
    progs = []
    # an execution in flight for exactly ttl / ttl+1 ticks (thorough: 1, 2, ttl, ttl+1) when the second caller arrives,
    # at every point of every interleaving: it must be joined every time (the property has no ttl carve-out); every variant
    two = [[1, 0, 1, "r", 7, 0], [2, 0, 1, "e", 3, 1]]
    if thorough:
        NG = [v for v in ALL if not sfimpl.GATED[v]]
        # (the quick tier runs every variant on ages ttl / ttl+1; here two halves of the variants on richer time steps)
        progs.append((two, NG[0::2] + ["early_gated"], {"ttl": 8, "ticks": [8, 1], "tick_budget": 2, "cancel_budget": 0}))
        progs.append((two, NG[1::2] + ["cache_gated"], {"ttl": 8, "ticks": [8, 1], "tick_budget": 2, "cancel_budget": 0}))
        progs.append((two, NG[0::2], {"ttl": 8, "ticks": [9], "tick_budget": 1, "cancel_budget": 1}))
    else:
        progs.append((two, [v for v in ALL if not sfimpl.GATED[v]] + ["early_gated"],
                      {"ttl": 8, "ticks": [8, 9], "tick_budget": 1, "cancel_budget": 0}))
    # a stored result 1, 2, 7 (last valid tick), 8 (= ttl: gone) ticks old when the next call arrives
    exp = {"ttl": 8, "ticks": [7, 1], "tick_budget": 2, "cancel_budget": 0}
    if thorough:
        progs.append(([[1, 0, 0, "r", 7, 0], [2, 0, 1, "r", 8, 1], [3, 0, 0, "e", 4, 0]],
                      [v for v in CACHED if not sfimpl.GATED[v]][0::2] + ["cache_gated", "bare"], exp))
    else:
        progs.append(([[1, 0, 0, "r", 7, 0], [2, 0, 1, "r", 8, 1]], ["cache", "early", "soft", "cache_lock"], exp))
    # early with a reachable early_ttl (ttl 24, early_ttl 8 ticks): the first call stores a value; time steps of 9 ticks put
    # the following calls into the stale window (9), the stale window after the lock key of a running recalculation has
    # expired (18) and after the stored value has expired (27); the recalculation's body is suspended all the while.
    # background=True and background=False
    REC = [v for v in ALL if sfimpl.EARLY[v] and not sfimpl.GATED[v]]
    rec = {"ttl": 24, "early_ttl": 8, "ticks": [9], "tick_budget": 3, "cancel_budget": 0}
    progs.append(([[1, 0, 0, "r", 7, 0], [2, 0, 1, "r", 8, 1], [3, 0, 0, "e", 3, 0]], REC, rec))
    if thorough:
        progs.append(([[1, 0, 0, "r", 7, 0], [2, 0, 1, "e", 4, 1], [3, 0, 0, "r", 9, 0]], REC,
                      {"ttl": 24, "early_ttl": 8, "ticks": [9], "tick_budget": 3, "cancel_budget": 1}))
        progs.append(([[1, 0, 0, "r", 7, 0], [2, 0, 1, "r", 8, 1], [3, 0, 0, "e", 5, 0], [4, 0, 0, "r", 6, 1]],
                      ["early", "early_fg", "early_default2"],
                      {"ttl": 24, "early_ttl": 8, "ticks": [9, 18], "tick_budget": 2, "cancel_budget": 0}))
        progs.append(([[1, 0, 0, "r", 7, 0], [2, 0, 1, "k", 1, 1], [3, 0, 1, "r", 9, 0]], ["early", "early_fg_omit", "early_omit_obj"],
                      {"ttl": 16, "early_ttl": 8, "ticks": [8, 1], "tick_budget": 2, "cancel_budget": 0}))
    if thorough:
        two_s = {"ttl": 16, "ticks": [16, 17], "tick_budget": 1, "cancel_budget": 1}
        progs.append(([[1, 0, 2, "e", 5, 0], [2, 0, 0, "r", 8, 1], [3, 0, 1, "k", 1, 0]], ALL, two_s))
        progs.append(([[1, 0, 1, "r", 7, 0], [2, 1, 1, "e", 8, 0], [3, 0, 0, "r", 9, 1]],
                      ["bare", "cache", "soft_omit", "early_default2"],
                      {"ttl": 8, "ticks": [9], "tick_budget": 2, "cancel_budget": 0}))
        progs.append(([[1, 0, 1, "r", 7, 0], [2, 0, 0, "r", 8, 1], [3, 0, 1, "e", 6, 2], [4, 0, 0, "r", 9, 0]],
                      ["cache", "early_omit", "soft_gated", "cache_lock_omit"],
                      {"ttl": 8, "ticks": [9], "tick_budget": 1, "cancel_budget": 0}))
    return progs


def exception_programs(thorough: bool):
    """every exception shape delivered to a starter and joiners, in every interleaving x one cancellation"""
    ALL = [v for v in sfimpl.VARIANTS if not sfimpl.GATED[v]]
    progs = []
    rot = 0
    for shape in range(sfexc.NSHAPES):
        if shape < 3 and not thorough:
            continue
        nv = 4 if thorough else 2
        vs = [ALL[(rot + j * 5) % len(ALL)] for j in range(nv)]
        rot += 3
        progs.append(([[1, 0, 1, "e", shape, 0], [2, 0, 0, "r", 8, 1], [3, 0, 1, "e", (shape + 1) % sfexc.NSHAPES, 0]], vs))
    return progs


def sharing_programs(thorough: bool):
    """who shares an execution is decided by the rendered cache key and by nothing else: not by which function of several
    decorated with one decorator OBJECT is called, not by which task the caller is (a task spawned by an earlier body
    included), not by call arguments that are equal (same arguments, other template context) or compare equal (1 / True /
    1.0) when the key they render to differs"""
    ALL = sfimpl.VARIANTS
    FACADE = [v for v in ALL if not v.startswith("bare")]
    KEYED = [v for v in ALL if sfimpl.TWO_PARAM.get(v) in ("ctx", "typed")]
    PLAIN = [v for v in ALL if not sfimpl.GATED[v]]
    progs = []
    cb = 1 if thorough else 0
    # the decorator object also decorates one function before and one after the function under test; every facade variant
    progs.append(([[1, 0, 1, "r", 7, 0], [2, 0, 1, "e", 3, 0]], FACADE, {"reuse": [1, 1], "cancel_budget": cb}))
    if thorough:
        progs.append(([[1, 0, 0, "r", 7, 0], [2, 0, 1, "e", 5, 1], [3, 0, 1, "r", 9, 0]], FACADE,
                      {"reuse": [2, 0], "cancel_budget": 0}))
    # caller 3 is a task spawned by the body of script 1 (which raises: nothing is stored); it calls while execution 2 of
    # the same key is in flight - at every point of every interleaving
    kids = [[1, 0, 0, "e", 4, 0], [2, 0, 1, "r", 8, 0], [3, 0, 0, "r", 9, 0]]
    progs.append((kids, PLAIN if not thorough else PLAIN[0::2], {"spawned": {"3": 1}, "cancel_budget": cb}))
    if thorough:
        progs.append(([[1, 0, 1, "r", 7, 0], [2, 0, 1, "r", 8, 0], [3, 0, 0, "e", 6, 0], [4, 1, 0, "r", 5, 0]],
                      ["bare", "bare_default", "cache", "early", "soft", "cache_lock"],
                      {"spawned": {"3": 1, "4": 2}, "cancel_budget": 0}))
    # same call arguments under another template context / arguments that compare equal but render differently: other
    # key, other execution; the same (k, context / type): one execution
    progs.append(([[1, 1, 1, "r", 7, 0], [2, 1, 1, "e", 1, 1], [3, 1, 0, "r", 9, 0]], KEYED, {"cancel_budget": cb}))
    # callers whose CONTEXT has single commands disabled (get / set / both - not the full disable) overlap with ordinary
    # callers of the key: they join, and are joined, like anybody else; every facade variant
    NG_FACADE = [v for v in FACADE if not sfimpl.GATED[v] and v != "stack_finer"]
    three = [[1, 0, 1, "r", 7, 0], [2, 0, 1, "e", 3, 0], [3, 0, 0, "r", 9, 0]]
    progs.append((three, NG_FACADE, {"ctl": {"2": 1, "3": 2}, "cancel_budget": 0}))
    progs.append((three, NG_FACADE[0::3] if not thorough else NG_FACADE[0::2], {"ctl": {"1": 3, "3": 1}, "cancel_budget": cb}))
    # STACKS of two protected decorators with key templates of different granularity: callers that agree on k and differ in
    # the parameter only one of the layers has in its key share one body and one result, at every point of every interleaving
    progs.append(([[1, 0, 1, "r", 7, 0], [2, 0, 1, "e", 3, 1], [3, 0, 0, "r", 9, 2]], list(sfimpl.STACKS), {"cancel_budget": cb}))
    # a body that RETURNS an error-like object (Exception instance, BaseException instance, wrapper): a value for every waiter
    NS = [v for v in PLAIN if v not in sfimpl.STACKS]
    for shape in range(sfexc.NVALUES):
        vs = [NS[(shape * 7 + t * 3) % len(NS)] for t in range(6 if thorough else 3)] + (["soft", "bare"] if shape == 0 else [])
        progs.append(([[1, 0, 1, "v", shape, 0], [2, 0, 0, "r", 8, 0], [3, 0, 1, "r", 9, 0]], vs, {"cancel_budget": cb}))
    if thorough:
        progs.append(([[1, 1, 1, "r", 7, 0], [2, 1, 0, "r", 8, 2], [3, 1, 1, "e", 2, 1], [4, 1, 0, "r", 9, 2]],
                      ["bare_ctx", "cache_typed", "early_ctx", "cache_lock_typed"], {"cancel_budget": 0}))
    return progs


def programs(thorough: bool):
    """(callers, variants) for the exhaustive part: every interleaving x every (caller, point) of one cancellation"""
    V = sfimpl.OLD_VARIANTS
    ALL = sfimpl.VARIANTS
    TWO = list(sfimpl.TWO_PARAM)
    progs = []
    outs = [("r", 7), ("e", 3)]
    if not thorough:
        # the body ENDS CANCELLED (three ways), a second caller of the same key arrives at every possible moment -
        # while it runs (shares the CancelledError) or after it is over (must start a new execution); every variant once
        combos = list(itertools.product([0, 1], range(sfimpl.CANCEL_MODES)))
        per = -(-len(ALL) // len(combos))
        for j, (n, mode) in enumerate(combos):
            vs = [ALL[(j * per + t) % len(ALL)] for t in range(per)]
            two = [[1, 0, n, "k", mode, 1], [2, 0, 1, "r", 8, 2]]
            progs.append((two, vs))
        progs.append(([[1, 0, 1, "k", 1], [2, 0, 0, "e", 2], [3, 0, 1, "r", 9]], ["bare", "soft", "cache_lock"]))
        # calls that agree on the key but differ in the argument the key template leaves out (omit) / calls that differ in
        # an argument that IS in the (default) key (all)
        progs.append(([[1, 0, 1, "r", 7, 0], [2, 0, 1, "e", 1, 1]], TWO))
        progs.append(([[1, 0, 1, "r", 7, 0], [2, 0, 0, "k", 1, 1], [3, 0, 1, "r", 9, 0]],
                      ["bare_omit", "cache_omit_obj", "cache_default2"]))
        i = 0
        for n, (kind, val) in itertools.product([0, 1, 2], outs):
            progs.append(([[1, 0, n, kind, val], [2, 0, 1, "r", 8]], [V[i % len(V)], V[(i + 3) % len(V)]]))
            i += 1
        progs.append(([[1, 0, 1, "r", 7], [2, 0, 0, "e", 2], [3, 1, 1, "r", 9]], ["bare", "cache", "soft"]))
        progs.append(([[1, 0, 2, "e", 0], [2, 0, 0, "r", 8], [3, 0, 1, "r", 9]], ["bare_default", "early", "cache_lock"]))
        progs.append(([[1, 0, 1, "r", 7], [2, 0, 0, "r", 8], [3, 0, 1, "e", 1], [4, 0, 0, "r", 9]], ["bare", "cache_default"]))
        return progs
    plain = [v for v in V if not sfimpl.GATED[v]]
    gated = [v for v in V if sfimpl.GATED[v]]
    rot = 0

    def same_key(m, n, kind, val, nmax):
        # all on one key: whoever is released first runs its own script, so the scripts differ per caller
        return [[i, 0, (n if i == 1 else (n + i) % (nmax + 1)), (kind if i % 2 else "r"), (val if i % 2 else 10 + i)]
                for i in range(1, m + 1)]

    def split(m, n):
        # the last caller on another key: two executions in flight at once
        return [[i, 0 if i < m else 1, n, "r" if i != 2 else "e", 10 + i if i != 2 else 1] for i in range(1, m + 1)]

    for m in (2, 3, 4):
        nmax = {2: 3, 3: 3, 4: 1}[m]
        for n, (kind, val) in itertools.product(range(nmax + 1), outs):
            cs = same_key(m, n, kind, val, nmax)
            if m < 4:
                progs.append((cs, plain))
            else:           # 4 callers: the bare decorator plus three of the other variants in rotation
                progs.append((cs, ["bare"] + [plain[1 + (rot + j) % (len(plain) - 1)] for j in range(3)]))
                rot += 3
        for n in range({2: 3, 3: 2, 4: 1}[m] + 1):
            progs.append((split(m, n), plain if m < 4 else (["bare", "early"] if n else ["cache", "soft"])))
    # gated backends add two suspension points to every execution that runs the body, so the bodies are shorter
    for m in (2, 3):
        for n, (kind, val) in itertools.product(range(2), outs):
            progs.append((same_key(m, n, kind, val, 1), gated))
        progs.append((split(m, 0), gated))
    for j, (kind, val) in enumerate(outs):
        progs.append((same_key(4, 0, kind, val, 0), [gated[j % len(gated)]]))
    # --- the body ends cancelled; arguments outside / inside the key ---------------------------------------------
    plain_all = [v for v in ALL if not sfimpl.GATED[v]]
    gated_all = [v for v in ALL if sfimpl.GATED[v]]
    for n, mode in itertools.product(range(3), range(sfimpl.CANCEL_MODES)):
        j9 = n * sfimpl.CANCEL_MODES + mode
        progs.append(([[1, 0, n, "k", mode, 1], [2, 0, (n + 1) % 3, "r", 8, 2]],
                      [plain_all[(j9 * 4 + t) % len(plain_all)] for t in range(14)]))
        if n < 2:
            progs.append(([[1, 0, n, "k", mode, 1], [2, 0, n, "e", 2, 2]], gated_all))
    for j, (n, mode) in enumerate(itertools.product(range(2), range(sfimpl.CANCEL_MODES))):
        # seven of the plain variants per program, in rotation
        vs10 = [plain_all[(j * 5 + t) % len(plain_all)] for t in range(7)]
        progs.append(([[1, 0, n, "k", mode, 0], [2, 0, 1, "r", 8, 1], [3, 0, 0, "k", (mode + 1) % 3, 0]], vs10))
    progs.append(([[1, 0, 1, "k", 1, 0], [2, 0, 0, "r", 8, 1], [3, 1, 1, "k", 2, 0], [4, 0, 1, "e", 1, 2]],
                  ["bare", "cache", "early_omit", "soft_omit"]))
    plain_two = [v for v in TWO if not sfimpl.GATED[v]]
    for m in (2, 3):
        for n, (kind, val) in itertools.product(range(3 if m == 2 else 2), outs + [("k", 1)]):
            cs = [[i, 0, (n if i == 1 else (n + i) % 3), (kind if i % 2 else "r"), (val if i % 2 else 10 + i), (i - 1) % 2]
                  for i in range(1, m + 1)]
            # nine of the two-parameter / context / typed variants per program, in rotation
            jt = len(progs)
            progs.append((cs, [plain_two[(jt * 4 + t) % len(plain_two)] for t in range(9)]))
    progs.append(([[1, 0, 1, "r", 7, 0], [2, 0, 0, "e", 1, 1]], [v for v in TWO if sfimpl.GATED[v]]))
    progs.append(([[1, 0, 1, "r", 7, 0], [2, 0, 1, "e", 1, 1], [3, 1, 0, "r", 9, 0], [4, 0, 0, "k", 0, 2]],
                  ["bare_omit", "cache_omit", "cache_default2", "early_omit_obj"]))
    return progs


# ------------------------------------------------------------------------------------------------------------

def run(chk: Check) -> int:
    proof = proof_stage(PROP, "driver_c07", chk.thorough) if not getattr(chk, "skip_proof", False) else None
    found = 0
    evaluations = 0
    distinct = set()
    interesting = {}
    variants_hist = {}
    step_hist = {"call": 0, "bodyStep": 0, "cancel": 0, "burst": 0, "tick": 0}
    samples = []
    exhaustive_info = []
    max_conc = 0

    pending = []        # (origin, case, run, viol, stats)
    model_diffs = []
    ndiffs = [0]

    def flush():
        nonlocal found, evaluations, max_conc
        if not pending:
            return
        answers = ask_model([(c, r) for _, c, r, _, _ in pending])
        for (origin, case, r, viol, stats), ans in zip(pending, answers):
            evaluations += 1
            variants_hist[case["variant"]] = variants_hist.get(case["variant"], 0) + 1
            for k, a in r.eff:
                if k == "cancel":
                    step_hist["cancel"] += 1
                elif k == "tick":
                    step_hist["tick"] += 1
                else:
                    if len(a) > 1:
                        step_hist["burst"] += 1
                    for e in a:
                        step_hist["call" if tuple(e)[0] == "c" else "bodyStep"] += 1
            for k in stats:
                interesting[k] = interesting.get(k, 0) + 1
            max_conc = max([max_conc] + list(r.maxrun.values()))
            nontrivial = any(k in stats for k in ("join", "late_join", "join_after_body_before_store", "cancel_one_of_several_waiters", "cancel_last_waiter",
                                                  "cancel_creator", "orphan_execution_finished", "exception_fanout",
                                                  "execution_ended_cancelled", "join_differs_in_argument_outside_key",
                                                  "join_execution_exactly_ttl_old", "join_execution_older_than_ttl",
                                                  "call_after_stored_value_expired", "recalculation_started",
                                                  "cold_miss_joins_recalculation", "stale_hit_while_recalculating",
                                                  "spawned_task_joins_a_later_execution_of_its_parents_key"))
            if nontrivial:
                distinct.add(json.dumps([case["variant"], case["callers"], r.eff], sort_keys=True, default=list))
            if len(samples) < 4 and nontrivial and "cancel_one_of_several_waiters" in stats and len(r.eff) <= 8 \
                    and all(s["variant"] != case["variant"] for s in samples):
                samples.append({"variant": case["variant"], "callers": case["callers"],
                                "trace": trace_table(case, r, ans), "final": r.final})
            diff = compare(case, r, ans)
            if case.get("ctl"):
                # per-caller disabled commands: judged by the property oracle only (the model's call has no control state)
                diff = (None, "")
            if viol:
                if found < 3:
                    # determinism: the same case must give the same run before it is reported
                    r2, _, _ = judge(explicit(case, r))
                    if r2.final != r.final:
                        raise HarnessError("C07 case is not a pure function of (case, tree): " + json.dumps(explicit(case, r)))
                    report(chk, case, r, viol, origin, ans, diff)
                found += 1
            elif diff[0] is not None:
                # implementation differs from the model but the property holds on this case: keep searching for an
                # input on which the property itself fails; reported at the end only if none turns up
                if not model_diffs:
                    model_diffs.append((origin, case, r, ans, diff))
                ndiffs[0] += 1
        pending.clear()

    def feed(origin, case, cancel_budget=0, tick_budget=0, tick_sizes=()):
        r, viol, stats = judge(case, cancel_budget, tick_budget, tick_sizes)
        pending.append((origin, case, r, viol, stats))
        if len(pending) >= 400:
            flush()
        return r

    # 0. two event loops one after the other: the registry entry of a loop that is gone
    dead_loop = {}
    dead_reported = 0
    for v in DEAD_LOOP_VARIANTS:
        problem, details = dead_loop_stage(v)
        dead_loop[v] = "ok" if problem is None else problem
        evaluations += 1
        if problem is not None and dead_reported < 1:
            # reported once, and not counted against the search below: the schedules are still explored
            chk.violation(f"single-flight violated ({v}, two event loops one after the other): {problem}",
                          {**details, "replay_cmd": "./check C07 --replay <this file>"}, signature=D70)
            dead_reported += 1

    # 0b. two functions sharing a key template under different prefixes: different keys, no shared execution
    twins = {}
    for kind in ("cache", "early", "soft"):
        problem, details = twin_functions_stage(kind)
        twins[kind] = "ok" if problem is None else problem
        evaluations += 1
        if problem is not None and "twin" not in dead_loop:
            dead_loop["twin"] = "reported"
            chk.violation(f"single-flight violated (@{kind}, two functions with one key template and different prefixes): {problem}",
                          {**details, "replay_cmd": "./check C07 --replay <this file>"}, signature="C07:flight-registry-keyed-by-template")
    dead_loop.pop("twin", None)

    # 1. corpus
    ncorpus = 0
    for origin, case in corpus_cases():
        ncorpus += 1
        feed(origin, case)
    flush()

    # 2. exhaustive: all interleavings x one cancellation anywhere, small programs, every variant
    per_prog_limit = chk.budget(3000, 40000)
    variants = sfimpl.VARIANTS
    progs = (sharing_programs(chk.thorough) + timed_programs(chk.thorough) + exception_programs(chk.thorough)
             + programs(chk.thorough))
    big_rot = 0
    for pi, prog in enumerate(progs):
        callers, vs = prog[0], prog[1]
        opts = prog[2] if len(prog) > 2 else {}
        vs = list(vs)
        vi = 0
        while vi < len(vs):
            v = vs[vi]
            vi += 1
            if found >= 3:
                break
            last = {}

            def run_once(prefix, v=v, callers=callers, opts=opts):
                case = {"variant": v, "callers": callers if v in sfimpl.TWO_PARAM else [c[:5] for c in callers],
                        "schedule": list(prefix)}
                for f in ("ttl", "early_ttl", "reuse", "spawned", "ctl"):
                    if f in opts:
                        case[f] = opts[f]
                last["r"] = feed(f"enum:{v}:{pi}", case, cancel_budget=opts.get("cancel_budget", 1),
                                 tick_budget=opts.get("tick_budget", 0), tick_sizes=opts.get("ticks", ()))
                return last["r"].branching

            count = 0
            for _ in enumerate_schedules(run_once, limit=per_prog_limit):
                count += 1
            exhaustive_info.append({"variant": v, "callers": callers, "schedules": count, "complete": count < per_prog_limit,
                                    **({"time": opts} if opts else {})})
            if vi == 1 and count > BIG and len(vs) > 2:
                # a large schedule space: the first variant plus one of the others (in rotation) instead of all of them
                vs = [vs[0], vs[1 + big_rot % (len(vs) - 1)]]
                big_rot += 1
    flush()

    # 3. random schedules with bursts and up to two cancellations
    n = chk.budget(3000, 6000)
    for i in range(n):
        if found >= 3:
            break
        feed(f"gen:{i}", gen_case(chk.rng, variants[i % len(variants)]))
    flush()

    if model_diffs and found == 0:
        origin, case, r, ans, diff = model_diffs[0]
        r2, _, _ = judge(explicit(case, r))
        if r2.final != r.final:
            raise HarnessError("C07 case is not a pure function of (case, tree): " + json.dumps(explicit(case, r)))
        report(chk, case, r, [], origin, ans, diff)
    if proof is not None:
        chk.proof_broken(proof, found > 0)
    complete = [e for e in exhaustive_info if e["complete"]]
    chk.coverage.update({
        "evaluations": evaluations,
        "distinct_nontrivial": len(distinct),
        "rule": "a case = (variant, callers with key/suspension points/outcome, schedule); evaluated = run on the real code under "
                "the gate scheduler + replayed on the Lean driver + judged by the property oracle. Non-trivial iff the run reached "
                "at least one of: a call joining an execution in flight (join / late_join), a cancellation of a waiting caller "
                "(one of several waiters, last waiter, creator), an execution finishing with every waiter cancelled, an exception "
                "delivered to >= 2 callers, an execution that ended cancelled, a call joining an execution started with a different "
                "value of an argument outside the key, a call joining an execution that has been in flight for exactly / for more "
                "than the ttl, a call arriving after the stored result expired, a stale hit that starts a recalculation, a stale "
                "hit or a cold miss while a recalculation of the key is running; distinct = distinct (variant, callers, "
                "effective trace)",
        "samples": samples,
        "exhaustive": bool(complete),
        "exhaustive_subspaces": {
            "what": "for each listed (variant, callers): every interleaving of caller starts and body suspension points, combined "
                    "with no cancellation or one cancellation of any caller at any scheduler step (enumerate_schedules over "
                    "choice points, cancellation as an extra branch); entries with 'time': additionally up to tick_budget time "
                    "steps of the listed sizes at any scheduler step (ttl in ticks), cancellations as per cancel_budget",
            "programs_completely_enumerated": len(complete),
            "programs_cut_by_limit": len(exhaustive_info) - len(complete),
            "schedules": sum(e["schedules"] for e in exhaustive_info),
            "max_callers": max([len(e["callers"]) for e in complete], default=0),
            "detail": exhaustive_info if len(exhaustive_info) <= 40 else exhaustive_info[:40],
        },
        "corpus_cases": ncorpus,
        "dead_loop_stage": dead_loop,
        "twin_functions_stage": twins,
        "variant_histogram": variants_hist,
        "step_histogram": step_hist,
        "interesting_states_cases": interesting,
        "max_concurrent_bodies_per_key_observed": max_conc,
        "cases_differing_from_model": ndiffs[0],
        "cases_violating_property": found,
        "trusted_base": TRUSTED,
        "partial": "asyncio itself is not modelled (A1, A2 are assumptions exercised, not proved); cancellation is delivered at "
                   "scheduler granularity (between event-loop quiescent points), not inside the few loop iterations between a task's "
                   "completion and its done-callbacks; more than 5 callers / 3 keys / 3 suspension points and the redis backend "
                   "are not sampled; time passes only in explicit steps between quiescent points (ttl 1-2 s, steps of 1 tick .. "
                   "2 x ttl), bodies do not sleep by themselves; `soft` with a reachable soft_ttl (its re-run of a soft-expired "
                   "value inside the protected execution, falling back to the stored value when the body raises) and the gated "
                   "backend variants of `early` with a reachable early_ttl are not exercised; the functions that share a reused decorator "
                   "object with the function under test are never called (their registries are separate and not modelled); "
                   "spawned callers are created at the start of a body, one level deep; a body that calls its own function with "
                   "its own key (self-join, never returns) and a fully disabled cache (no single-flight by design) are outside "
                   "the property and not exercised; in cases where `early` recalculates a burst never releases bodies and callers together "
                   "(how an execution's first step interleaves with the done-callbacks of a recalculation that ends in the same "
                   "loop iteration is below the model's granularity; at quiescent points model and code agree); the lock key is a per-process observation here (one process, one backend: cross-process "
                   "recalculations are not single-flight's business); returned values are small ints (no results "
                   "with non-trivial copy / identity behaviour); an execution task cancelled from OUTSIDE "
                   "(somebody holding the task object calls .cancel()) is not scripted - only bodies that end cancelled by "
                   "themselves; key templates are limited to 'leaves one parameter out' / 'default: all parameters' of a "
                   "two-parameter function (key rendering in general is C08)",
    })
    chk.assumptions.extend(TRUSTED)
    return chk.finish(proof)


def replay(chk: Check, path: str) -> int:
    c = json.loads(Path(path).read_text())
    if c.get("stage") == "dead_loop":
        problem, details = dead_loop_stage(c["variant"])
        print(json.dumps(details, indent=1))
        if problem is None:
            print("replay: no disagreement")
            return 0
        print("property:", problem)
        print(f"VIOLATION property={PROP} replay={path}")
        return 1
    if c.get("stage") == "twin_functions":
        problem, details = twin_functions_stage(c["kind"])
        print(json.dumps(details, indent=1))
        if problem is None:
            print("replay: no disagreement")
            return 0
        print("property:", problem)
        print(f"VIOLATION property={PROP} replay={path}")
        return 1
    case = c["case"]
    r, viol, _ = judge(case)
    ans = ask_model([(case, r)])[0]
    for row in trace_table(case, r, ans):
        print(f"{row['step']:44s} impl={row['impl']:28s} {row['model']}")
    print("final:", r.final, "max concurrent bodies:", r.maxrun)
    diff = compare(case, r, ans)
    for _, t in viol:
        print("property:", t)
    if diff[0] is not None:
        print(f"model: differs at step {diff[0]}: {diff[1]}")
    if not viol and diff[0] is None:
        print("replay: no disagreement")
        return 0
    print(f"VIOLATION property={PROP} replay={path}")
    return 1
