"""C17 - keys are routed by longest prefix; disabling truly bypasses the cache.

proof: lean/CashewsVerif/Props/C17.lean (first match in the reverse-sorted prefixes = longest matching prefix for all
       prefix sets and keys; multi-key split and positional re-assembly; disabled => nothing issued, default shape,
       never raises; decorators bypass; transaction wrapper delegates; context locality of the control state).
tie:   scenarios (prefix table + control operations in real asyncio tasks + public commands, also inside
       cache.transaction()) run on the real `Cache` facade with recording backends and on the model driver;
       compared step by step:  impl == model  (issued backend commands, answer as a function of the backend
       answers, is_disable / is_full_disable views of every task)  and  impl == spec oracle  (the property itself,
       evaluated in Python on the implementation's own observations: longest prefix by max(len), no command issued
       for a backend that reports the command disabled, default shapes, caller order, views of tasks that did not
       act are unchanged, bodies executed on every call while fully disabled).
       Decorated functions are also called CONCURRENTLY (2-4 overlapping calls, equal and different arguments, bodies
       parked on gates and released in a scripted order, control operations in between): while the caller sees the
       cache fully disabled every call must start its own execution at once, issue nothing and be handed its own
       execution's result (results identify the execution); @cache with and without `protected` is compared event
       by event with the overlapping-calls model (cstart/cfinish/cdrain of Model/Disable.lean).
       The routing table is a STATE component: histories interleave commands with cache.setup() of new prefixes and
       of prefixes registered already (backend replaced; enabled / configured as disabled in four spellings; initialised
       or not; by any task), and every command is judged by the registrations made before it.  Every command x disabled
       state is also run inside invalidate_further() and on never-initialised backends, and the trace records EVERYTHING
       a backend object is asked to do (commands, the deletions invalidate_further() turns reads into, init()): a
       disabled command must cause none of it (model: the default middleware stack, disable check outermost).
       COMPOSITE commands - public methods that issue further backend commands behind the caller's back: set/incr with
       tags= (-> set_add on `_tag:<tag>`, possibly a dedicated tags backend), delete_tags (-> set_pop, delete_many),
       get_or_set, `async with cache.lock()` (-> set_lock, the liveness probe = PING routed by the LOCK KEY, unlock), @cache.invalidate (-> delete_match), decorators
       with tags=, and the facade's on-remove callback (-> set_remove on the tags backend while a backend deletes keys) - are
       run under every single disabled command / disabled prefix (incl. `_tag:` only) / full disable; EVERY command observed
       on the recording backends must be enabled for the backend that receives it and routed by longest prefix
       (issued_oracle), and the whole sequence is compared with the model (Model/DisableCompose.lean: composites as programs
       over routed sub-commands; theorem composite_calls_enabled_and_routed).
"""
from __future__ import annotations

import itertools
import json
from pathlib import Path

from .. import routectl as rc
from ..core import ROOT, Check, Driver, HarnessError, ddmin, proof_stage

PROP = "C17"
DRIVER = Driver("driver_c17", "Drivers/C17.lean")

TRUSTED = [
    "Lean 4.33.0 kernel; axioms of every theorem audited to be within {propext, Classical.choice, Quot.sound}",
    "hand-written models lean/CashewsVerif/Model/Route.lean (wrapper.py _get_backend/_add_backend, commands.py grouping and "
    "re-assembly) and Model/Disable.lean (ControlMixin, _is_disable_middleware, TransactionBackend delegation, "
    "DecoratorsWrapper bypass, overlapping calls with thunder_protection joins; the default middleware stack "
    "[auto_init, invalidate, callbacks, disable] wrapped last-outermost; histories of setup()/init()/control/commands with the "
    "table, the per-context invalidate_further() flag and the set of initialised backends as state), tied to the code by this "
    "run's scenario correspondence",
    "Python str modelled as its list of code points with CPython's code-point lexicographic order; sorted() modelled as "
    "*any* strictly descending arrangement (theorem first_match_is_longest is stated for every such list)",
    "asyncio assumption A3 (DESIGN section 3): a task runs in a copy of its creator's context - modelled by `fork`, "
    "exercised here on the real event loop with real tasks",
    "harness: recording subclasses of Memory / TransactionBackend / LockTransactionBackend (harness/routectl.py; every "
    "Command method and init()), call-depth bookkeeping, canonicalisation, the harness' own bookkeeping of which task is inside "
    "invalidate_further() (a ContextVar: inherited by child tasks, reset by leaving any block); for overlapping decorated calls: bodies parked on asyncio.Event gates, "
    "attribution of executions and backend commands to calls through a ContextVar inherited by the tasks cashews creates",
    "backend answers are symbolic in the model (the facade's answer is compared as a function of the recorded backend "
    "answers); positional answers of a backend's own get_many are C01's theorem get_many_positional",
    "composite commands: hand-written model lean/CashewsVerif/Model/DisableCompose.lean (tags.py set/incr/delete_tags/_on_remove_callback, "
    "commands.py get_or_set, backends/interface.py lock, validation.py invalidate as programs over the facade's public commands); the "
    "environment of a composite (the backends' answers abstracted to None / default / falsy / truthy / popped members / raised, and "
    "which keys a backend reports to its on-remove callbacks: recording override of Backend._call_on_remove_callbacks) is read off "
    "the real run and handed to the model; which tags a removed key carries is asked from cashews' own registry "
    "(cache.get_key_tags: C12's business); a `set_remove` received while a backend runs another command is attributed to the "
    "facade's on-remove callback; a PING with message LOCK that a backend object receives right after it refused the same caller's "
    "set_lock is attributed to lock()'s liveness probe and judged (routing, disabled state, model comparison) by the LOCK KEY "
    "(harness/routectl.py _entry); a plain cache.ping(msg) is judged by its message text",
]

PARTIAL = ("the composite commands (set/incr with tags, delete_tags, get_or_set, lock, @invalidate, on-remove callback) are modelled "
           "and compared call by call; the decorators other than @cache (incl. those with tags=) are "
           "checked against the property oracle only, not against a Lean model (overlapping calls: @cache with and without "
           "`protected` are modelled, lock=True / early / soft / hit / ... are judged by the oracle while fully disabled or "
           "with every read command disabled); while the cache is NOT fully disabled `protected=True` joins overlapping "
           "equal-key calls whatever commands are disabled (single-flight by design: mirrored by the model, not judged); "
           "bodies overlap at one scripted suspension point per execution (interleavings inside cashews' own awaits are "
           "those of the real event loop, not enumerated); enable_by_default is a parameter of the model: locality is "
           "proved for backends that are enabled by default or whose control state was touched before and proved to FAIL otherwise "
           "(default_disabled_state_leaks); cashews never assigns it (reachable_history_ok) and the correspondence (tasks x backends "
           "configured as disabled) notices an implementation that starts to; what OTHER tasks see of a backend object created by "
           "setup(disable=True) in one task (enabled: the state lives in that task's context) is mirrored by the model, not judged; "
           "middlewares handed to setup(middlewares=...) wrap the default stack from outside and are neither modelled nor exercised; "
           "the callbacks middleware is modelled as transparent (no callbacks registered in the scenarios); decorated functions "
           "inside invalidate_further() are judged by the oracle only; setup() while a transaction is open is not generated; "
           "pattern commands are routed by the pattern's own prefix (mirrored, "
           "not judged); transaction semantics proper are C03/C04; more than 4 tasks / 6 registered prefixes are not sampled; "
           "composites: the on-remove callback resolves the backend of '_tag:<tag>' on every call by the tag key's longest prefix "
           "(D48; registrations of '_tag:' and of prefixes reaching into the tag part are part of the histories); "
           "what the callback does "
           "inside a transaction is not exercised (tag registries and transactions are not combined); lock()'s liveness probe is recognised "
           "as 'a PING with message LOCK right after a refused set_lock of the same caller' and judged by the lock key (D43); cache.lock is run with "
           "wait=False and with wait=True/check_interval=1 against a lock that expires (the CacheBackendInteractionError branch of "
           "lock() needs a failing backend: C19); delete_tags' loop is exercised up to its second round (100 / 101 members); "
           "the callback asks the tags backend's own control state before talking to it (defect D41, repaired as e3dff8d); "
           "a transaction's COMMIT under a disable made after its writes were accepted (set inside the block, cache.disable() before "
           "the block ends: the transaction wrapper issues set_many / delete_many / set_lock / unlock directly) is observed, not judged - "
           "only 'fully disabled during the whole transaction => the commit touches nothing' is (deferred writes are C03/C04's business); "
           "user middlewares (setup(middlewares=...)), incl. the shipped helpers add_prefix / all_keys_lower that drop default= of "
           "get_many, are outside the model and not exercised")

P_QUICK = ["", "a", "b", "ab", "a:", "ab:c", "ba", ":"]
P_THORO = P_QUICK + ["aa", "ab:", "A", "é", "b:"]
EXTRA_KEYS = ["abc", "ab:cd", "a:b", "abab", "c", "bab", "::", "a*", "ab*", "*", "aé", "Ab", "_tag:t", "PING"]


# ---- the property, evaluated directly ------------------------------------------------------------------

def longest(regs, key):
    """backend id registered under the longest prefix of `key` (None = not configured) - by max(len), no sorting"""
    table = {}
    for r in regs:
        table[r[0]] = r[1]
    ms = [p for p in table if key.startswith(p)]
    return table[max(ms, key=len)] if ms else None


def nested_depth(regs, key):
    return len({r[0] for r in regs if key.startswith(r[0])})


def regs_before(sc):
    """for every step: the registrations [prefix, backend] made before it (initial ones + earlier setup ops)"""
    cur = [[r[0], r[1]] for r in sc["regs"]]
    out = []
    for op in sc["ops"]:
        out.append(list(cur))
        if op[0] == "setup":
            cur.append([op[2], op[3]])
    out.append(list(cur))
    return out


def reg_opts(reg):
    return (reg[2] if len(reg) > 2 else None) or {}


RETRIEVE_DEL = {"get": "delete", "incr": "delete", "get_many": "delete_many", "get_match": "delete_match"}
WRITING = {"set", "set_many", "delete", "delete_many", "delete_match", "clear", "set_raw", "incr", "expire", "incr_bits",
           "set_lock", "unlock", "slice_incr", "set_add", "set_remove", "set_pop"}
D22F = "D22f:disabled-pattern-read-runs-inner-middlewares"
# inside invalidate_further() an enabled retrieve command is replaced by one of these deletions
REPLACERS = {"delete": ["get", "incr"], "delete_many": ["get_many"], "delete_match": ["get_match"]}
# Found by this check (composite commands), repaired in /repo as e3dff8d (design id D41; `fixed` entry in known_findings.json,
# which suppresses nothing): the on-remove callback of cashews/wrapper/tags.py handed `set_remove` to the tags backend directly,
# without asking whether SET_REMOVE (or the whole tags backend / prefix `_tag:`) is disabled for the caller.
D38 = "D41:remove-callback-ignores-disabled-tags-backend"
# Found by the C06 check, repaired in /repo together with this model (design id D43): lock()'s liveness probe ping(b"LOCK") was
# routed on the facade by the TEXT "LOCK" (default-prefix backend) instead of by the lock key; since the fix the probe is
# `_lock_probe(key)` = PING with message LOCK routed and disable-checked by the lock key's backend.
D43 = "D43:lock-probe-routed-by-message-text"
# Found by the independent engineers (round 4), repaired together with this model:
# D46 - `_invalidate_middleware` (validation.py) handed the replacing deletion to the backend directly, also while DELETE /
#       DELETE_MANY / DELETE_MATCH was disabled for it: set("a",1); disable(Command.DELETE); with invalidate_further(): get("a")
#       deleted the key.  Repaired: the middleware asks backend.is_disable(<the deleting command>) first; the read is answered
#       as a miss either way.
# D48 - `CommandsTagsWrapper._get_tags_backend` was lru_cache(maxsize=1): after a later setup() / setup_tags_backend() the
#       on-remove bookkeeping kept talking to the OLD backend.  Repaired: the callback resolves the backend of `_tag:<tag>`
#       on every call, by the tag key's own longest prefix (as the tagged writes do).
D46 = "D46:invalidate-further-ignores-disabled-delete"
D48 = "D48:tags-backend-memo-survives-registration"
# no finding is ever registered from here: known findings live in /verif/known_findings.json only (chk.violation matches them)
LOCAL_KNOWN: dict[str, str] = {}
KNOWN_SEEN: dict[str, int] = {}
# "Decorated functions are executed on every call while a command is disabled": the commands whose ANSWER a strategy needs before
# it may hand out a stored result instead of running the function.  A disabled command answers the default / None through the
# disable middleware, i.e. "unknown": the strategy must then run the function - on every call, also when a result was stored
# earlier (while everything was enabled).  None = the decorator runs the function on every call anyway (limiters, locks, ...).
SERVE_GATES = {
    "cache": ["get"], "cache_lock": ["get"], "cache_upper": ["get"], "early": ["get"], "soft": ["get"], "iterator": ["get"],
    "hit": ["get", "incr"], "dynamic": ["get", "incr"],          # the stored result AND the hit counter that limits its use
    "bloom": ["get_bits"], "dual_bloom": ["get_bits"],          # the filter bits
    "failover": None, "rate_limit": None, "slice_rate_limit": None, "circuit_breaker": None, "locked": None, "invalidate": None,
    "cache_tags": ["get"], "early_tags": ["get"], "soft_tags": ["get"], "hit_tags": ["get", "incr"], "dynamic_tags": ["get", "incr"],
}


# ---- scenario -> driver lines -----------------------------------------------------------------------------

def valid(sc) -> bool:
    """structural sanity of an op list (used while shrinking)"""
    live = {0}
    cms: dict[int, int] = {}
    intx = set()
    fids, calls = set(), set()
    bids = set()
    for r in sc["regs"]:
        if r[1] in bids:
            return False
        bids.add(r[1])
    inv: dict[int, int] = {}
    invopen: dict[int, int] = {}
    tagged = bool(sc.get("tagreg") or sc.get("tagsets"))
    for op in sc["ops"]:
        k, ctx = op[0], op[1]
        if ctx not in live:
            return False
        if k == "comp":
            name = op[2]
            if not (name in rc.COMPOSITES or (name.startswith("one:") and name[4:] in rc.INVOKE)):
                return False
            if (name in rc.COMPOSITES and name != "delete_tags" and len(op[3]) != 1) or (name == "delete_tags" and op[3]):
                return False
            if name.startswith("one:") and name[4:] in rc.KEYED and len(op[3]) != 1:
                return False
            if tagged and ctx in intx:
                return False                   # what the remove callback does inside a transaction is C03/C12's business
        if k == "setup":
            if op[3] in bids or intx:
                return False
            bids.add(op[3])
        elif k == "inv_enter":
            inv[ctx] = inv.get(ctx, 0) + 1
            invopen[ctx] = invopen.get(ctx, 0) + 1
        elif k == "inv_exit":
            if not invopen.get(ctx):
                return False
            invopen[ctx] -= 1
            inv[ctx] = 0                       # `_INVALIDATE_FURTHER.set(False)`: leaving an inner block ends the outer one too
        if k == "cdef":
            if op[2] in fids or op[3] not in rc.CDECORATORS:
                return False
            fids.add(op[2])
        elif k == "cstart":
            if op[2] not in fids or op[3] in calls or ctx in intx or inv.get(ctx):
                return False
            calls.add(op[3])
        elif k == "cfin":
            if op[2] not in calls:
                return False
        if k == "fork":
            if op[2] in live or ctx in intx:
                return False
            live.add(op[2])
            inv[op[2]] = inv.get(ctx, 0)
        elif k == "enter":
            cms[ctx] = cms.get(ctx, 0) + 1
        elif k == "exit":
            if cms.get(ctx, 0) == 0:
                return False
            cms[ctx] -= 1
        elif k == "txenter":
            if ctx in intx:
                return False
            intx.add(ctx)
        elif k == "txexit":
            if ctx not in intx:
                return False
            intx.discard(ctx)
    return not intx


def build_lines(sc, run):
    """protocol lines for the model driver, each tagged with (step index, what it asks)"""
    lines = [("case", None, "case")]

    def setup_line(ctx, p, b, opts):
        return f"setup {ctx} {rc.enc(p)} {b} {1 if opts.get('disable') else 0} {1 if opts.get('lazy') else 0}"

    prefixes = []
    for reg in sc["regs"]:
        lines.append((setup_line(0, reg[0], reg[1], reg_opts(reg)), None, "reg"))
        if reg[0] not in prefixes:
            prefixes.append(reg[0])
    live = [0]
    intx = set()
    inv = {}
    sample = run["sample"]

    def view_lines(i):
        for c in live:
            for p in prefixes:
                lines.append((f"isdis {c} {rc.enc(p)} -", i, ("view", c, p, 0)))
                for j, cmd in enumerate(sample):
                    lines.append((f"isdis {c} {rc.enc(p)} {cmd}", i, ("view", c, p, j + 1)))
            lines.append((f"isfull {c}", i, ("viewfull", c)))

    cfn = {}          # fid -> (kind, keybase) of the functions the Lean model covers
    cfid = {}         # call -> fid
    for i, (op, st) in enumerate(zip(sc["ops"], run["steps"])):
        k, ctx = op[0], op[1]
        if k == "cdef":
            prot = rc.CDECORATORS[op[3]][1]
            if prot is not None:
                cfn[op[2]] = (op[3], op[4])
                lines.append((f"cdef {op[2]} {1 if prot else 0}", i, "cdef"))
        elif k == "cstart":
            cfid[op[3]] = op[2]
            if op[2] in cfn:
                key = rc.ckey(cfn[op[2]][1], op[2], op[4])
                lines.append((f"cstart {op[2]} {op[3]} {ctx} {rc.enc(key)}", i, "cstart"))
        elif k == "cfin":
            if cfid.get(op[2]) in cfn:
                lines.append((f"cfin {cfid[op[2]]} {op[2]}", i, "cfin"))
        elif k == "fork":
            lines.append((f"fork {ctx} {op[2]}", i, "ctl"))
            live.append(op[2])
            inv[op[2]] = inv.get(ctx, False)
            view_lines(i)
        elif k == "setup":
            lines.append((setup_line(ctx, op[2], op[3], (op[4] if len(op) > 4 else None) or {}), i, "ctl"))
            if op[2] not in prefixes:
                prefixes.append(op[2])
            view_lines(i)
        elif k == "inv_enter":
            inv[ctx] = True
            lines.append((f"inv {ctx} 1", i, "ctl"))
        elif k == "inv_exit":
            inv[ctx] = False
            lines.append((f"inv {ctx} 0", i, "ctl"))
        elif k in ("disable", "enter"):
            lines.append((f"disable {ctx} {rc.enc(op[2])} {rc.enc_cmds(op[3])}", i, "ctl"))
            view_lines(i)
        elif k == "enable":
            lines.append((f"enable {ctx} {rc.enc(op[2])} {rc.enc_cmds(op[3])}", i, "ctl"))
            view_lines(i)
        elif k == "exit":
            lines.append((f"exitdis {ctx} {rc.enc(st['prefix'])} {rc.enc_cmds(st['cmds'])}", i, "ctl"))
            view_lines(i)
        elif k == "txenter":
            intx.add(ctx)
        elif k == "txexit":
            intx.discard(ctx)
        elif k == "isfull":
            lines.append((f"isfull {ctx}", i, "isfull"))
        elif k == "cmd":
            tx = 1 if ctx in intx else 0
            ks = list(dict.fromkeys(op[3])) if op[2] == "set_many" else op[3]      # `pairs` is a mapping
            lines.append((f"cmd {ctx} {tx} {op[2]} " + " ".join(rc.enc(x) for x in ks), i, "cmd"))
        elif k == "dec" and op[2] == "cache" and not inv.get(ctx) and not sc.get("warm"):
            lines.append((f"dec {ctx} {rc.enc(op[3])} {op[4]}", i, "dec"))
        elif k == "comp":
            lines.append((comp_line(ctx, 1 if ctx in intx else 0, op, st), i, "comp"))
    for fid in sorted(cfn):
        lines.append((f"cdrain {fid}", ("drain", fid), "cdrain"))
    return lines


def enc_list(xs) -> str:
    return "+".join(rc.enc(x) for x in xs) if xs else "~"


def is_callback(e) -> bool:
    """a `set_remove` a backend object receives WHILE a backend runs another command: the facade's on-remove callback
    (backends never use set_remove themselves; the transaction wrapper hands its own set_remove on: parent = set_remove)"""
    return e["cmd"] == "set_remove" and e["depth"] >= 1 and e.get("parent") != "set_remove"


def ans_code(e) -> str:
    """the backend's answer to a depth-0 call, as far as the control flow of the composites looks at it"""
    if e["cmd"] == "init":
        return "N"
    if "exc" in e:
        return "X"
    if "items" in e:
        return "T"
    r = e.get("ret")
    if r is None:
        return "N"
    if type(r) is object or r is rc.DFLT:
        return "D"                               # the sentinel handed over as default=
    if e["cmd"] == "set_pop":
        return "K" + "+".join(rc.enc(k) for k in r)
    if isinstance(r, (bool, int, float, str, bytes, list, tuple, set, frozenset, dict)) and not r:
        return "F"
    return "T"


def comp_line(ctx, tx, op, st) -> str:
    """the composite + what the backends did (their abstracted answers, the keys they removed with their tags)"""
    name, ks, tags = op[2], op[3], (op[4] if len(op) > 4 else [])
    calls = [e for e in st.get("log", []) if e["depth"] == 0 and e["kind"] != "body"]
    ans = ",".join(ans_code(e) for e in calls) or "~"
    cbs = []
    for j, e in enumerate(calls):
        # one entry per invocation of the on-remove callbacks: the tags of its keys, grouped in order (`_group_by_tags`)
        invs = [list(dict.fromkeys(t for k in inv for t in st["keytags"].get(k, []))) for inv in e.get("removed", [])]
        invs = [t for t in invs if t]
        if invs:
            cbs.append(f"{j}:" + "/".join(enc_list(t) for t in invs))
    if name == "set_many" or name == "one:set_many":
        ks = list(dict.fromkeys(ks))
    return f"comp {ctx} {tx} {rc.COMP_MODEL.get(name, name)} {enc_list(ks)} {enc_list(tags)} {ans} {';'.join(cbs) or '~'}"


def comp_impl(st):
    """(outcome, depth-0 sequence with body markers, callback calls) of a composite on the real code"""
    out = {"NC": "NC", "Locked": "locked", "HANG": "HANG"}.get(st.get("exc"), "raised") if "exc" in st else "ret"
    seq = ["B" if e["kind"] == "body" else rc.fmt_call(e) for e in st.get("log", []) if e["depth"] == 0]
    cbs = sorted(rc.fmt_call(e) for e in st.get("log", []) if e["kind"] != "body" and is_callback(e))
    return out, seq, cbs


def issued_oracle(i, op, st, regs):
    """THE property on everything the backend objects were asked to do during one operation: every command the facade
    issued (depth 0) must be enabled for the backend that received it and routed by the longest registered prefix of each
    of its keys; the same for what the facade's on-remove callback issued; a fully disabled backend is not touched at any depth"""
    bad = []
    registered = set({r[0]: r[1] for r in regs}.values())
    disall = {int(b): set(v) for b, v in st["disall"].items()}
    inv = bool(st.get("inv"))
    fulloff = set(st.get("fulloff", []))
    what = op[2]
    for e in st.get("log", []):
        if e["kind"] == "body":
            continue
        b = e["b"]
        off = disall.get(b, set())
        if is_callback(e):
            if "set_remove" in off:
                bad.append((i, D38, f"{op}: {rc.fmt_call(e)} issued by the facade's on-remove callback although backend {b} "
                                    f"reports set_remove disabled" + (" (fully disabled)" if b in fulloff else "")))
            for key in e["keys"]:
                if longest(regs, key) != b:
                    bad.append((i, D48, f"{op}: the on-remove callback issued {rc.fmt_call(e)} but the longest "
                                                              f"registered prefix of {key!r} belongs to backend {longest(regs, key)}"))
            continue
        if e["depth"] == 0:
            cmd = e["cmd"]
            if cmd != "init":
                if cmd in off:
                    # inside invalidate_further() the deletion an enabled read is replaced by must itself be enabled (D46)
                    bad.append((i, D46 if (inv and cmd in REPLACERS) else f"disabled-{cmd}-issued", f"{op}: {rc.fmt_call(e)} issued although backend {b} reports {cmd} disabled"
                                                             + (" (inside invalidate_further())" if inv else "")))
            for key in e["keys"]:
                if longest(regs, key) != b:
                    if e.get("probe"):
                        bad.append((i, D43, f"{op}: the liveness probe of the lock on {key!r} (ping {e['msg']}) went to backend {b}, the "
                                            f"lock key belongs to backend {longest(regs, key)} (registrations so far: {regs})"))
                        continue
                    bad.append((i, f"routing-{cmd}", f"{op}: {rc.fmt_call(e)} but the longest registered prefix of {key!r} belongs to "
                                                     f"backend {longest(regs, key)} (registrations so far: {regs})"))
            if not e["keys"] and b not in registered:
                bad.append((i, f"routing-{cmd}", f"{op}: {rc.fmt_call(e)} to an unregistered backend"))
        if e["kind"] == "raw" and b in fulloff:
            bad.append((i, f"disabled-{e['cmd']}-issued", f"{op}: {rc.fmt_call(e)} reached a fully disabled backend (depth {e['depth']}) during {what}"))
    return bad


def comp_spec(i, op, st, regs):
    """a composite command on the implementation's own observations"""
    name, ks = op[2], op[3]
    bad = issued_oracle(i, op, st, regs)
    log = [e for e in st.get("log", []) if e["kind"] != "body"]
    calls0 = [e for e in log if e["depth"] == 0]
    if st.get("exc") == "HANG":
        bad.append((i, f"disabled-{name}-hangs" if any(st["disall"].values()) else f"{name}-hangs", f"{op}: never finished"))
    elif st.get("exc") == "NC":
        # NotConfiguredError is a matter of routing alone: some key / tag key the composite may use has no backend
        cand = list(ks) + [rc.TAG_PREFIX + t for t in (op[4] if len(op) > 4 else [])] + \
            ([rc.TAG_PREFIX] if any(st.get("keytags", {}).values()) else []) + \
            [k for e in calls0 if e["cmd"] == "set_pop" and "ret" in e for k in (e["ret"] or [])]
        if all(longest(regs, k) is not None for k in cand):
            refused = any(e["cmd"] == "set_lock" and e.get("ret", True) is not None and not e.get("ret", True) for e in calls0)
            sig = D43 if (name in ("lock", "lock_wait") and refused) else \
                f"disabled-{name}-raises" if any(st["disall"].values()) else f"{name}-raises"
            bad.append((i, sig, f"{op}: raised NotConfiguredError although every key it uses has a registered prefix"
                                + (" (the lock is held by somebody else: the probe has to ask the lock key's backend)" if sig == D43 else "")))
    elif st.get("exc") == "Locked":
        held = [e for e in calls0 if e["cmd"] == "set_lock" and "ret" in e and e["ret"] is not None and not e["ret"]]
        if not held or name != "lock":
            bad.append((i, f"disabled-{name}-raises", f"{op}: raised LockedError although no set_lock was refused by a backend"))
        elif all("ping" in st["disall"].get(str(e["b"]), []) for e in held):
            bad.append((i, f"disabled-{name}-raises", f"{op}: raised LockedError although PING is disabled for the backend that "
                                                      f"refused the lock (no liveness answer: the block has to run)"))
    elif "exc" in st:
        if not any(e.get("exc") == st["exc"] for e in log):
            bad.append((i, f"disabled-{name}-raises" if any(st["disall"].values()) else f"{name}-raises",
                        f"{op}: raised {st['exc']} although no backend command raised it (disabled: {st['disall']})"))
    else:
        if name == "lock":
            # wait=False: a lock somebody else holds on a backend that answers the probe must be refused
            for e in calls0:
                if e["cmd"] == "set_lock" and e.get("ret", True) is not None and not e.get("ret", True) \
                        and "ping" not in st["disall"].get(str(e["b"]), []):
                    bad.append((i, D43, f"{op}: backend {e['b']} refused the lock (held by somebody else) and has PING enabled, but "
                                        f"no LockedError was raised: the block ran {st.get('bodies')} time(s) without the lock"))
                    break
        if name in ("lock", "lock_wait", "invalidate") and st.get("bodies") != 1:
            bad.append((i, f"{name}-not-executed", f"{op}: the caller's block ran {st.get('bodies')} times"))
        if st.get("full") and name == "get_or_set" and st.get("bodies") != 1:
            bad.append((i, "decorator-not-executed", f"{op}: cache fully disabled but the default was computed {st.get('bodies')} times"))
    if st.get("full") and log:
        bad.append((i, f"disabled-{name}-issued", f"{op}: cache fully disabled but backend objects were asked: "
                                                  f"{[rc.fmt_call(e) for e in log][:4]}"))
    return bad


def parse_res(s: str):
    if s in ("D", "N", "E"):
        return (s,)
    if s.startswith("R"):
        return ("R", int(s[1:]))
    if s.startswith("SUM["):
        body = s[4:-1]
        return ("SUM", [int(x) for x in body.split("+")] if body else [])
    if s.startswith("S"):
        return ("S", int(s[1:]))
    if s.startswith("M["):
        body = s[2:-1]
        slots = []
        for x in (body.split(",") if body else []):
            if x == "D":
                slots.append(("D",))
            elif x == "X":
                slots.append(("X",))
            else:
                c, p = x[1:].split(".")
                slots.append(("r", int(c), int(p)))
        return ("M", slots)
    raise HarnessError(f"cannot parse model answer {s!r}")


def res_matches(tmpl, st, calls) -> bool:
    """does the implementation's outcome equal the model's answer instantiated with the recorded backend answers?"""
    kind = tmpl[0]
    if kind == "R":
        if tmpl[1] >= len(calls):
            return False
        e = calls[tmpl[1]]
        if "exc" in e:
            return st.get("exc") == e["exc"]
        return "exc" not in st and rc.canon(st["r"]) == rc.canon(e.get("ret"))
    if "exc" in st:
        return False
    r = st["r"]
    if kind == "D":
        return r is rc.DFLT
    if kind == "N":
        return r is None
    if kind == "E":
        return r == []
    if kind == "S":
        return tmpl[1] < len(calls) and rc.canon(r) == rc.canon(calls[tmpl[1]].get("items"))
    if kind == "SUM":
        return all(i < len(calls) for i in tmpl[1]) and r == sum(calls[i]["ret"] for i in tmpl[1])
    if kind == "M":
        if not isinstance(r, tuple) or len(r) != len(tmpl[1]):
            return False
        for x, slot in zip(r, tmpl[1]):
            if slot[0] == "D":
                if x is not rc.DFLT:
                    return False
            elif slot[0] == "X":
                if x is not None:
                    return False
            else:
                if slot[1] >= len(calls):
                    return False
                ret = calls[slot[1]].get("ret")
                if ret is None or slot[2] >= len(ret):
                    return False
                y = ret[slot[2]]
                if not (x is y or rc.canon(x) == rc.canon(y)):
                    return False
        return True
    return False


# ---- judging one run --------------------------------------------------------------------------------------

def spec_check(sc, run):
    """the property statement on the implementation's own observations -> list of (step, signature, text)"""
    bad = []
    regs_at = regs_before(sc)
    written = False
    dec_owners: dict = {}          # (decorator, key template) -> backends its earlier steps talked to
    for i, (op, st) in enumerate(zip(sc["ops"], run["steps"])):
        k = op[0]
        regs = regs_at[i]
        registered = set({r[0]: r[1] for r in regs}.values())      # a re-registered prefix replaces its backend
        if k in ("fork", "disable", "enable", "enter", "exit", "setup"):
            actor = op[2] if k == "fork" else op[1]
            for c, v in st["views_before"].items():
                if c == actor:
                    continue
                after = st["views_after"].get(c) or {}
                # what a task sees of a backend OBJECT that existed before the operation
                for bid, vb in v["per_backend"].items():
                    if after.get("per_backend", {}).get(bid) != vb:
                        bad.append((i, "context-leak",
                                    f"{op} run by task {op[1]} changed what task {c} sees of backend {bid}: "
                                    f"{show_view(vb, run['sample'])} -> "
                                    f"{show_view(after.get('per_backend', {}).get(bid), run['sample'])}"))
                        break
                else:
                    if k != "setup":
                        if after.get("per_prefix") != v["per_prefix"] or after.get("full") != v["full"]:
                            bad.append((i, "context-leak",
                                        f"{op} run by task {op[1]} changed what task {c} sees: {v} -> {after}"))
                    else:
                        # a registration changes which backend a prefix stands for - for that prefix only
                        for pfx, vp in v["per_prefix"].items():
                            if pfx != op[2] and after.get("per_prefix", {}).get(pfx) != vp:
                                bad.append((i, "context-leak",
                                            f"{op} run by task {op[1]} changed what task {c} sees of prefix {pfx!r}: "
                                            f"{vp} -> {after.get('per_prefix', {}).get(pfx)}"))
            if k == "fork" and st["views_after"].get(op[2]) != st["views_before"].get(op[1]):
                bad.append((i, "child-does-not-inherit", f"{op}: the new task does not start with its creator's view"))
            if k == "setup" and "exc" not in st:
                mine = st["views_after"][op[1]]
                opts = (op[4] if len(op) > 4 else None) or {}
                vp, vb = mine["per_prefix"].get(op[2]), mine["per_backend"].get(str(op[3]))
                if vp is None or vb is None or vp != vb[:-1]:
                    bad.append((i, "setup-prefix-not-rebound",
                                f"{op}: after the registration cache.is_disable(..., prefix={op[2]!r}) says "
                                f"'{show_view(vp + [all(vp)], run['sample']) if vp else None}', the backend registered under it says "
                                f"'{show_view(vb, run['sample'])}'"))
                elif bool(opts.get("disable")) != all(vp):
                    bad.append((i, "setup-disabled-state",
                                f"{op}: the task that ran it sees is_disable(..., prefix={op[2]!r}) = {vp}"))
        elif k == "cmd":
            name, ks = op[2], op[3]
            log = st["log"]
            calls = rc.outer(log)
            cmds = [e for e in calls if e["cmd"] != "init"]
            inits = [e for e in calls if e["cmd"] == "init"]
            dis = {int(b): d for b, d in st["dis"].items()}
            isinit = {int(b): d for b, d in st.get("isinit", {}).items()}
            inv = bool(st.get("inv"))
            # inside invalidate_further() a retrieve command is replaced by the deletion of what it would have read
            expect_cmd = RETRIEVE_DEL[name] if (inv and name in RETRIEVE_DEL) else name
            # ... which is handed over only if the deleting command itself is enabled for the backend (D46)
            disdel = {int(b): d for b, d in st.get("disdel", {}).items()} if (inv and name in RETRIEVE_DEL) else {}
            enabled_dis = dis
            dis = {b: (d or bool(disdel.get(b))) for b, d in dis.items()}      # backends that must stay silent
            routes = [longest(regs, key) for key in ks]
            if name in rc.GLOBAL:
                expect_nc = False
            else:
                expect_nc = any(r is None for r in routes)
            if expect_nc:
                if st.get("exc") != "NC":
                    bad.append((i, f"routing-{name}", f"{op}: a key has no registered prefix but the outcome is {show_out(st)}"))
                continue
            if st.get("exc") == "HANG":
                bad.append((i, f"disabled-{name}-hangs" if any(dis.values()) else f"{name}-hangs", f"{op}: never finished"))
                continue
            if "exc" in st:
                if not any(e.get("exc") == st["exc"] for e in calls):
                    sig = f"disabled-{name}-raises" if any(dis.values()) else f"{name}-raises"
                    bad.append((i, sig, f"{op}: raised {st['exc']} although no backend command raised it (disabled: {dis})"))
                    continue
            # (1) every issued command goes to the longest-prefix backend (by the CURRENT registrations) of each of its keys
            for e in cmds:
                if e["cmd"] != expect_cmd:
                    bad.append((i, f"routing-{name}", f"{op}: facade issued {rc.fmt_call(e)}"))
                for key in e["keys"]:
                    if longest(regs, key) != e["b"]:
                        bad.append((i, f"routing-{name}", f"{op}: {rc.fmt_call(e)} but the longest registered prefix of {key!r} "
                                                          f"belongs to backend {longest(regs, key)} (registrations so far: {regs})"))
                if not e["keys"] and e["b"] not in registered:
                    bad.append((i, f"routing-{name}", f"{op}: {rc.fmt_call(e)} to an unregistered backend"))
            owners = registered if name in rc.GLOBAL else set(routes)
            for e in inits:
                if e["b"] not in owners:
                    bad.append((i, f"routing-{name}", f"{op}: {rc.fmt_call(e)} - backend {e['b']} owns no key of the command"))
                elif isinit.get(e["b"]) or sum(1 for x in inits if x["b"] == e["b"]) > 1:
                    bad.append((i, f"init-twice-{name}", f"{op}: {rc.fmt_call(e)} on a backend that was initialised already"))
            # (2) NOTHING is issued - not the command, not a deletion, not init() - for a backend that reports the command disabled
            for e in calls:
                if dis.get(e["b"]):
                    sig = D22F if (name in ("scan", "get_match") and e["cmd"] != name) else f"disabled-{name}-issued"
                    if not enabled_dis.get(e["b"]):
                        sig = D46 if e["cmd"] == expect_cmd else f"disabled-{expect_cmd}-issued"
                    bad.append((i, sig, f"{op}: {rc.fmt_call(e)} issued although backend {e['b']} reports "
                                        f"{name if enabled_dis.get(e['b']) else expect_cmd} disabled"
                                        + (" (inside invalidate_further())" if inv else "")
                                        + ("" if isinit.get(e["b"], True) else " (backend was never initialised)")))
            # (3) every enabled backend that owns a key is asked exactly once, with its keys in caller order
            if name in rc.MULTI:
                want = []
                for key, b in zip(ks, routes):
                    if dis.get(b):
                        continue
                    for w in want:
                        if w[0] == b:
                            if name != "set_many" or key not in w[1]:
                                w[1].append(key)
                            break
                    else:
                        want.append((b, [key]))
                got = [(e["b"], e["keys"]) for e in cmds]
                if sorted(got) != sorted(want):
                    bad.append((i, f"routing-{name}", f"{op}: issued {got}, expected per-backend groups {want}"))
            elif name in rc.GLOBAL:
                want = sorted(b for b in registered if not dis.get(b))
                if sorted(e["b"] for e in cmds) != want:
                    bad.append((i, f"routing-{name}", f"{op}: issued to {[e['b'] for e in cmds]}, enabled registered backends are {want}"))
            else:
                b = routes[0]
                if not dis.get(b) and len(cmds) != 1:
                    bad.append((i, f"routing-{name}", f"{op}: {len(cmds)} backend commands issued for an enabled single-key command"))
            # (4) shape of the answer
            if "exc" not in st:
                r = st["r"]
                replaced = inv and name in RETRIEVE_DEL       # an enabled read answers what invalidate_further() makes of it
                if name == "get_many":
                    ok = isinstance(r, tuple) and len(r) == len(ks)
                    if ok:
                        for j, (x, b) in enumerate(zip(r, routes)):
                            if enabled_dis.get(b):
                                ok = ok and x is rc.DFLT
                            elif replaced:
                                ok = ok and x is None
                            elif "direct" in st:
                                y = st["direct"][str(b)][j]
                                if type(y).__name__ == "Bitarray":
                                    y = None       # a bit field is not a value: get_many keeps its position with None
                                ok = ok and (x is y or rc.canon(x) == rc.canon(y))
                    if not ok:
                        bad.append((i, "get_many-order" if not any(enabled_dis.values()) else "disabled-get_many-shape",
                                    f"{op}: answered {rc.canon(r)}; single-key reads on the owning backends give "
                                    f"{[rc.canon(st['direct'][str(b)][j]) for j, b in enumerate(routes)] if 'direct' in st else '?'} (disabled: {enabled_dis})"
                                    + (" (inside invalidate_further())" if inv else "")))
                    elif not written and not st["intx"] and not replaced:
                        for x, key, b in zip(r, ks, routes):
                            exp = rc.DFLT if (enabled_dis.get(b) or "!" in key or "*" in key) else f"v{b}|{key}"
                            if not (x is exp or x == exp):
                                bad.append((i, "get_many-order", f"{op}: answered {rc.canon(r)}, backend {b} holds {exp!r} for {key!r}"))
                                break
                elif name in rc.KEYED:
                    b = routes[0]
                    if enabled_dis.get(b):
                        exp_ok = (r is rc.DFLT) if name == "get" else (r == []) if name in ("scan", "get_match") else (r is None)
                        if not exp_ok:
                            bad.append((i, f"disabled-{name}-shape", f"{op}: disabled, answered {rc.canon(r)}"))
                    elif name == "get" and "direct" in st and not replaced:
                        y = st["direct"][str(b)][0]
                        if not (r is y or rc.canon(r) == rc.canon(y)):
                            bad.append((i, "routing-get", f"{op}: read {rc.canon(r)}, the backend registered under the longest "
                                                          f"prefix (backend {b}) holds {rc.canon(y)}"))
                        elif not written:
                            exp = rc.DFLT if ("!" in ks[0] or "*" in ks[0]) else f"v{b}|{ks[0]}"
                            if not (r is exp or r == exp):
                                bad.append((i, "routing-get", f"{op}: read {rc.canon(r)}, the longest-prefix backend was loaded with {exp!r}"))
                elif name == "get_keys_count" and not isinstance(r, int):
                    bad.append((i, "disabled-get_keys_count-shape", f"{op}: answered {rc.canon(r)}"))
            if any(e["cmd"] in WRITING for e in cmds):
                written = True          # from here on the stores are no longer the loaded ones
        elif k == "txexit":
            pass
        elif k == "dec":
            dk = op[2]
            if st.get("exc") == "HANG":
                bad.append((i, f"disabled-{dk}-hangs", f"{op}: the decorated call never finished (body ran {st.get('execs')} times)"))
            elif "exc" in st and st["exc"] != "NC":
                sig = f"disabled-{dk}-raises" if st.get("full") else f"{dk}-raises"
                bad.append((i, sig, f"{op}: decorated call raised {st['exc']} (cache fully disabled: {st.get('full')})"))
            elif dk in ("locked", "invalidate") and st["execs"] != op[4]:
                bad.append((i, f"{dk}-not-executed", f"{op}: the body ran {st['execs']} times in {op[4]} calls"))
            elif "exc" not in st and "disall" in st and dk in SERVE_GATES and not st.get("full"):
                # a command the strategy needs in order to serve a stored result is disabled for the backend of the key (or the
                # decorator never serves stored results): the body runs on every call - also when a result was stored earlier
                # the backends that serve the strategy's keys (decorators derive their keys from the template: prefixes such as
                # ":v2:", counters, locks): those an earlier step of the same function talked to, and those of this step;
                # nothing known: every registered backend
                owners = sorted(dec_owners.get((dk, op[3]), set()) | {e["b"] for e in st["log"] if e["kind"] != "body"}) \
                    or sorted(registered)
                gates = SERVE_GATES[dk]
                hit_gates = [] if gates is None else \
                    [g for g in gates if all(g in st["disall"].get(str(b), []) for b in owners)]
                owner = owners
                if (gates is None or hit_gates) and st["execs"] < op[4]:
                    why = f"{','.join(hit_gates)} disabled for backend(s) {owner}" if hit_gates else f"@{dk} never serves stored results"
                    bad.append((i, "decorator-not-executed-command-disabled" if hit_gates else f"{dk}-not-executed",
                                f"{op}: {why}, but the body ran {st['execs']} times in {op[4]} calls "
                                f"(results {rc.canon(st.get('r'))})"))
            elif st.get("full") and "exc" not in st:
                if st["execs"] != op[4]:
                    bad.append((i, "decorator-not-executed", f"{op}: cache fully disabled but the body ran {st['execs']} times in {op[4]} calls"))
                if st["log"]:
                    bad.append((i, "disabled-decorator-issued", f"{op}: cache fully disabled but backend commands were issued: {[rc.fmt_call(e) for e in st['log']][:4]}"))
            dec_owners.setdefault((dk, op[3]), set()).update(e["b"] for e in st.get("log", []) if e["kind"] != "body")
            if st.get("log"):
                written = True
            if "disall" in st:
                bad += issued_oracle(i, op, st, regs)
        elif k == "comp":
            bad += comp_spec(i, op, st, regs)
            if st.get("log"):
                written = True
    bad += conc_spec(sc, run)
    regs = regs_at[-1]
    registered = set({r[0]: r[1] for r in regs}.values())
    # write-then-read scenarios: final placement of the written keys
    if sc.get("wr"):
        exp: dict[int, set] = {b: set() for b in registered}
        for op, st in zip(sc["ops"], run["steps"]):
            if op[0] != "cmd" or "exc" in st:
                continue
            name, ks = op[2], op[3]
            if name in ("set", "set_many"):
                for key in ks:
                    exp[longest(regs, key)].add(key)
            elif name in ("delete", "delete_many"):
                for key in ks:
                    exp[longest(regs, key)].discard(key)
        for b in registered:
            have = {key for key in run["stores"][b] if "!" in key}
            if have != exp[b]:
                bad.append((len(sc["ops"]) - 1, "routing-write-placement",
                            f"backend {b} holds {sorted(have)} of the written keys, the longest-prefix rule says {sorted(exp[b])}"))
        last_set = {}
        for i, (op, st) in enumerate(zip(sc["ops"], run["steps"])):
            if op[0] == "cmd" and op[2] == "set" and "exc" not in st:
                last_set[op[3][0]] = i
            if op[0] == "cmd" and op[2] in ("delete", "delete_many"):
                for key in op[3]:
                    last_set.pop(key, None)
            if op[0] == "cmd" and op[2] == "get" and op[3][0] in last_set and st.get("r") != rc.VAL:
                bad.append((i, "write-then-read", f"{op}: wrote {rc.VAL!r} at step {last_set[op[3][0]]}, read back {show_out(st)}"))
    # a backend that reports itself fully disabled is never touched at all, at any depth, also by a transaction commit
    for i, (op, st) in enumerate(zip(sc["ops"], run["steps"])):
        if op[0] == "txexit":
            for e in st.get("commit_log", []):
                if e["b"] in st.get("off_whole_tx", []) and e["kind"] == "raw":
                    bad.append((i, "disabled-commit-issued", f"{op}: commit issued {rc.fmt_call(e)} to a backend that was fully disabled during the whole transaction"))
        if op[0] == "cmd":
            for e in st.get("log", []):
                if e["b"] in st.get("fulloff", []) and e["kind"] == "raw":
                    if is_callback(e):
                        bad.append((i, D38, f"{op}: {rc.fmt_call(e)} issued by the facade's on-remove callback although backend "
                                            f"{e['b']} is fully disabled"))
                        continue
                    sig = D22F if (op[2] in ("scan", "get_match") and e["cmd"] != op[2] and e["depth"] <= 1) else f"disabled-{op[2]}-issued"
                    bad.append((i, sig, f"{op}: {rc.fmt_call(e)} reached a fully disabled backend (depth {e['depth']})"))
    return bad


def conc_spec(sc, run):
    """overlapping calls of decorated functions: the property on the implementation's own observations"""
    bad = []
    kinds = {}
    starts = {}
    for i, (op, st) in enumerate(zip(sc["ops"], run["steps"])):
        if op[0] == "cdef":
            kinds[op[2]] = (op[3], op[4])
        elif op[0] == "cstart":
            starts[op[3]] = (i, op, st)
    cc = run.get("ccalls", {})
    for call, (i, op, st) in starts.items():
        if st.get("exc") == "NC":
            continue                      # the starting task itself was refused: nothing ran
        info = cc.get(str(call))
        if info is None or "exc" in st:
            raise HarnessError(f"no record of overlapping call {call} ({st})")
        dk, keybase = kinds[op[2]]
        out = info["out"]
        if out.get("exc") == "NC" and longest(sc["regs"], rc.ckey(keybase, op[2], op[4])) is None:
            continue                      # no prefix matches the function's keys: refusing is the routing rule, not disabling
        others = [c for c in st["in_flight"]]
        where = f"{op} ({dk}; calls {others} in flight)" if others else f"{op} ({dk})"
        if "exec" in out and str(out["arg"]) != str(info["arg"]):
            bad.append((i, "decorator-foreign-argument",
                        f"{where}: called with {info['arg']!r}, handed {out['r']!r} - the result of a call with {out['arg']!r}"))
        full = st["full"]
        must_own = full or dk in rc.ALWAYS_OWN or (st["reads_off"] and dk not in rc.COALESCING)
        why = ("the caller sees the cache fully disabled" if full else
               f"@{dk} never shares executions" if dk in rc.ALWAYS_OWN else "every read command is disabled")
        if full:
            if st["exec"] is None:
                bad.append((i, "decorator-not-executed-concurrent",
                            f"{where}: {why}, but the call did not start the body "
                            f"(outcome {show_out(out)}, executions of the function so far: {run['cfns'][str(op[2])]['execs']})"))
                continue
            if st["log"]:
                bad.append((i, "disabled-decorator-issued",
                            f"{where}: {why}, but backend commands were issued: {[rc.fmt_call(e) for e in st['log']][:4]}"))
        if not must_own:
            continue
        if out.get("exc") == "HANG":
            bad.append((i, f"disabled-{dk}-hangs" if full else f"{dk}-hangs", f"{where}: the call never finished"))
        elif "exc" in out and out["exc"] != "NC":
            bad.append((i, f"disabled-{dk}-raises" if full else f"{dk}-raises", f"{where}: raised {out['exc']}"))
        elif "exc" not in out:
            if len(info["execs"]) != 1:
                bad.append((i, "decorator-not-executed-concurrent",
                            f"{where}: {why}, but the call ran the body {len(info['execs'])} times (outcome {show_out(out)})"))
            elif out.get("exec") != info["execs"][0]:
                bad.append((i, "decorator-shared-result",
                            f"{where}: {why}; the call ran execution {info['execs'][0]} but was handed {out['r']!r}"))
    return bad


def show_view(v, sample) -> str:
    """a per-backend view [is_disable(), is_disable(cmd) for the sampled commands..., is_full_disable] in words"""
    if v is None:
        return "nothing"
    if all(v):
        return "fully disabled"
    if not any(v):
        return "fully enabled"
    off = [c for c, d in zip(sample, v[1:-1]) if d]
    return f"disabled: {','.join(off) or '(other commands)'}"


def show_out(st) -> str:
    return f"raise:{st['exc']}" if "exc" in st else repr(rc.canon(st.get("r")))


def model_check(sc, run, lines, answers, known_steps=()):
    """implementation vs model driver -> list of (step, text); `known_steps`: steps at which a listed known finding
    (the model describes the repaired code) was observed - the component it concerns is not compared there"""
    bad = []
    for (line, i, what), ans in zip(lines, answers):
        if ans == "bad-op":
            raise HarnessError(f"model driver does not understand {line!r}")
        if i is None:
            continue
        if what == "cdrain":
            d = run["drain"][str(i[1])]
            impl = conc_delta(d)
            if impl != norm_delta(ans.split(" left=")[0]) or " left=0 " not in ans + " ":
                bad.append((len(sc["ops"]) - 1, f"releasing the bodies still parked of function {i[1]}: impl {impl}, model {ans}"))
            continue
        st = run["steps"][i]
        op = sc["ops"][i]
        if what == "cdef":
            continue
        if what == "cstart":
            if "exc" in st:
                impl = "NC" if st["exc"] == "NC" else f"raise:{st['exc']}"
            elif st["done"] is not None:
                d = st["done"]
                impl = "NC" if d.get("exc") == "NC" else f"raise:{d['exc']}" if "exc" in d else \
                    f"hit:{d['exec']}" if ("exec" in d and st["exec"] is None) else f"ended:{d.get('r')!r}"
            elif st["exec"] is not None:
                impl = f"runs:{st['exec']}"
            else:
                impl = "waits"
            m_what, m_calls = ans.split(" ")
            m_what = m_what[len("start="):]
            m_norm = "runs:" + m_what.split(":")[1] if m_what.split(":")[0] in ("own", "bypass") else \
                "waits" if m_what.startswith("join:") else m_what
            impl_calls = ";".join(rc.fmt_call(e) for e in rc.outer(st.get("log", []))) or "-"
            if impl != m_norm or impl_calls != m_calls[len("calls="):]:
                bad.append((i, f"{op}: impl {impl} issued {impl_calls}, model {ans}"))
            continue
        if what == "cfin":
            impl = conc_delta(st)
            if impl != norm_delta(ans):
                bad.append((i, f"{op}: impl {impl}, model {ans}"))
            continue
        if what == "ctl":
            impl = "NC" if st.get("exc") == "NC" else "ok" if "exc" not in st else f"raise:{st['exc']}"
            if impl != ans:
                bad.append((i, f"{op}: impl {impl}, model {ans}"))
        elif isinstance(what, tuple) and what[0] == "view":
            _, c, p, j = what
            impl = st["views_after"][c]["per_prefix"][p][j]
            if ("T" if impl else "F") != ans:
                bad.append((i, f"after {op}: task {c} is_disable({'' if j == 0 else run['sample'][j - 1]}, prefix={p!r}) = {impl}, model {ans}"))
        elif isinstance(what, tuple) and what[0] == "viewfull":
            impl = st["views_after"][what[1]]["full"]
            if ("T" if impl else "F") != ans:
                bad.append((i, f"after {op}: task {what[1]} is_full_disable = {impl}, model {ans}"))
        elif what == "isfull":
            if ("T" if st.get("r") else "F") != ans:
                bad.append((i, f"{op}: impl {st.get('r')}, model {ans}"))
        elif what == "cmd":
            calls = rc.outer(st["log"])
            if ans == "NC":
                if st.get("exc") != "NC":
                    bad.append((i, f"{op}: model NotConfigured, impl {show_out(st)}"))
                continue
            res, cs = ans.split(" ")
            res, cs = res[len("res="):], cs[len("calls="):]
            impl_calls = ";".join(rc.fmt_call(e) for e in calls) or "-"
            if impl_calls != cs:
                bad.append((i, f"{op}: issued {impl_calls}, model {cs}"))
            elif not res_matches(parse_res(res), st, calls):
                bad.append((i, f"{op}: outcome {show_out(st)}, model {res} over backend answers "
                               f"{[rc.canon(e.get('ret', e.get('items', e.get('exc')))) for e in calls]}"))
        elif what == "comp":
            out, seq, cbs = comp_impl(st)
            m_out, m_seq, m_cbs = [x.split("=", 1)[1] for x in ans.split(" ")]
            if m_out == "fuel":
                raise HarnessError(f"the model's loop bound is too small for {op}")
            impl_seq = ";".join(seq) or "-"
            if out != m_out or impl_seq != m_seq:
                bad.append((i, f"{op}: impl {out} issued {impl_seq}, model {m_out} {m_seq}"))
            elif i not in known_steps and cbs != sorted(x for x in m_cbs.split(";") if x != "-"):
                bad.append((i, f"{op}: the on-remove callback issued {cbs or '-'}, model {m_cbs}"))
        elif what == "dec":
            if ans == "NC":
                if st.get("exc") != "NC":
                    bad.append((i, f"{op}: model NotConfigured, impl {show_out(st)}"))
                continue
            ex, cs = ans.split(" ")
            impl_calls = ";".join(rc.fmt_call(e) for e in rc.outer(st["log"])) or "-"
            if "exc" in st or f"execs={st['execs']}" != ex or impl_calls != cs[len("calls="):]:
                bad.append((i, f"{op}: impl execs={st.get('execs')} calls={impl_calls} {show_out(st)}, model {ans}"))
    return bad


def conc_delta(st) -> str:
    """calls that ended (call:execution handed over) and backend commands issued, in the model driver's notation"""
    done = []
    for c, d in sorted(st["done"].items(), key=lambda x: int(x[0])):
        done.append(f"{c}:{d['exec']}" if "exec" in d else f"{c}:{show_out(d)}")
    calls = ";".join(rc.fmt_call(e) for e in rc.outer(st["log"])) or "-"
    return f"done={','.join(done) or '-'} calls={calls}"


def norm_delta(ans: str) -> str:
    """the model's `done=` pairs sorted by call number (which caller resumes first is not an observable)"""
    done, calls = ans.split(" ")
    pairs = done[len("done="):]
    if pairs != "-":
        pairs = ",".join(sorted(pairs.split(","), key=lambda x: int(x.split(":")[0])))
    return f"done={pairs} {calls}"


def run_case(sc):
    run = rc.execute(sc)
    lines = build_lines(sc, run)
    answers = DRIVER.ask([l for l, _, _ in lines])
    spec = spec_check(sc, run)
    known = [x for x in spec if x[1] in LOCAL_KNOWN]
    for x in known:
        KNOWN_SEEN[x[1]] = KNOWN_SEEN.get(x[1], 0) + 1
    run["known"] = known
    spec = [x for x in spec if x[1] not in LOCAL_KNOWN]
    return run, spec, model_check(sc, run, lines, answers, {x[0] for x in known})


def fails(sc) -> bool:
    if not valid(sc):
        return False
    try:
        _, s, m = run_case(sc)
    except HarnessError:
        return False
    return bool(s or m)


def fails_spec(sc, sig=None) -> bool:
    if not valid(sc):
        return False
    try:
        _, s, _ = run_case(sc)
    except HarnessError:
        return False
    return any(sig is None or x[1] == sig for x in s)


def shrink(sc, pred):
    ops = ddmin(sc["ops"], lambda o: pred(dict(sc, ops=o)))
    cur = dict(sc, ops=ops)
    # drop registrations one at a time
    regs = list(cur["regs"])
    changed = True
    while changed and len(regs) > 1:
        changed = False
        for j in range(len(regs)):
            cand = regs[:j] + regs[j + 1:]
            if pred(dict(cur, regs=cand)):
                regs = cand
                changed = True
                break
    cur = dict(cur, regs=regs)
    # drop setup options (configured-disabled, never-initialised) that do not matter
    for where in ("regs", "ops"):
        items = [list(x) for x in cur[where]]
        for j, x in enumerate(items):
            pos = 2 if where == "regs" else 4
            if (where == "ops" and x[0] != "setup") or len(x) <= pos or not x[pos]:
                continue
            for opt in list(x[pos]):
                cand = [list(y) for y in items]
                cand[j][pos] = {k: v for k, v in x[pos].items() if k != opt}
                if pred(dict(cur, **{where: cand})):
                    items = cand
                    x = items[j]
        cur = dict(cur, **{where: items})
    # drop the tag registry / the preloaded tag sets, entry by entry
    for field in ("tagreg", "tagsets"):
        if not cur.get(field):
            continue
        if pred({k: v for k, v in cur.items() if k != field}):
            cur = {k: v for k, v in cur.items() if k != field}
            continue
        items = list(cur[field].items()) if field == "tagsets" else list(cur[field])
        j = 0
        while j < len(items):
            cand = items[:j] + items[j + 1:]
            if pred(dict(cur, **{field: dict(cand) if field == "tagsets" else cand})):
                items = cand
            else:
                j += 1
        cur = dict(cur, **{field: dict(items) if field == "tagsets" else items})
    # shorten the tag lists of composites
    ops = [list(o) for o in cur["ops"]]
    for j, o in enumerate(ops):
        if o[0] == "comp" and len(o) > 4 and len(o[4]) > 1:
            for t in list(o[4]):
                cand = [list(x) for x in ops]
                cand[j][4] = [x for x in ops[j][4] if x != t]
                if cand[j][4] and pred(dict(cur, ops=cand)):
                    ops = cand
    cur = dict(cur, ops=ops)
    # shorten key lists of multi-key commands
    ops = [list(o) for o in cur["ops"]]
    for o in ops:
        if o[0] == "cmd" and len(o[3]) > 1:
            o[3] = ddmin(o[3], lambda ks: pred(dict(cur, ops=[(x if x is not o else [o[0], o[1], o[2], ks]) for x in ops])))
    return dict(cur, ops=ops)


def report(chk: Check, sc, origin):
    run, s, m = run_case(sc)
    small = s2 = m2 = None
    if not s:
        small = shrink(sc, fails)
        run, s2, m2 = run_case(small)
        if s2:
            sc, s = small, s2           # the reduced scenario contradicts the property itself: report that
            small = None
    if s:
        sig0 = s[0][1]
        small = shrink(sc, lambda x: fails_spec(x, sig0))
        run, s2, m2 = run_case(small)
        s2 = [x for x in s2 if x[1] == sig0] + [x for x in s2 if x[1] != sig0] or s
        i, sig, text = s2[0]
        chk.violation(f"the implementation contradicts C17 at step {i}: {text}",
                      {"scenario": small, "spec_failures": [t for _, _, t in s2][:6], "model_diffs": [t for _, t in m2][:6],
                       "origin": origin, "replay_cmd": "./check C17 --replay <this file>"},
                      signature=sig)
    else:
        m2 = m2 or m
        chk.violation(f"correspondence broken: implementation differs from the Route/Disable model ({m2[0][1]}) but the "
                      f"property oracle holds on this scenario",
                      {"scenario": small, "model_diffs": [t for _, t in m2][:6], "origin": origin,
                       "broken": "correspondence Model/Route.lean + Model/Disable.lean <-> cashews/wrapper/{wrapper,commands,disable_control,decorators}.py, backends/interface.py, backends/transaction.py",
                       "replay_cmd": "./check C17 --replay <this file>"},
                      signature=None, no_input=True)


# ---- generators -------------------------------------------------------------------------------------------

def mk_regs(prefixes, rng):
    ps = list(prefixes)
    rng.shuffle(ps)
    return [[p, i] for i, p in enumerate(ps)]


def keys_for(prefixes, alphabet):
    ks = list(dict.fromkeys(list(alphabet) + EXTRA_KEYS + [p + "x" for p in prefixes]))
    return ks


def gen_routing(prefixes, alphabet, rng, reregister=False):
    """all keys against one prefix set: single-key reads, get_many over interleaved backends, then writes"""
    regs = mk_regs(prefixes, rng)
    if reregister and regs:
        # the same prefix set up twice: the later backend replaces the earlier one in place
        p = rng.choice(regs)[0]
        regs.append([p, len(regs)])
    keys = keys_for(prefixes, alphabet)
    ops = [["cmd", 0, "get", [k]] for k in keys]
    plain = [k for k in keys if "*" not in k]
    for _ in range(3):
        n = rng.randint(2, 7)
        ops.append(["cmd", 0, "get_many", [rng.choice(plain + [k + "!" for k in plain[:4]]) for _ in range(n)]])
    ops.append(["cmd", 0, "get_many", plain])
    ops.append(["cmd", 0, "get_keys_count", []])
    for name in ("exists", "scan", "get_match"):
        ops.append(["cmd", 0, name, [rng.choice(keys)]])
    return {"regs": regs, "ops": ops, "kind": "routing"}


def gen_write_read(prefixes, alphabet, rng):
    regs = mk_regs(prefixes, rng)
    keys = [k + "!" for k in keys_for(prefixes, alphabet) if "*" not in k]
    ops = []
    for k in keys:
        ops.append(["cmd", 0, "set", [k]])
        ops.append(["cmd", 0, "get", [k]])
    many = [k + "m" for k in rng.sample(keys, min(len(keys), 6))]
    ops.append(["cmd", 0, "set_many", many])
    ops.append(["cmd", 0, "get_many", many + keys[:3]])
    ops.append(["cmd", 0, "delete_many", rng.sample(many, max(1, len(many) // 2)) + rng.sample(keys, 2)])
    ops.append(["cmd", 0, "delete", [rng.choice(keys)]])
    ops.append(["cmd", 0, "get_many", keys])
    return {"regs": regs, "ops": ops, "kind": "write_read", "wr": True}


def all_commands(ctx, keys, rng):
    ops = []
    for name in rc.KEYED:
        for k in keys[:2]:
            ops.append(["cmd", ctx, name, [k + "*" if name in ("scan", "get_match", "delete_match") and rng.random() < .5 else k]])
    for name in rc.MULTI:
        ops.append(["cmd", ctx, name, [rng.choice(keys) for _ in range(rng.randint(1, 5))]])
        ops.append(["cmd", ctx, name, list(keys)])
    for name in rc.GLOBAL:
        ops.append(["cmd", ctx, name, []])
    rng.shuffle(ops)
    return ops


def gen_disable_sweep(prefixes, disabled, target, rng, order):
    """every public command, outside and inside a transaction, while `disabled` (a list of commands, [] = all)
    is switched off for the backend of `target`"""
    regs = mk_regs(prefixes, rng)
    keys = []
    for p in prefixes:
        keys += [p + "k", p + "k2"]
    keys = list(dict.fromkeys(keys))
    rng.shuffle(keys)
    mode = rng.choice(["fast", "locked", "serializable"])
    body = all_commands(0, keys, rng)
    if order == "outside":
        ops = [["enter", 0, target, disabled]] + body + [["exit", 0]]
    elif order == "tx_in_disabling":
        ops = [["enter", 0, target, disabled], ["txenter", 0, mode]] + body + [["txexit", 0], ["exit", 0]]
    elif order == "disabling_in_tx":
        ops = [["txenter", 0, mode], ["enter", 0, target, disabled]] + body + [["exit", 0], ["txexit", 0]]
    else:
        ops = [["disable", 0, target, disabled]] + body
    return {"regs": regs, "ops": ops, "kind": "disable_" + order}


CTL_CMDS = ["get", "set", "get_many", "scan", "delete", "get_keys_count", "incr"]


def gen_tasks(rng, prefixes):
    """random nestings of disabling()/enable/disable across parent and child tasks, with reads in between"""
    regs = mk_regs(prefixes, rng)
    live = [0]
    cms: dict[int, int] = {}
    ops = []
    keys = [p + "k" for p in prefixes] + ["zz"]
    targets = list(prefixes) + ["", "zz", prefixes[0] + "q"]
    n = rng.randint(6, 14)
    for _ in range(n):
        c = rng.choice(live)
        x = rng.random()
        cmds = rng.choice([[], [], [rng.choice(CTL_CMDS)], rng.sample(CTL_CMDS, 2)])
        if x < 0.18 and len(live) < 4:
            child = len(live)
            ops.append(["fork", c, child])
            live.append(child)
        elif x < 0.36:
            ops.append(["enter", c, rng.choice(targets), cmds])
            cms[c] = cms.get(c, 0) + 1
        elif x < 0.48 and cms.get(c, 0):
            ops.append(["exit", c])
            cms[c] -= 1
        elif x < 0.60:
            ops.append(["disable", c, rng.choice(targets), cmds])
        elif x < 0.72:
            ops.append(["enable", c, rng.choice(targets), cmds])
        elif x < 0.82:
            ops.append(["cmd", c, "get_many", [rng.choice(keys) for _ in range(rng.randint(1, 4))]])
        elif x < 0.92:
            name = rng.choice(["get", "set", "scan", "get_keys_count", "delete", "incr"])
            ops.append(["cmd", c, name, [] if name in rc.GLOBAL else [rng.choice(keys)]])
        else:
            ops.append(["isfull", c])
    for c in live:
        ops.append(["cmd", c, "get", [rng.choice(keys)]])
    return {"regs": regs, "ops": ops, "kind": "tasks"}


def gen_decorators(rng, prefixes, state):
    regs = mk_regs(prefixes, rng)
    ops = []
    if state == "full":
        for p in prefixes:
            ops.append(["disable", 0, p, []])
    elif state == "full_then_child_enables":
        for p in prefixes:
            ops.append(["disable", 0, p, []])
        ops.append(["fork", 0, 1])
        ops.append(["enable", 1, rng.choice(prefixes), []])
    elif state == "get_off":
        for p in prefixes:
            ops.append(["disable", 0, p, ["get"]])
    elif state == "one_prefix_off":
        ops.append(["disable", 0, rng.choice(prefixes), []])
    kinds = list(rc.DECORATORS)
    rng.shuffle(kinds)
    ctxs = [0, 1] if state == "full_then_child_enables" else [0]
    for j, dk in enumerate(kinds):
        for c in ctxs:
            base = rng.choice(prefixes) + "d"
            ops.append(["dec", c, dk, f"{base}#{j}.{c}", 3])
    ops.append(["isfull", 0])
    return {"regs": regs, "ops": ops, "kind": "decorators_" + state}


SETUP_HOW = ["kw", "url", "enable_kw", "enable_url"]


def rand_opts(rng, p_dis=0.3, p_lazy=0.3):
    o = {}
    if rng.random() < p_dis:
        o["disable"] = rng.choice(SETUP_HOW)
    if rng.random() < p_lazy:
        o["lazy"] = True
    return o


def gen_rereg(rng, prefixes):
    """histories that interleave commands with (re-)registration: keys are used, then a prefix is set up - a new one
    (possibly capturing keys that were routed elsewhere) or one that is registered already (the backend is replaced;
    enabled or disabled, initialised or not, by any task) - and the same keys and fresh ones are used again"""
    regs = mk_regs(prefixes, rng)
    nb = len(regs)
    current = list(prefixes)
    pool = list(dict.fromkeys([p + "k" for p in prefixes] + [p[:-1] for p in prefixes if p] + ["", "zz", "z"]))
    keys = list(dict.fromkeys([p + "k" for p in prefixes] + [p + "k2" for p in prefixes] + [p + "kk" for p in prefixes]
                              + ["zz", "zzk", "q"]))
    live, ops, used = [0], [], []

    def some_cmds(n):
        for _ in range(n):
            c = rng.choice(live)
            x = rng.random()
            if x < 0.40:
                k = rng.choice(keys)
                ops.append(["cmd", c, "get", [k]])
                used.append(k)
            elif x < 0.55:
                k = rng.choice(keys)
                ops.append(["cmd", c, "set", [k]])
                used.append(k)
            elif x < 0.75:
                ks = [rng.choice(used + keys) for _ in range(rng.randint(2, 4))]
                ops.append(["cmd", c, "get_many", ks])
                used.extend(ks)
            elif x < 0.85:
                k = rng.choice(keys)
                ops.append(["cmd", c, rng.choice(["exists", "delete", "incr", "get_expire"]), [k]])
                used.append(k)
            else:
                ops.append(["cmd", c, "get_keys_count", []])

    some_cmds(rng.randint(2, 5))
    for _ in range(rng.randint(1, 3)):
        if rng.random() < 0.3 and len(live) < 3:
            child = len(live)
            ops.append(["fork", rng.choice(live), child])
            live.append(child)
        c = rng.choice(live)
        p = rng.choice(current) if (current and rng.random() < 0.65) else rng.choice(pool)
        ops.append(["setup", c, p, nb, rand_opts(rng)])
        nb += 1
        if p not in current:
            current.append(p)
        for k in rng.sample(used, min(len(used), 3)):
            ops.append(["cmd", rng.choice(live), rng.choice(["get", "get", "set"]), [k]])
        if used:
            ops.append(["cmd", rng.choice(live), "get_many", rng.sample(used, min(len(used), 3)) + [rng.choice(keys)]])
        some_cmds(rng.randint(1, 3))
    for c in live:
        ops.append(["cmd", c, "get_many", list(dict.fromkeys(used))[:6] or ["q"]])
    return {"regs": regs, "ops": ops, "kind": "rereg"}


def gen_rereg_enum():
    """the minimal re-registration histories, enumerated: key used, prefix registered again (same prefix / a longer one
    that captures the key / the default prefix; enabled or disabled; by the same or another task), key used again"""
    for target in ["u:", "u:1", ""]:
        for dis in [None, "kw", "url"]:
            for actor in [0, 1]:
                for first in ["get", "set", "get_many"]:
                    ops = [["fork", 0, 1], ["cmd", 0, first, ["u:1"] if first != "get_many" else ["u:1", "x", "u:2"]],
                           ["cmd", 1, "get", ["x"]],
                           ["setup", actor, target, 2, {"disable": dis} if dis else {}],
                           ["cmd", 0, "get", ["u:1"]], ["cmd", 1, "set", ["u:1"]], ["cmd", 0, "get_many", ["u:3", "x", "u:1"]],
                           ["cmd", 1, "get", ["u:3"]], ["cmd", 0, "get_keys_count", []]]
                    yield {"regs": [["", 0], ["u:", 1]], "ops": ops, "kind": "rereg_enum"}


def gen_inv_sweep(prefixes, disabled, target, rng, order, lazy):
    """every public command while `disabled` ([] = all) is switched off for the backend of `target`, with the calling
    task inside invalidate_further() and/or on backends that were never initialised"""
    regs = mk_regs(prefixes, rng)
    for r in regs:
        if lazy == "all" or (lazy == "some" and rng.random() < 0.5):
            r.append({"lazy": True})
    keys = []
    for p in prefixes:
        keys += [p + "k", p + "k2"]
    keys = list(dict.fromkeys(keys))
    rng.shuffle(keys)
    mode = rng.choice(["fast", "locked", "serializable"])
    body = all_commands(0, keys, rng)
    if order == "inv_in_disabling":
        ops = [["enter", 0, target, disabled], ["inv_enter", 0]] + body + [["inv_exit", 0], ["exit", 0]]
    elif order == "disabling_in_inv":
        ops = [["inv_enter", 0], ["enter", 0, target, disabled]] + body + [["exit", 0], ["inv_exit", 0]]
    elif order == "tx":
        ops = [["enter", 0, target, disabled], ["txenter", 0, mode], ["inv_enter", 0]] + body + \
              [["inv_exit", 0], ["txexit", 0], ["exit", 0]]
    elif order == "child":
        # the parent is inside invalidate_further() and has the commands disabled; a child inherits both
        ops = [["inv_enter", 0], ["disable", 0, target, disabled], ["fork", 0, 1]] + \
              [[o[0], 1] + o[2:] for o in body] + [["inv_exit", 0]]
    else:                                   # "lazy_only": no invalidate_further(), never initialised backends
        ops = [["disable", 0, target, disabled]] + body
    return {"regs": regs, "ops": ops, "kind": "inv_" + order}


def gen_cfg_enum():
    """backends CONFIGURED as disabled (all four spellings) and a control call made by ANOTHER task than the observers:
    a sibling that runs already and the parent must keep seeing the prefix disabled"""
    ctls = [["enable", ["get"]], ["enable", []], ["disable", ["delete"]], ["enter", ["set"]], ["disable", []]]
    for how in SETUP_HOW:
        for kind, cmds in ctls:
            ops = [["fork", 0, 1], ["fork", 0, 2], ["cmd", 0, "get", ["p:k"]], ["cmd", 2, "get", ["p:k"]],
                   [kind, 1, "p:", cmds],
                   ["cmd", 1, "get", ["p:k"]], ["cmd", 1, "set", ["p:k"]],
                   ["cmd", 0, "get", ["p:k"]], ["cmd", 0, "get_many", ["p:k", "x", "p:k2"]], ["cmd", 0, "set", ["p:w"]],
                   ["cmd", 2, "get", ["p:k"]], ["cmd", 2, "set", ["p:w2"]], ["dec", 0, "cache", "p:d#0", 2],
                   ["dec", 2, "cache", "p:d#1", 2], ["isfull", 0]]
            if kind == "enter":
                ops.append(["exit", 1])
            yield {"regs": [["", 0], ["p:", 1, {"disable": how}]], "ops": ops, "kind": "cfg_enum"}
        # the whole cache configured as disabled: decorated functions must run their body on every call in every task
        ops = [["fork", 0, 1], ["fork", 0, 2], ["isfull", 2], ["enable", 1, "", ["get"]], ["isfull", 0], ["isfull", 2],
               ["dec", 0, "cache", "d#0", 3], ["dec", 2, "early", "d#1", 3], ["cmd", 2, "get", ["k"]], ["cmd", 0, "set", ["k"]]]
        yield {"regs": [["", 0, {"disable": how}]], "ops": ops, "kind": "cfg_enum"}


def gen_tasks_cfg(rng, prefixes):
    """gen_tasks over a table in which backends are configured as disabled, with registrations in between"""
    sc = gen_tasks(rng, prefixes)
    for r in sc["regs"]:
        if rng.random() < 0.6:
            r.append({"disable": rng.choice(SETUP_HOW)})
    nb = len(sc["regs"])
    ops, live = [], {0}
    for op in sc["ops"]:
        ops.append(op)
        if op[0] == "fork":
            live.add(op[2])
        if rng.random() < 0.12:
            ops.append(["setup", rng.choice(sorted(live)), rng.choice(prefixes + [prefixes[0] + "k"]), nb,
                        rand_opts(rng, 0.6, 0.2)])
            nb += 1
    sc["ops"] = ops
    sc["kind"] = "tasks_cfg"
    return sc


CONC_STATES = ["full", "full_disabling", "full_then_child_enables", "reads_off", "get_off", "one_prefix_off", "none",
               "toggle"]


def conc_events(rng, fid, first_call, ctxs, nmin=2, nmax=4):
    """2-4 overlapping calls of one function (equal and different arguments): starts in call order, every body
    release somewhere after its start, some left to the final drain"""
    n = rng.randint(nmin, nmax)
    args = [rng.choice([1, 1, 2]) for _ in range(n)]
    if rng.random() < 0.75:
        args[1] = args[0]
    evs, started, nxt = [], [], 0
    while nxt < n or started:
        if nxt < n and (not started or rng.random() < 0.6):
            call = first_call + nxt
            evs.append(["cstart", rng.choice(ctxs), fid, call, args[nxt]])
            started.append(call)
            nxt += 1
        else:
            call = started.pop(rng.randrange(len(started)))
            if rng.random() < 0.8:
                evs.append(["cfin", 0, call])
    return evs, n


def gen_conc(rng, prefixes, state, kinds=None):
    """overlapping calls of 1-3 decorated functions under a control state, control operations in between (toggle)"""
    regs = mk_regs(prefixes, rng)
    ops, tail, ctxs = [], [], [0]
    if state == "full":
        ops += [["disable", 0, p, []] for p in prefixes]
    elif state == "full_disabling":
        ops += [["enter", 0, p, []] for p in prefixes]
        tail = [["exit", 0] for _ in prefixes]
    elif state == "full_then_child_enables":
        ops += [["disable", 0, p, []] for p in prefixes]
        ops += [["fork", 0, 1], ["enable", 1, rng.choice(prefixes), []]]
        ctxs = [0, 1]
    elif state == "reads_off":
        ops += [["disable", 0, p, list(rc.READ_CMDS)] for p in prefixes]
    elif state == "get_off":
        ops += [["disable", 0, p, ["get"]] for p in prefixes]
    elif state == "one_prefix_off":
        ops.append(["disable", 0, rng.choice(prefixes), []])
    kinds = kinds or rng.sample(list(rc.CDECORATORS), rng.randint(1, 3))
    seqs, call = [], 0
    for fid, dk in enumerate(kinds):
        ops.append(["cdef", 0, fid, dk, rng.choice(prefixes + ["zz"]) + "d"])
        evs, n = conc_events(rng, fid, call, ctxs)
        call += n
        seqs.append(evs)
    off = state.startswith("full")
    while any(seqs):
        q = rng.choice([x for x in seqs if x])
        ops.append(q.pop(0))
        if state == "toggle" and rng.random() < 0.3:
            off = not off
            ops += [["disable" if off else "enable", 0, p, []] for p in prefixes]
    return {"regs": regs, "ops": ops + tail, "kind": "conc_" + state}


def gen_conc_enum():
    """fully disabled cache: EVERY decorator x (equal | different arguments) x both release orders of two overlapping
    calls, and three equal calls released middle-first"""
    for dk in rc.CDECORATORS:
        for args, order in [((1, 1), (0, 1)), ((1, 1), (1, 0)), ((1, 2), (0, 1)), ((1, 2), (1, 0)), ((1, 1, 1), (1, 2, 0))]:
            ops = [["disable", 0, "", []], ["cdef", 0, 0, dk, "d"]]
            ops += [["cstart", 0, 0, j, a] for j, a in enumerate(args)]
            ops += [["cfin", 0, j] for j in order]
            yield {"regs": [["", 0]], "ops": ops, "kind": "conc_full_enum"}


# ---- composite commands -------------------------------------------------------------------------------------

TAG = rc.TAG_PREFIX
# tables for the composites: with and without a dedicated tags backend, with a prefix shorter than `_tag:`, without a default
COMP_TABLES = [[""], ["", TAG], ["", "a", TAG], ["a", TAG, ""], ["", "_t", "a"], ["", TAG, "ab", "a"], ["a", TAG],
               ["", TAG, TAG + "t"]]
COMP_CMDS = ["set", "incr", "get", "set_add", "set_remove", "set_pop", "delete", "delete_many", "delete_match", "set_lock",
             "unlock", "ping"]


def comp_world(prefixes, rng):
    """keys, tag registry and preloaded tag sets for a table"""
    base = [p for p in prefixes if not p.startswith(TAG)]
    keys = []
    for p in base:
        keys += [p + "k", p + "k2"]
    keys = list(dict.fromkeys(keys))
    absent = [p + "n!" for p in base]
    # tag t1: the first key exactly; t2: every key that starts with the first base prefix + "k" (a template with a parameter)
    tagreg = [["t1", keys[0]], ["t2", base[0] + "k{x}"], ["t3", keys[-1]]]
    tagsets = {"t1": [keys[0]], "t2": [k for k in keys if k.startswith(base[0] + "k")] + [absent[0]], "t4": list(keys)}
    return keys, absent, tagreg, tagsets


def comp_body(ctx, keys, absent, rng, held=True):
    """every composite (and the deleting commands, for the remove callback) once or twice, in random order"""
    k0, k1 = keys[0], keys[-1]
    ops = [
        ["comp", ctx, "set_tags", [k0], ["t1"]],
        ["comp", ctx, "set_tags", [k1], ["t1", "t2"]],
        ["comp", ctx, "setnx_tags", [rng.choice(keys)], ["t2"]],          # the key exists: the write is refused, nothing is registered
        ["comp", ctx, "setnx_tags", [absent[0]], ["t1"]],
        ["comp", ctx, "incr_tags", [rng.choice(absent)], ["t1", "t3"]],
        ["comp", ctx, "get_or_set", [rng.choice(keys)], []],
        ["comp", ctx, "get_or_set", [rng.choice(absent) + "g"], []],
        ["comp", ctx, "one:delete", [k0], []],
        ["comp", ctx, "one:delete_many", [rng.choice(keys) for _ in range(3)], []],
        ["comp", ctx, "one:delete_match", [rng.choice(keys)[:-1] + "*"], []],
        ["comp", ctx, "delete_tags", [], ["t1"]],
        ["comp", ctx, "delete_tags", [], rng.sample(["t2", "t4", "t9"], 2)],
        ["comp", ctx, "lock", [k1 + "L!"], []],
        ["comp", ctx, "invalidate", [rng.choice(keys)[:-1] + "*"], []],
        ["comp", ctx, "one:set_add", [TAG + "t1"], []],
        ["comp", ctx, "one:get_many", [k0, k1, absent[0]], []],
    ]
    rng.shuffle(ops)
    if held:
        # a lock somebody else holds: wait=False raises LockedError - unless set_lock or ping is disabled; wait=True waits it out
        lk = rng.choice(keys) + "H!"
        ops += [["cmd", ctx, "set_lock", [lk]], ["comp", ctx, "lock", [lk], []]]
        if rng.random() < 0.4:
            ops.append(["comp", ctx, "lock_wait", [lk], []])
    return ops


def gen_comp_sweep(prefixes, disabled, targets, rng, order):
    """every composite while `disabled` ([] = all commands) is switched off for the backends of `targets`"""
    regs = mk_regs(prefixes, rng)
    keys, absent, tagreg, tagsets = comp_world(prefixes, rng)
    body = comp_body(0, keys, absent, rng)
    if order == "plain":
        ops = [["disable", 0, t, disabled] for t in targets] + body
    elif order == "disabling":
        ops = [["enter", 0, t, disabled] for t in targets] + body + [["exit", 0] for _ in targets]
    elif order == "inv":
        ops = [["enter", 0, t, disabled] for t in targets] + [["inv_enter", 0]] + body + [["inv_exit", 0]] + [["exit", 0] for _ in targets]
    elif order == "child":
        # the parent disables, a child inherits; a sibling forked before does not: both run the composites
        ops = [["fork", 0, 2]] + [["disable", 0, t, disabled] for t in targets] + [["fork", 0, 1]] + \
              [[o[0], 1] + o[2:] for o in body] + [[o[0], 2] + o[2:] for o in comp_body(2, keys, absent, rng, held=False)[:8]]
    else:                                       # "lazy": never-initialised backends
        for r in regs:
            r.append({"lazy": True})
        ops = [["disable", 0, t, disabled] for t in targets] + body
    return {"regs": regs, "ops": ops, "kind": "comp_" + order, "tagreg": tagreg, "tagsets": tagsets}


def gen_comp_tx(prefixes, disabled, target, rng):
    """the composites inside a transaction (no tag registry: what the remove callback does inside a transaction is not C17's business)"""
    regs = mk_regs(prefixes, rng)
    keys, absent, _, _ = comp_world(prefixes, rng)
    body = [o for o in comp_body(0, keys, absent, rng, held=False) if o[2] not in ("delete_tags",)]
    mode = rng.choice(["fast", "locked", "serializable"])
    ops = [["enter", 0, target, disabled], ["txenter", 0, mode]] + body + [["txexit", 0], ["exit", 0]]
    return {"regs": regs, "ops": ops, "kind": "comp_tx"}


def gen_comp_tasks(rng, prefixes):
    """random control operations of several tasks (commands switched off one by one, prefixes, disabling() nestings)
    with composites in between"""
    regs = mk_regs(prefixes, rng)
    keys, absent, tagreg, tagsets = comp_world(prefixes, rng)
    live, cms, ops = [0], {}, []
    targets = list(prefixes) + [TAG, keys[0]]
    for _ in range(rng.randint(8, 16)):
        c = rng.choice(live)
        x = rng.random()
        cmds = rng.choice([[], [rng.choice(COMP_CMDS)], rng.sample(COMP_CMDS, 2), rng.sample(COMP_CMDS, 3)])
        if x < 0.10 and len(live) < 3:
            ops.append(["fork", c, len(live)])
            live.append(len(live))
        elif x < 0.25:
            ops.append(["enter", c, rng.choice(targets), cmds])
            cms[c] = cms.get(c, 0) + 1
        elif x < 0.32 and cms.get(c, 0):
            ops.append(["exit", c])
            cms[c] -= 1
        elif x < 0.45:
            ops.append(["disable", c, rng.choice(targets), cmds])
        elif x < 0.52:
            ops.append(["enable", c, rng.choice(targets), cmds])
        elif x < 0.56:
            ops.append(["inv_enter", c])
            ops.append(rng.choice(comp_body(c, keys, absent, rng, held=False)))
            ops.append(["inv_exit", c])
        else:
            ops.append(rng.choice(comp_body(c, keys, absent, rng, held=False)))
    return {"regs": regs, "ops": ops, "kind": "comp_tasks", "tagreg": tagreg, "tagsets": tagsets}


def gen_comp_rereg_enum():
    """the tag bookkeeping across a (re-)registration of the tags backend, enumerated: tagged write + delete (the callback has
    resolved its backend once), then `_tag:` (or a prefix reaching into the tag part, or the default prefix) is set up -
    for the first time or again, enabled or disabled, by the same or another task -, then tagged write + delete again"""
    for table in ([["", 0]], [["", 0], [TAG, 1]]):
        nb = len(table)
        for target in (TAG, TAG + "t", ""):
            for dis in (None, "kw"):
                for actor in (0, 1):
                    ops = [["fork", 0, 1],
                           ["comp", 0, "set_tags", ["k"], ["t1"]], ["comp", 0, "one:delete", ["k"], []],
                           ["comp", 1, "one:delete", ["k2"], []],
                           ["setup", actor, target, nb, {"disable": dis} if dis else {}],
                           ["comp", 0, "set_tags", ["k"], ["t1", "t2"]], ["comp", 0, "one:delete", ["k"], []],
                           ["comp", 1, "set_tags", ["k3"], ["t2"]], ["comp", 1, "one:delete_many", ["k3", "k"], []],
                           ["comp", 0, "delete_tags", [], ["t4"]], ["comp", 1, "invalidate", ["k*"], []]]
                    yield {"regs": [list(r) for r in table], "ops": ops, "kind": "comp_rereg_enum",
                           "tagreg": [["t1", "k"], ["t2", "k{x}"]], "tagsets": {"t4": ["k", "k2", "k3"]}}


def gen_comp_rereg(rng, prefixes):
    """random histories: composites (tag bookkeeping included) interleaved with registrations of `_tag:`, of prefixes reaching
    into the tag part and of ordinary prefixes"""
    regs = mk_regs(prefixes, rng)
    nb = len(regs)
    keys, absent, tagreg, tagsets = comp_world(prefixes, rng)
    live, ops = [0], []

    def use(n):
        for _ in range(n):
            c = rng.choice(live)
            ops.append(rng.choice(comp_body(c, keys, absent, rng, held=False)))

    use(rng.randint(2, 4))
    for _ in range(rng.randint(1, 3)):
        if rng.random() < 0.3 and len(live) < 3:
            ops.append(["fork", rng.choice(live), len(live)])
            live.append(len(live))
        p = rng.choice([TAG, TAG, TAG + "t", TAG + "t1", "", rng.choice(prefixes)])
        ops.append(["setup", rng.choice(live), p, nb, rand_opts(rng, 0.25, 0.25)])
        nb += 1
        c = rng.choice(live)
        k = rng.choice(keys)
        ops += [["comp", c, "set_tags", [k], ["t1", "t2"]], ["comp", rng.choice(live), "one:delete", [k], []]]
        use(rng.randint(1, 3))
    return {"regs": regs, "ops": ops, "kind": "comp_rereg", "tagreg": tagreg, "tagsets": tagsets}


def gen_comp_big(rng):
    """delete_tags of a tag with exactly 100 and with 101 members: the second round of the `while True` loop"""
    for n in (100, 101):
        members = [f"m{j}" for j in range(n)]
        for dis in ([], ["delete_many"], ["set_pop"]):
            ops = ([["disable", 0, "", dis]] if dis else []) + [["comp", 0, "delete_tags", [], ["big"]], ["comp", 0, "delete_tags", [], ["big"]]]
            yield {"regs": [["", 0], [TAG, 1]], "ops": ops, "kind": "comp_big", "tagreg": [["big", "m{x}"]], "tagsets": {"big": members}}


def gen_dec_warm(rng, prefixes, disabled, order):
    """decorated functions with a result STORED EARLIER (warm-up calls while everything is enabled), then called again while
    `disabled` (single commands / pairs) is switched off: for all backends, for the owner of the key only, for another backend
    only; by disable(), inside disabling(), or inherited by a child task"""
    regs = mk_regs(prefixes, rng)
    kinds = list(rc.DECORATORS) + list(rc.TAG_DECORATORS)
    rng.shuffle(kinds)
    keys = {dk: f"{rng.choice(prefixes)}w!#{j}" for j, dk in enumerate(kinds)}
    ops = [["dec", 0, dk, keys[dk], 2] for dk in kinds]                     # warm-up: the first call stores, the second is served
    targets = list(prefixes) if order != "one_prefix" else [rng.choice(prefixes)]
    ctx = 0
    if order == "disabling":
        ops += [["enter", 0, p, disabled] for p in targets]
    elif order == "child":
        ops += [["disable", 0, p, disabled] for p in targets] + [["fork", 0, 1]]
        ctx = 1
    else:
        ops += [["disable", 0, p, disabled] for p in targets]
    rng.shuffle(kinds)
    ops += [["dec", ctx, dk, keys[dk], 3] for dk in kinds]
    if order == "disabling":
        ops += [["exit", 0] for _ in targets]
        ops += [["dec", 0, dk, keys[dk], 2] for dk in kinds[:6]]             # enabled again: stored results are served again
    return {"regs": regs, "ops": ops, "kind": "dec_warm_" + order, "warm": True}


def gen_dec_tags(rng, prefixes, state):
    """decorators with tags= (every stored result is registered in its tag sets) under partial disables, then the key is deleted"""
    regs = mk_regs(prefixes, rng)
    base = [p for p in prefixes if p != TAG]
    ops = []
    if state == "set_add_off":
        ops += [["disable", 0, p, ["set_add"]] for p in prefixes]
    elif state == "set_remove_off":
        ops += [["disable", 0, p, ["set_remove"]] for p in prefixes]
    elif state == "tag_prefix_off":
        ops.append(["disable", 0, TAG, []])
    elif state == "set_off":
        ops += [["disable", 0, p, ["set"]] for p in prefixes]
    elif state == "full":
        ops += [["disable", 0, p, []] for p in prefixes]
    for j, dk in enumerate(rng.sample(rc.TAG_DECORATORS, 3)):
        key = f"{rng.choice(base)}d!#{j}"
        ops.append(["dec", 0, dk, key, 2])
        ops.append(["comp", 0, "one:delete", [key], []])
    ops.append(["comp", 0, "delete_tags", [], list(rc.DEC_TAGS)])
    return {"regs": regs, "ops": ops, "kind": "dec_tags_" + state}


def prefix_sets(alphabet, maxsize=4):
    for n in range(0, maxsize + 1):
        for comb in itertools.combinations(alphabet, n):
            yield list(comb)


# ---- interesting states -----------------------------------------------------------------------------------

def interesting(sc, run):
    tags = set()
    regs_at = regs_before(sc)
    routed: dict[str, int] = {}              # key -> backend it was routed to when it was last used
    cfg_dis = {r[1] for r in sc["regs"] if reg_opts(r).get("disable")}
    setup_by: dict[int, int] = {}
    for i, (op, st) in enumerate(zip(sc["ops"], run["steps"])):
        regs = regs_at[i]
        if op[0] == "setup":
            opts = (op[4] if len(op) > 4 else None) or {}
            tags.add("registration_after_commands" if routed else "registration_before_any_command")
            if any(r[0] == op[2] for r in regs):
                tags.add("prefix_registered_again" + ("_disabled" if opts.get("disable") else ""))
            if opts.get("disable"):
                cfg_dis.add(op[3])
                setup_by[op[3]] = op[1]
        if op[0] in ("disable", "enable", "enter", "exit") and "exc" not in st:
            tgt = longest(regs, st["prefix"] if op[0] == "exit" else op[2])
            if tgt in cfg_dis and len(st["views_after"]) >= 2:
                tags.add("control_call_on_configured_disabled_backend_with_other_tasks_watching")
        if op[0] == "cmd":
            for key in op[3]:
                b = longest(regs, key)
                if key in routed and routed[key] != b and op[2] not in rc.GLOBAL:
                    tags.add("key_rerouted_by_registration")
                if op[2] not in rc.GLOBAL:
                    routed[key] = b
            dis_ = {int(b): d for b, d in st["dis"].items()}
            isinit = {int(b): d for b, d in st.get("isinit", {}).items()}
            owners = [longest(regs, key) for key in op[3]] if op[2] not in rc.GLOBAL else list({r[0]: r[1] for r in regs}.values())
            if st.get("inv") and any(dis_.get(b) for b in owners if b is not None):
                tags.add("disabled_command_inside_invalidate_further")
                if op[2] in RETRIEVE_DEL:
                    tags.add("disabled_retrieve_command_inside_invalidate_further")
            if any(dis_.get(b) and not isinit.get(b, True) for b in owners if b is not None):
                tags.add("disabled_command_on_uninitialised_backend")
            if any(e["cmd"] == "init" for e in rc.outer(st["log"])):
                tags.add("backend_initialised_by_enabled_command")
            if st.get("inv") and any(e["cmd"] in RETRIEVE_DEL.values() and e["cmd"] != op[2] for e in rc.outer(st["log"])):
                tags.add("enabled_read_replaced_by_deletion")
            if st.get("inv") and op[2] in RETRIEVE_DEL and any(
                    st.get("disdel", {}).get(str(b)) and not dis_.get(b) for b in owners if b is not None):
                tags.add("enabled_read_inside_invalidate_further_with_its_deletion_disabled")
            if any(dis_.get(b) and b in cfg_dis and setup_by.get(b, 0) != op[1] for b in owners if b is not None):
                tags.add("configured_disabled_backend_used_by_task_that_did_not_set_it_up")
        if op[0] == "comp":
            name = op[2]
            log = [e for e in st["log"] if e["kind"] != "body"]
            calls0 = [e for e in log if e["depth"] == 0]
            disall = {int(b): set(v) for b, v in st["disall"].items()}
            if st.get("full"):
                tags.add("composite_while_fully_disabled")
            elif any(disall.values()):
                tags.add("composite_with_some_command_disabled")
            if st.get("inv"):
                tags.add("composite_inside_invalidate_further")
            if st.get("intx"):
                tags.add("composite_inside_transaction")
            if name in ("set_tags", "setnx_tags", "incr_tags") and any(e["cmd"] in ("set", "incr") for e in calls0):
                kb = longest(regs, op[3][0])
                for tg in op[4]:
                    tb = longest(regs, TAG + tg)
                    if tb is not None and "set_add" in disall.get(tb, ()) and not any(e["cmd"] == "set_add" for e in calls0):
                        tags.add("tagged_write_allowed_but_set_add_disabled")
                        if tb != kb and tb in st["fulloff"] and kb not in st["fulloff"]:
                            tags.add("tagged_write_with_only_the_tag_prefix_disabled")
                    if tb is not None and tb != kb and any(e["cmd"] == "set_add" and e["b"] == tb for e in calls0):
                        tags.add("set_add_routed_to_dedicated_tags_backend")
            if any(is_callback(e) for e in log):
                tags.add("remove_callback_issued_set_remove")
                if any(o[0] == "setup" and o[2].startswith(TAG) for o in sc["ops"][:i]):
                    tags.add("remove_callback_after_tags_backend_was_registered_again")
                if any(is_callback(e) and longest(regs, TAG) != e["b"] for e in log):
                    tags.add("remove_callback_follows_prefix_reaching_into_the_tag")
            tb = longest(regs, TAG)
            if any(st["keytags"].get(k) for e in calls0 for inv_ in e.get("removed", []) for k in inv_) and tb is not None \
                    and "set_remove" in disall.get(tb, ()):
                tags.add("remove_callback_with_set_remove_disabled")
            if st.get("exc") == "Locked":
                tags.add("lock_refused_locked_error")
            for e in calls0:
                if e.get("probe"):
                    tags.add("lock_probe_issued")
                    if longest(regs, rc.PROBE_MSG) != e["b"]:
                        tags.add("lock_probe_answered_by_owner_of_key_not_of_message_text"
                                 + ("_no_default_backend" if longest(regs, rc.PROBE_MSG) is None else ""))
            if name in ("lock", "lock_wait") and any(e["cmd"] == "set_lock" and e.get("ret", True) is not None and not e.get("ret", True)
                                                     for e in calls0) and not any(e.get("probe") for e in calls0):
                tags.add("lock_probe_suppressed_ping_disabled_for_owner")
            if name in ("lock", "lock_wait") and st.get("bodies") == 1 and not any(e["cmd"] == "unlock" for e in calls0):
                tags.add("lock_block_ran_unlocked_because_disabled")
            if name == "lock_wait" and sum(1 for e in calls0 if e["cmd"] == "set_lock") >= 2:
                tags.add("lock_wait_loop_went_round")
            if name == "delete_tags" and sum(1 for e in calls0 if e["cmd"] == "set_pop") > len(op[4]):
                tags.add("delete_tags_second_round")
            if name == "delete_tags" and any(e["cmd"] == "set_pop" and e.get("ret") for e in calls0) \
                    and not any(e["cmd"] == "delete_many" for e in calls0):
                tags.add("delete_tags_members_popped_but_delete_many_disabled")
            if name == "get_or_set" and st.get("bodies") == 1 and not any(e["cmd"] == "get" for e in calls0):
                tags.add("get_or_set_default_computed_because_get_disabled")
            if st.get("exc") == "NC":
                tags.add("composite_not_configured")
        if op[0] == "dec" and sc.get("warm") and "disall" in st and not st.get("full") and "exc" not in st:
            owners = {e["b"] for j2, o in enumerate(sc["ops"][:i]) if o[0] == "dec" and o[2:4] == op[2:4]
                      for e in run["steps"][j2].get("log", []) if e["kind"] != "body"}
            offs = [set(st["disall"].get(str(b), [])) for b in owners]
            off = set.intersection(*offs) if offs else set()
            gates = SERVE_GATES.get(op[2]) or []
            if any(g in off for g in gates):
                tags.add("warm_decorator_called_with_a_serve_gate_disabled")
                if "get" not in off:
                    tags.add("warm_decorator_with_only_a_non_get_gate_disabled")
            elif off and any(o[0] == "dec" and o[3] == op[3] for o in sc["ops"][:i]):
                tags.add("warm_decorator_called_with_other_command_disabled")
        if op[0] == "dec" and op[2] in rc.TAG_DECORATORS:
            tags.add("decorator_with_tags" + ("_while_fully_disabled" if st.get("full") else ""))
        if op[0] == "cmd":
            name, ks = op[2], op[3]
            calls = rc.outer(st["log"])
            dis = {int(b): d for b, d in st["dis"].items()}
            if st.get("exc") == "NC":
                tags.add("not_configured")
            if any(nested_depth(regs, k) >= 2 for k in ks) and name not in rc.GLOBAL:
                tags.add("nested_prefixes_match")
            routes = [longest(regs, k) for k in ks]
            if name in rc.MULTI and len(set(routes)) >= 2:
                tags.add("multi_key_spans_backends")
                seen, inter = [], False
                for b in routes:
                    if seen and b != seen[-1] and b in seen:
                        inter = True
                    seen.append(b)
                if inter:
                    tags.add("multi_key_interleaved")
                ds = {bool(dis.get(b)) for b in routes if b is not None}
                if ds == {True, False}:
                    tags.add("multi_key_partly_disabled")
            if name not in rc.GLOBAL and routes and routes[0] is not None and dis.get(routes[0]):
                tags.add("short_circuit" + ("_in_tx" if st.get("intx") else ""))
            if name in rc.GLOBAL and any(dis.values()):
                tags.add("global_cmd_partly_disabled")
            if st.get("intx") and calls:
                tags.add("issued_in_tx")
        elif op[0] in ("fork", "disable", "enable", "enter", "exit"):
            va = st["views_after"]
            if len({json.dumps(v, sort_keys=True) for v in va.values()}) >= 2:
                tags.add("tasks_see_different_states")
            if st.get("exc") == "NC":
                tags.add("control_not_configured")
        elif op[0] == "dec":
            if st.get("full"):
                tags.add("decorated_call_while_fully_disabled")
        elif op[0] == "cstart" and "exc" not in st:
            cc = run["ccalls"]
            flying = [cc[str(c)] for c in st["in_flight"] if cc[str(c)]["fid"] == op[2]]
            same = [d for d in flying if str(d["arg"]) == str(op[4])]
            if st["full"] and flying:
                tags.add("overlapping_calls_while_fully_disabled")
            if st["full"] and same:
                tags.add("overlapping_same_key_while_fully_disabled")
            if st["full"] and any(not d["full"] for d in same):
                tags.add("fully_disabled_call_meets_enabled_call_in_flight")
            if not st["full"] and any(d["full"] for d in same):
                tags.add("enabled_call_meets_fully_disabled_call_in_flight")
            if not st["full"] and st["exec"] is None and st["done"] is None and same:
                tags.add("call_joined_or_locked_behind_call_in_flight")
            if not st["full"] and st["reads_off"] and flying:
                tags.add("overlapping_calls_while_reads_disabled")
    return tags


# ---- entry points -----------------------------------------------------------------------------------------

def corpus_cases():
    d = ROOT / "corpus" / PROP
    for f in sorted(d.glob("*.json")):
        c = json.loads(f.read_text())
        yield f.name, c["scenario"] if "scenario" in c else c


def check_enum(chk: Check) -> bool:
    """the Command enum of the code and of the model list the same values"""
    model = set(DRIVER.ask(["cmds"])[0].split(","))
    impl = set(rc._commands())
    if model != impl:
        chk.violation(f"cashews.commands.Command changed: code has {sorted(impl - model)} extra, model has {sorted(model - impl)} extra",
                      {"broken": "Cmd enumeration of lean/CashewsVerif/Model/Disable.lean <-> cashews/commands.py", "impl": sorted(impl), "model": sorted(model)},
                      signature=None, no_input=True)
        return False
    missing = impl - set(rc.INVOKE)
    if missing:
        chk.violation(f"public commands without an invocation in the harness: {sorted(missing)}",
                      {"broken": "harness/routectl.py INVOKE <-> cashews/commands.py", "missing": sorted(missing)}, signature=None, no_input=True)
        return False
    return True


def generate(chk: Check):
    rng = chk.rng
    cases = []
    alphabet = P_THORO if chk.thorough else P_QUICK
    sets = list(prefix_sets(alphabet, 4))
    n_sets = len(sets)
    # (A) routing: every prefix set of size <= 4 (exhaustive), every key of the alphabet + extensions
    for s in sets:
        cases.append(("routing", gen_routing(s, alphabet, rng)))
    wr_sets = sets if chk.thorough else rng.sample(sets, 120)
    for s in wr_sets:
        if s:
            cases.append(("write_read", gen_write_read(s, alphabet, rng)))
    for s in rng.sample([x for x in sets if x], chk.budget(10, 60)):
        cases.append(("routing_reregister", gen_routing(s, alphabet, rng, reregister=True)))
    # larger tables (sampled)
    for _ in range(chk.budget(10, 80)):
        s = rng.sample(P_THORO, rng.randint(5, 6))
        cases.append(("routing_large", gen_routing(s, P_THORO, rng)))
    # (B) every command x disabled subsets of size <= 2 + all, outside / inside a transaction, both nestings
    cmds = rc._commands()
    subsets = [[]] + [[c] for c in cmds]
    pairs = [list(p) for p in itertools.combinations(cmds, 2)]
    subsets += pairs if chk.thorough else rng.sample(pairs, 80)
    tables = [[""], ["", "a"], ["a", "b"], ["", "a", "ab"]]
    orders = ["outside", "tx_in_disabling", "disabling_in_tx", "plain"]
    for j, sub in enumerate(subsets):
        t = tables[j % len(tables)] if not chk.thorough else rng.choice(tables)
        for order in (orders if (chk.thorough or len(sub) <= 1) else [orders[j % 4]]):
            target = rng.choice(t + [t[-1] + "k"])
            cases.append(("disable_sweep", gen_disable_sweep(t, sub, target, rng, order)))
    # (C) tasks
    for _ in range(chk.budget(320, 6000)):
        t = rng.choice(tables + [["", "a:", "ab:c", "b"]])
        cases.append(("tasks", gen_tasks(rng, t)))
    # (D) decorators
    for _ in range(chk.budget(6, 40)):
        for state in ["full", "full_then_child_enables", "get_off", "one_prefix_off", "none"]:
            t = rng.choice(tables)
            cases.append(("decorators", gen_decorators(rng, t, state)))
    # (E) overlapping calls of decorated functions
    for sc in gen_conc_enum():
        cases.append(("conc_full_enum", sc))
    for _ in range(chk.budget(20, 150)):
        for state in CONC_STATES:
            t = rng.choice(tables)
            cases.append(("conc", gen_conc(rng, t, state)))
    # (H) backends configured as disabled, control calls from other tasks, registrations in between
    for sc in gen_cfg_enum():
        cases.append(("cfg_enum", sc))
    for _ in range(chk.budget(120, 2500)):
        t = rng.choice(tables + [["", "a:", "ab:c", "b"]])
        cases.append(("tasks_cfg", gen_tasks_cfg(rng, t)))
    # (F) histories interleaving commands with (re-)registration
    for sc in gen_rereg_enum():
        cases.append(("rereg_enum", sc))
    for _ in range(chk.budget(100, 1500)):
        t = rng.choice(tables + [["", "a:", "ab:c", "b"], ["u:", "u:1"]])
        cases.append(("rereg", gen_rereg(rng, t)))
    # (G) every command x disabled state inside invalidate_further() and on never-initialised backends
    inv_orders = ["inv_in_disabling", "disabling_in_inv", "tx", "child", "lazy_only"]
    inv_subsets = [[]] + [[c] for c in cmds] + [[a, b] for a, b in RETRIEVE_DEL.items()] + \
                  [["get", "get_many", "get_match", "incr"]]
    for j, sub in enumerate(inv_subsets):
        for o, order in enumerate(inv_orders):
            if not chk.thorough and len(sub) == 1 and sub[0] not in RETRIEVE_DEL and sub[0] not in ("scan", "delete") \
                    and (j + o) % 5:
                continue                      # quick: the non-retrieve singles rotate through the orders
            t = tables[(j + o) % len(tables)] if not chk.thorough else rng.choice(tables)
            target = rng.choice(t + [t[-1] + "k"])
            cases.append(("inv_sweep", gen_inv_sweep(t, sub, target, rng, order, ["all", "some", "none"][(j + o) % 3]
                                                     if order != "lazy_only" else rng.choice(["all", "some"]))))
    # (I) composite commands: every single disabled command and 'all' x every target prefix (incl. `_tag:` only) x five
    #     surroundings; the whole cache disabled; inside a transaction; random task nestings; decorators with tags=
    comp_orders = ["plain", "disabling", "inv", "child", "lazy"]
    n = 0
    for j, sub in enumerate([[]] + [[c] for c in cmds]):
        relevant = not sub or sub[0] in COMP_CMDS
        tabs = COMP_TABLES if (chk.thorough and relevant) else [COMP_TABLES[(j + x) % len(COMP_TABLES)] for x in range(2 if relevant else 1)]
        for t in tabs:
            for target in t:
                if not relevant and target != t[j % len(t)]:
                    continue                      # commands no composite uses: one target is enough
                for order in ([comp_orders[(n + x) % len(comp_orders)] for x in range(3)] if chk.thorough else [comp_orders[n % len(comp_orders)]]):
                    cases.append(("comp_sweep", gen_comp_sweep(t, sub, [target], rng, order)))
                n += 1
        # ... for ALL backends at once (`cache.disable(cmd)` on every prefix; sub == []: the whole cache is disabled)
        t = COMP_TABLES[j % len(COMP_TABLES)]
        if relevant:
            cases.append(("comp_sweep_all", gen_comp_sweep(t, sub, list(t), rng, comp_orders[j % len(comp_orders)])))
            cases.append(("comp_tx", gen_comp_tx(t, sub, rng.choice(t), rng)))
    for _ in range(chk.budget(60, 800)):
        cases.append(("comp_tasks", gen_comp_tasks(rng, rng.choice(COMP_TABLES))))
    for sc in gen_comp_big(rng):
        cases.append(("comp_big", sc))
    for sc in gen_comp_rereg_enum():
        cases.append(("comp_rereg_enum", sc))
    for _ in range(chk.budget(40, 600)):
        cases.append(("comp_rereg", gen_comp_rereg(rng, rng.choice(COMP_TABLES))))
    for state in ["set_add_off", "set_remove_off", "tag_prefix_off", "set_off", "full", "none"]:
        for _ in range(chk.budget(2, 12)):
            cases.append(("dec_tags", gen_dec_tags(rng, rng.choice([["", TAG], [""], ["", "a", TAG]]), state)))
    # (J) decorated functions with a stored result under every single disabled command (and pairs with get / incr)
    warm_orders = ["plain", "disabling", "child", "one_prefix"]
    warm_sets = [[c] for c in cmds] + [["get", "incr"], ["incr", "set"], ["get_bits", "incr_bits"], ["set_lock", "incr"]]
    for j, sub in enumerate(warm_sets):
        gate = sub[0] in ("get", "incr", "get_bits") or len(sub) > 1
        for o, order in enumerate(warm_orders):
            if not (chk.thorough or gate) and (j + o) % 4:
                continue                      # quick: commands no strategy gates on rotate through the surroundings
            t = [[""], ["", "a"], ["a", "b"], ["", "a", "ab"]][(j + o) % 4] if not chk.thorough else rng.choice(tables)
            cases.append(("dec_warm", gen_dec_warm(rng, t, sub, order)))
    return cases, n_sets, len(alphabet)


def run(chk: Check) -> int:
    proof = proof_stage(PROP, "driver_c17", chk.thorough) if not getattr(chk, "skip_proof", False) else None
    rc.install()
    found = found_spec = found_model = 0
    evaluations = 0
    steps = 0
    distinct = set()
    kinds: dict[str, int] = {}
    inter: dict[str, int] = {}
    cmd_hist: dict[str, int] = {}
    samples = []
    ok_enum = check_enum(chk)
    known_examples: list = []
    KNOWN_SEEN.clear()
    cases = [("corpus:" + name, sc) for name, sc in corpus_cases()]
    ncorpus = len(cases)
    gen, n_sets, n_alpha = generate(chk)
    cases += gen
    routing_lookups = 0
    for origin, sc in cases:
        if not valid(sc):
            raise HarnessError(f"generator produced an invalid scenario ({origin})")
        run_, s, m = run_case(sc)
        evaluations += 1
        steps += len(sc["ops"])
        kinds[origin.split(":")[0]] = kinds.get(origin.split(":")[0], 0) + 1
        for op in sc["ops"]:
            if op[0] == "cmd":
                cmd_hist[op[2]] = cmd_hist.get(op[2], 0) + 1
                routing_lookups += len(op[3])
            elif op[0] == "comp":
                cmd_hist["comp:" + op[2]] = cmd_hist.get("comp:" + op[2], 0) + 1
            else:
                cmd_hist["~" + op[0]] = cmd_hist.get("~" + op[0], 0) + 1
        for x in run_.get("known", []):
            msg = f"KNOWN-FINDING: property={PROP} {x[1]} {LOCAL_KNOWN[x[1]]}"
            if msg not in chk.known_hits:
                chk.known_hits.append(msg)
                chk.say(msg)
                known_examples.append({"scenario": {k: v for k, v in sc.items()}, "step": x[0], "text": x[2]})
        tags = interesting(sc, run_)
        for t in tags:
            inter[t] = inter.get(t, 0) + 1
        if tags:
            distinct.add(json.dumps([sc["regs"], sc["ops"]], sort_keys=True))
        if len(samples) < 4 and tags and len(sc["ops"]) <= 14 and origin.split(":")[0] not in {x["origin"] for x in samples}:
            samples.append({"origin": origin.split(":")[0], "regs": sc["regs"], "ops": sc["ops"],
                            "impl": [show_out(st) if ("r" in st or "exc" in st) else "-" for st in run_["steps"]]})
        if s or m:
            # contradictions of the property are reported in preference to mere model differences
            if s:
                found_spec += 1
            elif found_model >= 2:
                continue
            else:
                found_model += 1
            found += 1
            report(chk, sc, origin)
            if found_spec >= 3 or found >= 5:
                break
    if proof is not None:
        chk.proof_broken(proof, found > 0)
    chk.coverage.update({
        "evaluations": evaluations,
        "distinct_nontrivial": len(distinct),
        "rule": "scenario = registered prefix table + operations (control ops in real asyncio tasks, public commands in/outside "
                "cache.transaction(), decorated calls). Enumerated: every prefix set of size <= 4 over the tier's alphabet x every "
                "key of alphabet+extensions (single-key reads, get_many over interleaved backends, writes); every single disabled "
                "command and 'all' in four nestings with a transaction, pairs of disabled commands (all pairs in thorough, 80 sampled "
                "in quick) x every public command; sampled from VERIF_SEED: task nestings, 5-6 prefix tables, re-registration, "
                "decorators. A scenario is non-trivial iff it reached at least one interesting state (see interesting_states_cases); "
                "Overlapping decorated calls: every decorator variant x equal/different arguments x both release orders of two "
                "calls (and three equal calls released middle-first) under a full disable (enumerated); sampled: 1-3 functions x "
                "2-4 calls each x random start/release interleavings x 8 control states incl. control operations between the "
                "calls and a child task that re-enabled the cache. Registration histories: key used / prefix registered again "
                "(same, longer capturing the key, default; enabled or configured disabled; same or other task) / key used again "
                "(enumerated), random histories of 1-3 registrations among commands of up to 3 tasks (sampled). Middleware stack: "
                "'all', every single command, every retrieve command with its replacing deletion x {invalidate_further inside "
                "disabling, disabling inside invalidate_further, inside a transaction, inherited by a child task, never-initialised "
                "backends only} x every public command (thorough: all; quick: non-retrieve singles rotate through the orders). "
                "Configured-disabled backends: 4 spellings x 5 control calls by another task with a sibling and the parent "
                "watching, and a fully configured-disabled cache (enumerated); random task nestings over such tables with "
                "registrations in between (sampled). Composite commands (set/setnx/incr with tags, get_or_set, delete_tags, lock free / "
                "held / wait, @invalidate, delete / delete_many / delete_match of tagged keys, decorators with tags=): 'all' and every "
                "single command x every prefix of a table as target (6 tables with / without a dedicated `_tag:` backend; quick: 1-2 tables "
                "per command, thorough: all) x {disable, disabling(), inside invalidate_further(), inherited by a child while a sibling "
                "does not, never-initialised backends} (quick: one, thorough: three of the five, rotating), the same for all backends at once and inside "
                "a transaction, delete_tags of 100 / 101 members (enumerated); random control operations of up to 3 tasks with composites "
                "in between (sampled); tag bookkeeping across registrations: tagged write + delete / `_tag:`, a prefix reaching into the tag part or "
                "the default prefix set up (first time or again, enabled or disabled, same or other task) / tagged write + delete again "
                "(enumerated), random histories of composites and registrations (sampled). Warm decorators: all 21 decorator kinds called "
                "twice while enabled (result stored), then three times under every single disabled command and four pairs x {all "
                "backends, one prefix, disabling(), inherited by a child} (quick: commands that gate no strategy rotate through the "
                "surroundings), judged by the serve-gate oracle (SERVE_GATES). distinct = distinct (table, op list)",
        "exhaustive": True,
        "exhaustive_subspace": f"all {n_sets} prefix sets of size <= 4 over a {n_alpha}-string alphabet x all keys (routing); "
                               f"all 28 single-command disabled sets + 'all' x 4 transaction nestings x all {len(rc.INVOKE)} public commands; "
                               f"all {len(rc.CDECORATORS)} decorator variants x (equal | different arguments) x both release orders of two "
                               f"overlapping calls under a full disable; all 28 single-command disabled sets + 'all' x every prefix of a "
                               f"table (incl. `_tag:` alone) x all {len(rc.COMPOSITES)} composite commands + the deleting commands on tagged keys",
        "overlapping_call_decorators": sorted(rc.CDECORATORS),
        "overlapping_calls_started": cmd_hist.get("~cstart", 0),
        "prefix_sets_enumerated": n_sets,
        "routing_lookups": routing_lookups,
        "operations_executed": steps,
        "samples": samples,
        "corpus_cases": ncorpus,
        "scenario_kinds": kinds,
        "op_histogram": cmd_hist,
        "interesting_states_cases": inter,
        "command_enum_in_sync": ok_enum,
        "composite_commands": sorted(rc.COMPOSITES) + ["one:<public command>"] + sorted(rc.TAG_DECORATORS),
        "local_known_findings": {k: {"what": v, "observations": KNOWN_SEEN.get(k, 0)} for k, v in LOCAL_KNOWN.items()},
        "local_known_finding_example": known_examples[:1],
        "trusted_base": TRUSTED,
        "partial": PARTIAL,
    })
    chk.assumptions.extend(TRUSTED)
    return chk.finish(proof)


def replay(chk: Check, path: str) -> int:
    c = json.loads(Path(path).read_text())
    sc = c["scenario"] if "scenario" in c else c
    rc.install()
    run_, s, m = run_case(sc)
    print("regs:", sc["regs"])
    for i, (op, st) in enumerate(zip(sc["ops"], run_["steps"])):
        extra = ""
        if op[0] in ("cmd", "dec"):
            extra = "  issued=" + (";".join(rc.fmt_call(e) for e in rc.outer(st["log"])) or "-")
        if op[0] == "comp":
            o, seq, cbs = comp_impl(st)
            extra = "  issued=" + (";".join(seq) or "-") + ("  remove-callback=" + ";".join(cbs) if cbs else "")
        out = show_out(st) if ("r" in st or "exc" in st) else "-"
        if op[0] == "cstart" and "exc" not in st:
            out = (f"fully_disabled={st['full']} " +
                   (f"ended at once: {show_out(st['done'])}" if st["done"] is not None else
                    f"runs execution {st['exec']} of the body" if st["exec"] is not None else "waits (no execution of its own)"))
            extra = "  issued=" + (";".join(rc.fmt_call(e) for e in rc.outer(st["log"])) or "-")
        elif op[0] == "cfin":
            out = (f"released execution {st['released']}" if st["released"] is not None else "nothing to release") + \
                "; ended: " + (", ".join(f"call {c} <- {show_out(d)}" for c, d in st["done"].items()) or "-")
        print(f"{i:3d} {str(op):70s} -> {out}{extra}")
    for fid, d in run_.get("drain", {}).items():
        if d["done"]:
            print(f"    remaining bodies of function {fid} released; ended: " +
                  ", ".join(f"call {c} <- {show_out(o)}" for c, o in d["done"].items()))
    for fid, f in run_.get("cfns", {}).items():
        print(f"    function {fid} (@{f['kind']}): executions [number, started by call, argument] = {f['execs']}")
    for i, sig, t in run_.get("known", []):
        print(f"KNOWN-FINDING step {i} [{sig}]: {t}")
    for i, sig, t in s:
        print(f"PROPERTY step {i} [{sig}]: {t}")
    for i, t in m:
        print(f"MODEL    step {i}: {t}")
    if not s and not m:
        print("replay: no disagreement")
        return 0
    print(f"VIOLATION property={PROP} replay={path}" + ("" if s else " no-failing-input-found"))
    return 1
