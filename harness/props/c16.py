"""C16 - a failing backend never leaves a task stuck in a transaction or locks held.

proof: lean/CashewsVerif/Props/C16.lean - for EVERY fault oracle and every program: context reset after the block,
       a write after the block reaches the store, every lock released or its own unlock failed (and it lapses within
       the timeout), a failed body applies nothing, a fault is never silent.
tie:   fault-injection correspondence.  For each program of the family (3 modes x 1-2 backends x context-manager /
       decorator form, bodies of a few facade commands ending normally or by raising, optional contention) the real
       `Cache.transaction` block runs on `FaultyMemory` backends (harness/txfault.py) with NO fault, then with EVERY
       single position of the command trace failing, then with EVERY pair (second position taken from the trace the
       first fault produces) - exhaustive; thorough adds every triple for the fixed family.  Every failing position comes in
       BOTH KINDS: an `Exception` (the program's class) and a BaseException that is no Exception (`asyncio.CancelledError` -
       what a backend command cut short by `asyncio.timeout()` / `wait_for` / a cancelled task ends with - or a BaseException
       subclass of our own), and every pair in all four combinations of kinds: the handlers of the code tell the kinds apart
       (`except BaseException` in Transaction.commit, `except Exception` in Transaction._rollback).  Each run is compared with
       the compiled Lean model on the same (program, fault set)  [impl == model]  and with the property statement
       evaluated on what the implementation did  [oracle].
       Programs also contain multi-key commands (set_many / delete_many over 2-3 keys) and CONTENDING HOLDERS: other tasks
       inside their own real transaction blocks that hold the lock of a key the victim writes and leave their block at a
       chosen moment - just before the victim's backend command number i (EVERY i of the trace) or after the victim's block
       has been left; the fault sets are enumerated for every such placement.  The lock keys are inspected after the
       victim's block is left AND every holder has finished AND any task still running has had its polling periods.
       The WHOLE store entries are compared (model and oracle): value AND deadline of every key, the deadline measured on the
       virtual clock (get_expire + moving the clock to the tick at which the key lapses); initial stores carry TTLs; bodies
       contain the read-modify-write commands expire / incr with a ttl / set(exist=True|False), whose own backend read
       (get / exists) is issued after the key's lock was taken and can fail; after a failed body no write command may have
       reached a backend at all.
"""
from __future__ import annotations

import itertools
import json
from pathlib import Path

from .. import txfault as tf
from ..core import ROOT, Check, Driver, HarnessError, ddmin, proof_stage
from ..vtime import REAL_PERF

PROP = "C16"
DRIVER = Driver("driver_c16", "Drivers/C16.lean")
KEYS = ["exc", "ctx", "trace", "outs", "locks", "data", "probe", "store"]

TRUSTED = [
    "Lean 4.33.0 kernel; axioms of every theorem audited to be within {propext, Classical.choice, Quot.sound}",
    "hand-written model lean/CashewsVerif/Model/TxFault.lean of cashews/wrapper/transaction.py and cashews/backends/transaction.py, "
    "tied to the code by this run's exhaustive fault-injection correspondence",
    "a failing command is modelled as raising INSTEAD of executing (no effect on the backend); a command that takes effect and "
    "then reports failure is outside the model and the family",
    "asyncio facts used by the model of `asyncio.gather` in _unlock_updates: child tasks of a non-suspending backend all run to "
    "completion in creation order before the awaiting coroutine resumes, which gets the first exception (exercised on the real "
    "event loop by every run with a failing unlock)",
    "the iteration order of the `_locks` set is taken from each implementation run and given to the model (`uprio`); the theorems "
    "hold for every order",
    "harness: FaultyMemory (harness/txfault.py), virtual clock, canonicalisation of the command trace",
    "injected exceptions: of Exception kind CacheBackendInteractionError / RuntimeError, of BaseException kind "
    "asyncio.CancelledError (subclass carrying the command index; raised by the failing command itself, as when the command is "
    "cut short by asyncio.timeout()/wait_for) / a BaseException subclass of our own; the model only knows the kind.  The "
    "cancellation is injected as the exception the command ends with - the bookkeeping of Task.cancel()/uncancel() and of "
    "asyncio.timeout() around the block is outside the family",
    "asyncio fact used by the model for BaseException kinds: a CancelledError / BaseException raised by a child of "
    "asyncio.gather reaches the awaiter like any first exception, the sibling unlocks still run (exercised on the real loop)",
    "contending holders are real transaction blocks in other asyncio tasks on the same Cache, parked on an asyncio.Event; a holder "
    "is released while the victim's backend command i is suspended (before it takes effect) or after the victim's block; the model "
    "sees a holder only as a foreign lock entry and a release event `env i` (a holder's only effect on the stores is its lock)",
    "deadlines of store entries are observed through the backend API on the virtual clock: get_expire (whole seconds) narrows the instant "
    "down, then the clock is moved tick by tick (bisection) to the first tick at which get_expire reports the key gone, and put back; "
    "only whole-tick deadlines occur (dyadic TTLs, no lock-steps in programs with TTLs)",
    "the 0.1 s lock-steps of the wait loop are symbolic in the correspondence (model run with stepDt = 0): the lease of a lock "
    "acquired after a lock-step is checked on the implementation (gone exactly timeout after its acquisition) but not compared",
]


# ---------------------------------------------------------------------------------------------------------
# the family

def P(mode, nb, body, timeout=16, form="ctx", exc="interaction", data=(), flocks=(), holders=(), bkind="cancel", bexc=None, obj=None):
    d = {"mode": mode, "timeout": timeout, "nb": nb, "form": form, "exc": exc, "bkind": bkind,
         "data": [list(d) for d in data], "flocks": [list(f) for f in flocks], "body": list(body)}
    if bexc:
        d["bexc"] = bexc
    if obj is not None:
        d["obj"] = obj
    if holders:
        d["holders"] = [{"b": b, "k": k, "end": end} for b, k, end in holders]
    return d


DATA1 = [(0, 1, 5, None), (0, 2, 7, 8)]
DATA2 = [(0, 1, 5, None), (0, 2, 7, 8), (1, 1, 3, None)]
DATA0 = [(0, 1, 5, None), (0, 2, 7, None)]
DATA3 = [(0, 1, 5, 40), (0, 2, 7, None)]
DATA4 = [(0, 1, 5, 40), (0, 2, 7, 6), (1, 1, 3, None), (1, 2, 2, 24)]


def fixed_family():
    out = []
    for i, mode in enumerate(["fast", "locked", "serializable"]):
        form = ["ctx", "decor"][i % 2]
        other = ["decor", "ctx"][i % 2]
        out += [
            P(mode, 1, ["set.0.0.1.-", "set.0.1.2.8", "incr.0.2", "del.0.3"], data=DATA1, form=form),
            P(mode, 1, ["set.0.0.1.-", "incr.0.1", "get.0.2", "raise"], data=DATA1, form=other, exc="runtime"),
            P(mode, 2, ["set.0.0.1.-", "set.1.0.2.8", "incr.0.1", "set.1.1.5.-", "del.0.2"], data=DATA2, form=form),
            P(mode, 2, ["incr.0.0", "set.1.0.4.-", "get.1.1", "del.1.2", "raise"], data=DATA2, form=other),
            P(mode, 2, ["set.0.0.1.8", "adv.4", "set.0.1.2.8", "set.1.2.3.4", "adv.4", "get.1.2", "incr.1.0", "get.0.0"],
              data=DATA2, form=form, exc="runtime"),
            P(mode, 2, ["get.0.1", "incr.1.1", "incr.1.1", "set.0.3.9.-"], data=DATA2, form=other, timeout=80),
            # multi-key commands
            P(mode, 1, ["setmany.0.-.0:1+1:2+2:3", "delmany.0.2+3", "get.0.1"], data=DATA1, form=form),
            P(mode, 2, ["setmany.0.8.0:1+1:2", "setmany.1.-.0:4+2:5", "delmany.0.1+3", "incr.1.0", "raise"], data=DATA2,
              form=other, exc="runtime"),
        ]
    # contention: a lock key held for ever by someone else -> LockedError in the body after the wait loop.
    # The loop's sleeps (0.1 s each) are not whole ticks, so contended programs carry no TTLs: nothing in them depends on the clock.
    out += [
        P("locked", 2, ["set.0.0.1.-", "set.1.0.2.-", "incr.0.1", "set.1.1.5.-"], timeout=4, data=DATA0, flocks=[(0, 2)]),
        P("locked", 1, ["del.0.0", "set.0.1.2.-"], timeout=2, data=DATA0, flocks=[(0, 2)], form="decor", exc="runtime"),
        P("serializable", 2, ["set.0.0.1.-", "set.1.0.2.-", "incr.0.1"], timeout=4, data=DATA0, flocks=[(1, 0)]),
        P("serializable", 1, ["get.0.1", "set.0.0.1.-"], timeout=2, data=DATA0, flocks=[(0, 0)], form="decor"),
        P("locked", 1, ["set.0.0.1.-", "delmany.0.1+2+3"], timeout=2, data=DATA0, flocks=[(0, 3)]),
    ]
    # contending holders: another task's open transaction holds a lock the victim needs and leaves its block at a chosen
    # moment (every command position of the victim's trace, or after the victim's block)
    out += [
        P("locked", 1, ["setmany.0.-.0:1+1:2+2:3"], timeout=2, data=DATA0, holders=[(0, 1, "rollback")]),
        P("locked", 1, ["delmany.0.0+3+1", "get.0.2"], timeout=2, data=DATA0, holders=[(0, 3, "commit")], form="decor", exc="runtime"),
        P("locked", 2, ["set.1.0.2.-", "setmany.0.-.2:1+0:2", "incr.1.1"], timeout=2, data=DATA0, holders=[(0, 0, "commit")]),
        P("locked", 1, ["set.0.0.1.-", "incr.0.1", "del.0.2"], timeout=2, data=DATA0, holders=[(0, 1, "rollback")]),
        P("locked", 2, ["setmany.1.-.0:1+1:2", "delmany.0.0+1", "raise"], timeout=2, data=DATA0, holders=[(1, 1, "commit")], form="decor"),
        P("serializable", 2, ["set.0.0.1.-", "setmany.1.-.0:2+1:3"], timeout=2, data=DATA0, holders=[(1, 0, "rollback")]),
        P("serializable", 1, ["delmany.0.1+2", "set.0.0.1.-"], timeout=2, data=DATA0, holders=[(0, 3, "commit")], form="decor"),
        # two holders, released independently
        P("locked", 1, ["setmany.0.-.0:1+1:2+2:3"], timeout=2, data=DATA0, holders=[(0, 0, "commit"), (0, 2, "rollback")]),
    ]
    # several backends written in one transaction - where the kind of a failure decides which handler sees it: the commit of
    # a non-last backend fails (Transaction.commit: `except BaseException` -> the remaining ones are rolled back), the
    # rollback of a non-last backend fails (Transaction._rollback: `except Exception`); three backends: something is left to
    # roll back after the rollback of the second one failed
    out += [
        P("locked", 2, ["set.0.0.1.-", "set.1.0.2.-"]),
        P("serializable", 2, ["set.1.0.2.-", "set.0.0.1.-"], form="decor", exc="runtime", bkind="base"),
        P("locked", 2, ["set.0.0.1.-", "set.0.1.1.-", "set.1.0.2.-", "raise"], bexc="cancel"),
        P("locked", 3, ["set.0.0.1.-", "set.1.0.2.-", "set.2.0.3.-"], bkind="base"),
        P("serializable", 3, ["del.2.1", "incr.0.1", "set.1.0.2.8"], data=DATA2, form="decor"),
        P("locked", 3, ["setmany.1.-.0:1+1:2", "set.0.0.1.-", "delmany.2.0+1", "raise"], exc="runtime", bexc="cancel"),
        P("fast", 3, ["set.0.0.1.-", "set.1.0.2.8", "del.2.1"], data=DATA2, bkind="base"),
    ]
    # TTLs are data too: `expire` (on a stored key, on a key written / deleted earlier in the transaction, on a missing key),
    # `incr` with a ttl, `set` with a ttl, conditional `set(exist=...)`; initial stores with deadlines.  A failed body must leave
    # every ENTRY as it was (value and deadline); the read each of these commands issues comes after the lock was taken.
    out += [
        P("fast", 1, ["expire.0.1.8", "get.0.2"], data=DATA3),
        P("locked", 1, ["expire.0.1.8", "set.0.0.1.-"], data=DATA3),
        P("serializable", 2, ["expire.0.2.16", "expire.1.1.4", "incr.1.0.8", "raise"], data=DATA4, form="decor", exc="runtime"),
        P("locked", 2, ["expire.0.1.0", "set.0.0.1.8", "expire.0.0.4", "expire.0.3.4", "del.0.2", "expire.0.2.4", "get.1.1"], data=DATA4),
        P("locked", 1, ["setx.0.1.9.-", "setnx.0.1.8.4", "setnx.0.3.1.4", "setx.0.0.1.-", "incr.0.3.8"], data=DATA3, form="decor"),
        P("fast", 2, ["setnx.1.0.2.8", "setx.0.2.3.-", "del.0.1", "setx.0.1.4.-", "setnx.0.1.5.4", "expire.0.1.8"], data=DATA4, exc="runtime"),
        P("serializable", 1, ["incr.0.0.8", "incr.0.0.4", "adv.4", "expire.0.2.8", "incr.0.1.8", "expire.0.0.16"], data=DATA3),
        P("locked", 2, ["expire.0.2.4", "adv.8", "get.0.2", "expire.0.1.4", "setx.1.1.7.8", "adv.2", "incr.1.2.4"], data=DATA4, form="decor"),
        P("locked", 3, ["expire.2.0.8", "setnx.1.3.1.-", "expire.0.1.16"], data=DATA4 + [(2, 0, 4, None)], bkind="base"),
    ]
    # NESTED blocks on SHARED context objects: `T = cache.transaction(...)` kept by the program and entered again - nested in itself
    # (once, twice, two inner blocks one after the other), first entered inside a decorated function / inside another object's
    # block, next to blocks on objects of their own; bodies that go on after the inner block (every fault position there), that
    # raise inside the inner block, that end with it.  An inner block must be transparent: the outermost `__aexit__` alone
    # commits / rolls back / unlocks / resets the context.
    for i, mode in enumerate(["fast", "locked", "serializable"]):
        form = ["ctx", "decor"][i % 2]
        out += [
            P(mode, 1, ["set.0.0.1.-", "with.0", "set.0.1.2.-", "end", "set.0.2.3.-", "get.0.3"], data=DATA1, obj=0),
            P(mode, 1, ["with.0", "set.0.0.1.-", "with.0", "incr.0.1", "end", "end", "del.0.2", "get.0.3"], data=DATA1, obj=0, exc="runtime"),
            P(mode, 2, ["with.0", "set.0.0.1.-", "end", "get.1.1", "with.0", "del.1.2", "end", "set.1.0.2.8", "raise"], data=DATA2, obj=0),
            P(mode, 1, ["with.0", "set.0.0.1.-", "with.0", "set.0.1.2.-", "end", "get.0.2", "end", "incr.0.3"], data=DATA1, obj=0, form="decor"),
            P(mode, 2, ["with.1", "set.0.0.1.-", "with.-", "set.1.0.2.-", "end", "end", "with.d", "incr.0.1", "end", "get.1.1"], data=DATA2,
              obj=0, form=form),
            P(mode, 1, ["set.0.0.1.-", "with.0", "set.0.1.2.-", "raise", "end", "get.0.2"], data=DATA1, obj=0, bexc="cancel" if i == 1 else None),
            P(mode, 2, ["expire.0.1.8", "with.0", "with.1", "setnx.1.0.2.-", "end", "end", "incr.1.1", "with.1", "get.0.2", "end"], data=DATA4,
              obj=0, form=form, exc="runtime"),
        ]
    # EXPLICIT `await tx.commit()` / `await tx.rollback()` in the middle of the body: the transaction goes on - with an empty buffer and
    # no locks - so later commands are buffered and lock again, and a later failure rolls THEM back and releases THEIR locks
    # (every fault position after the explicit call; what an explicit commit applied stays)
    for i, mode in enumerate(["fast", "locked", "serializable"]):
        out += [
            P(mode, 1, ["set.0.0.1.-", "rollback", "set.0.1.2.-", "get.0.3"], data=DATA1),
            P(mode, 1, ["set.0.0.1.-", "commit", "set.0.1.2.-", "get.0.3"], data=DATA1, exc="runtime"),
            P(mode, 1, ["set.0.0.1.8", "incr.0.1", "commit", "del.0.2", "rollback", "set.0.3.4.-", "raise"], data=DATA1,
              bexc="cancel" if i == 2 else None),
            P(mode, 2, ["set.0.0.1.-", "set.1.0.2.-", "commit", "set.1.1.3.-", "with.0", "rollback", "end", "incr.0.1"], data=DATA2, obj=0),
            P(mode, 1, ["with.0", "set.0.0.1.-", "commit", "set.0.1.2.-", "end", "expire.0.1.8", "get.0.3"], data=DATA3, obj=0),
            P(mode, 2, ["get.0.1", "rollback", "set.0.0.1.-", "set.1.0.2.-", "rollback", "incr.1.1", "commit", "del.0.1"], data=DATA2),
        ]
    # the kind of the BaseException-only failures alternates over the family
    for i, p in enumerate(out):
        if i % 3 == 1 and p["bkind"] == "cancel":
            p["bkind"] = "base"
    return out


def gen_program(rng):
    mode = rng.choice(["fast", "locked", "locked", "serializable"])
    nb = rng.choice([1, 2, 2, 2, 3])
    flocks = []
    holders = []
    timeout = rng.choice([2, 4, 8, 16, 80])
    contended = mode != "fast" and rng.random() < 0.35
    data = []
    for b in range(nb):
        for k in range(tf.NKEYS):
            if rng.random() < 0.4:
                data.append([b, k, rng.randrange(-1, 6), None if contended else rng.choice([None, None, 4, 8, 24])])
    if contended:
        timeout = rng.choice([2, 2, 4])
        if rng.random() < 0.3:
            b = rng.randrange(nb)
            flocks = [[b, 0 if mode == "serializable" else rng.randrange(tf.NKEYS) + 1]]
        else:
            taken = set()
            for _ in range(rng.choice([1, 1, 1, 2])):
                b, k = rng.randrange(nb), rng.randrange(tf.NKEYS)
                lock = (b, 0) if mode == "serializable" else (b, k)
                if lock in taken:
                    continue
                taken.add(lock)
                absent = not any(d[0] == b and d[1] == k for d in data)
                holders.append((b, k, "commit" if absent and rng.random() < 0.5 else "rollback"))
    ttl_free = bool(contended)
    hot = [(b, k) for b, k, _ in holders]          # keys whose lock a holder has: make the victim want them
    body = []
    for _ in range(rng.randrange(1, 7)):
        b, k = rng.randrange(nb), rng.randrange(tf.NKEYS)
        if hot and rng.random() < 0.35:
            b, k = rng.choice(hot)
        r = rng.random()
        stored = [(d[0], d[1]) for d in data]
        if rng.random() < 0.3:
            # the read-modify-write commands; `expire` prefers a key the store has
            if stored and rng.random() < 0.6:
                b, k = rng.choice(stored)
            r2 = rng.random()
            if r2 < 0.45 and not ttl_free:
                body.append(f"expire.{b}.{k}.{rng.choice([0, 2, 4, 8, 16, 32])}")
            elif r2 < 0.6:
                body.append(f"incr.{b}.{k}.{'-' if ttl_free else rng.choice([4, 8, 16])}")
            else:
                body.append(f"{rng.choice(['setx', 'setnx'])}.{b}.{k}.{rng.randrange(0, 6)}.{'-' if ttl_free else rng.choice(['-', '-', 4, 8])}")
            continue
        if r < 0.22:
            body.append(f"set.{b}.{k}.{rng.randrange(0, 6)}.{'-' if ttl_free else rng.choice(['-', '-', 4, 8, 16])}")
        elif r < 0.36:
            body.append(f"incr.{b}.{k}")
        elif r < 0.50:
            body.append(f"get.{b}.{k}")
        elif r < 0.62:
            body.append(f"del.{b}.{k}")
        elif r < 0.76:
            ks = rng.sample(range(tf.NKEYS), rng.choice([2, 2, 3]))
            if hot and (b, k) in hot and k not in ks:
                ks[rng.randrange(len(ks))] = k
            ttl = "-" if ttl_free else rng.choice(["-", "-", 4, 8])
            body.append(f"setmany.{b}.{ttl}." + "+".join(f"{x}:{rng.randrange(0, 6)}" for x in ks))
        elif r < 0.86:
            ks = rng.sample(range(tf.NKEYS), rng.choice([2, 2, 3]))
            if hot and (b, k) in hot and k not in ks:
                ks[rng.randrange(len(ks))] = k
            body.append(f"delmany.{b}." + "+".join(str(x) for x in ks))
        elif r < 0.94 and not ttl_free:
            body.append(f"adv.{rng.choice([2, 4, 8, 16])}")
        else:
            body.append("raise")
    if len(holders) == 2:
        # every placement of two independent releases x every pair of faults x the four combinations of kinds: keep the trace short
        timeout = 2
        body = body[:3]
    if rng.random() < 0.2:
        body.append("raise")
    form = rng.choice(["ctx", "decor"])
    if rng.random() < 0.3 and body:
        # explicit tx.commit() / tx.rollback() somewhere in the middle of the body
        form = "ctx"
        for _ in range(rng.choice([1, 1, 2])):
            body.insert(rng.randrange(0, len(body)), rng.choice(["commit", "rollback", "rollback"]))
    obj = None
    if rng.random() < 0.35:
        # nested blocks: wrap one or two segments (properly nested or disjoint by construction: the second wrap is applied to
        # the token list that already contains the first pair, at positions that do not split it)
        obj = rng.choice([0, 0, 0, None])
        for _ in range(rng.choice([1, 1, 2])):
            o = rng.choice(["0", "0", "0", "1", "-", "d"])
            lo = rng.randrange(0, len(body) + 1)
            hi = rng.randrange(lo, len(body) + 1)
            cand = body[:lo] + [f"with.{o}"] + body[lo:hi] + ["end"] + body[hi:]
            if tf.valid_body(cand) and tf.valid_body(cand[lo + 1:hi + 1]):
                body = cand
    return P(mode, nb, body, timeout=timeout, form=form, obj=obj,
             exc=rng.choice(["interaction", "runtime"]), data=data, flocks=flocks, holders=holders,
             bkind=rng.choice(["cancel", "cancel", "base"]), bexc=rng.choice([None, None, "cancel"]))


# ---------------------------------------------------------------------------------------------------------
# running and judging

def rel_choices(prog):
    """every placement of the holders' release events: just before command i for every i a trace of this program can have,
    or after the victim's block"""
    hs = prog.get("holders") or []
    if not hs:
        return [()]
    n = len(hs)
    longest = len(tf.execute(prog, (), (0,) * n)["trace"]) + n * tf.attempts_for(prog["timeout"] * tf.TICK)
    return list(itertools.product(list(range(longest)) + ["after"], repeat=n))


def enumerate_cases(prog, depth):
    """for every placement of the release events: the fault-free run, every single position, every pair (second position
    from the trace the first fault produces), ... up to `depth` simultaneous faults; every failing position in both kinds
    (Exception, BaseException-only), hence every pair in all four combinations.  Returns [(faults, rels, obs)]."""
    out = []
    for rels in rel_choices(prog):
        first = tf.execute(prog, (), rels)
        if any(isinstance(r, int) and r >= len(first["trace"]) for r in rels):
            continue                      # never reached: the same case as "after"
        frontier = [((), rels, first)]
        out.extend(frontier)
        for _ in range(depth):
            nxt = []
            for faults, _r, obs in frontier:
                start = tf.fidx(faults[-1]) + 1 if faults else 0
                for j in range(start, len(obs["trace"])):
                    for f in (j, (j, tf.BASE_KIND)):
                        f2 = faults + (f,)
                        nxt.append((f2, rels, tf.execute(prog, f2, rels)))
            out.extend(nxt)
            frontier = nxt
    return out


def ask_model(prog, cases):
    answers = DRIVER.ask([tf.model_line(prog, faults, obs["uprio"], rels) for faults, rels, obs in cases])
    res = []
    for a in answers:
        m = tf.parse_answer(a)
        if m is None:
            raise HarnessError(f"model driver rejected a C16 request: {a!r}")
        res.append(m)
    return res


def blocked_attempts(obs):
    """indices of set_lock commands that were answered False: a later set_lock of the same lock key follows in the same
    body command, or the body command ended in LockedError - seen in the trace as consecutive attempts on one key"""
    tr = obs["trace"]
    out = []
    for i in range(len(tr) - 1):
        a, b = tr[i], tr[i + 1]
        if a.split(".")[1] == "setlock" and not a.endswith("!") and a == b.rstrip("!"):
            out.append(i)
    return out


def classify(prog, obs):
    """interesting states this run reached"""
    st = set()
    tr = obs["trace"]
    failed = obs["failed"]
    for i in failed:
        ev = tr[i]
        name = ev.split(".")[1]
        if obs["body_end"] is not None and i < obs["body_end"]:
            st.add("fault_in_body")
        elif name in ("delmany", "setmany"):
            st.add("fault_in_commit_write")
            b = ev.split(".")[0]
            if any(e.split(".")[1] == "unlock" and e.split(".")[0] != b for e in tr[i + 1:]):
                st.add("remaining_backend_rolled_back_after_commit_failure")
        elif name == "unlock":
            st.add("fault_in_unlock")
    base = set(obs.get("failed_base") or [])
    nbacks = len({e.split(".")[0] for e in tr})
    for i in base:
        ev = tr[i]
        name = ev.split(".")[1]
        if obs["body_end"] is not None and i < obs["body_end"]:
            st.add("baseexception_in_body")
        elif name in ("delmany", "setmany"):
            st.add("baseexception_in_commit_write")
            b = ev.split(".")[0]
            if any(e.split(".")[1] == "unlock" and e.split(".")[0] != b for e in tr[i + 1:]):
                st.add("remaining_backend_rolled_back_after_commit_cut_short_by_baseexception")
        elif name == "unlock":
            st.add("baseexception_in_unlock")
    if base and set(failed) - base:
        st.add("faults_of_both_kinds_hit")
    if obs["exc"].startswith("bfault:"):
        st.add("caller_saw_the_baseexception")
    if base and obs["exc"].startswith("fault:"):
        st.add("baseexception_replaced_by_a_later_or_earlier_exception")
    if any(tr[i].split(".")[1] == "unlock" and any(e.split(".")[1] == "unlock" and e.split(".")[0] != tr[i].split(".")[0]
                                                     for e in tr[i + 1:]) for i in base):
        st.add("rollback_went_on_to_the_next_backend_after_an_unlock_ended_with_baseexception")     # class of D36
    if nbacks >= 3 and failed:
        st.add("fault_with_three_backends_in_the_transaction")
    if prog.get("bexc") == "cancel" and obs["body_raised"] and obs["exc"] == "body":
        st.add("body_cancelled_rollback_clean")
    if len(failed) >= 2:
        st.add("two_or_more_faults_hit")
    fu = [tr[i].rsplit(".", 1)[0] for i in failed if tr[i].split(".")[1] == "unlock"]
    if len({e.split(".")[0] for e in fu}) < len(fu):
        st.add("two_unlocks_of_one_gather_failed")
    if any(".m." in l for l in obs["locks"]):
        st.add("lock_left_after_its_own_unlock_failed")
    if obs["body_raised"] and obs["exc"].startswith("fault:") and obs["body_end"] is not None \
            and int(obs["exc"].split(":")[1]) >= obs["body_end"]:
        st.add("rollback_error_replaced_body_error")
    if obs["exc"] == "locked" or (prog["flocks"] and obs["body_raised"]):
        st.add("locked_error_in_body")
    if failed and obs["exc"] == "none":
        st.add("fault_swallowed")          # never expected (theorem fault_never_silent); shows up as impl != model
    # multi-key commands and contention
    starts = obs["cmd_starts"]
    body_end = obs["body_end"] if obs["body_end"] is not None else len(tr)
    blocked = blocked_attempts(obs)
    for n, c in enumerate(prog["body"][:len(starts)]):
        if c.split(".")[0] not in ("setmany", "delmany"):
            continue
        lo, hi = starts[n], (starts[n + 1] if n + 1 < len(starts) else body_end)
        if hi > lo:
            st.add("multi_key_command_took_locks")
        if any(lo <= i < hi for i in failed):
            st.add("fault_while_multi_key_command_takes_its_locks")
            if any(lo <= j < hi for j in blocked):
                st.add("fault_in_multi_key_command_that_had_to_wait_for_a_lock")
    # explicit tx.commit() / tx.rollback() in the body
    for what, at in obs.get("explicit") or []:
        st.add(f"explicit_{what}_in_body")
        later = [i for i in failed if i >= at]
        ends = [j for j in range(at, len(tr)) if tr[j].split(".")[1] not in ("unlock", "setmany", "delmany")]
        after_it = ends[0] if ends else len(tr)           # first command after the commands of the explicit call itself
        if any(at <= i < after_it for i in failed):
            st.add(f"fault_inside_explicit_{what}")
        if any(after_it <= i < body_end for i in failed):
            st.add(f"fault_in_body_after_explicit_{what}")
            if any(tr[j].split(".")[1] == "setlock" and j not in failed for j in range(after_it, body_end)):
                st.add(f"lock_taken_after_explicit_{what}_then_body_fault")         # class of seeded C16-13 (rollback)
        if obs["body_raised"] and obs["exc"] == "body" and not later:
            st.add(f"body_raised_after_explicit_{what}")
    if not obs.get("base_defined", True):
        st.add("explicit_commit_failed_half_way")
    # nested blocks on shared context objects
    toks = prog["body"]
    if tf.valid_body(toks):
        outer = tf.model_obj(prog)
        for n, c in enumerate(toks[:len(starts)]):
            if c.split(".")[0] != "with":
                continue
            st.add("nested_block_in_body")
            o = c.split(".")[1]
            same = outer is not None and o == str(outer)
            depth = sum(1 for x in toks[:n] if x.split(".")[0] == "with") - sum(1 for x in toks[:n] if x == "end")
            if same:
                st.add("outer_blocks_own_object_entered_again")
            if depth >= 1:
                st.add("block_nested_twice_or_deeper")
                if same and any(toks[m] == c for m in range(n) if tf.matching_end(toks, m) > n and toks[m].split(".")[0] == "with"):
                    st.add("same_object_open_three_times")
            if o == "d" or prog.get("form") == "decor":
                st.add("shared_object_or_block_inside_a_decorated_function")
            j = tf.matching_end(toks, n)
            if j < len(starts):
                left_at = starts[j]                     # the command counter when the inner block was left normally
                if any(left_at <= i < body_end for i in failed):
                    st.add("fault_in_outer_body_after_an_inner_block_was_left")
                    if same:
                        st.add("fault_in_outer_body_after_inner_block_of_the_same_object_was_left")      # class of seeded C16-10
                if obs["body_raised"] and not any(i < body_end for i in failed) and obs["exc"] == "body":
                    st.add("body_raised_after_or_inside_nested_block")
            elif obs["body_raised"]:
                st.add("exception_left_through_an_inner_block")
    # TTLs and the read-modify-write commands (expire / incr with a ttl / conditional set)
    if any(d[3] is not None for d in prog["data"]):
        st.add("initial_store_has_ttls")
    stored = {(d[0], d[1]) for d in prog["data"]}
    for n, c in enumerate(prog["body"][:len(starts)]):
        w = c.split(".")
        if w[0] not in ("expire", "setx", "setnx") and not (w[0] == "incr" and len(w) > 3):
            continue
        lo, hi = starts[n], (starts[n + 1] if n + 1 < len(starts) else body_end)
        reads = [i for i in range(lo, min(hi, len(tr))) if tr[i].split(".")[1] in ("get", "exists")]
        st.add({"expire": "expire_in_body", "incr": "incr_with_ttl_in_body"}.get(w[0], "conditional_set_in_body"))
        if w[0] == "expire":
            st.add("expire_read_the_store" if reads else "expire_of_a_key_buffered_or_deleted_in_the_transaction")
            if reads and (int(w[1]), int(w[2])) not in stored:
                st.add("expire_of_a_missing_key")
        for i in reads:
            if i in failed:
                st.add("fault_in_the_read_of_a_read_modify_write")
                if any(tr[j].split(".")[1] == "setlock" and j not in failed for j in range(lo, i)):
                    st.add("fault_in_the_read_right_after_its_lock_was_taken")              # class of seeded C16-7
        if w[0] == "expire" and reads and not any(i in failed for i in reads) and (int(w[1]), int(w[2])) in stored \
                and any(hi <= i < body_end for i in failed):
            st.add("body_fault_after_expire_of_a_stored_key_not_written_before")            # class of seeded C16-8
    if obs["body_raised"] and any("@-" not in e for e in obs["store"]):
        st.add("failed_body_left_entries_with_deadlines_compared")
    if not obs["body_raised"] and obs["exc"] == "none" and any(c.split(".")[0] == "expire" for c in prog["body"]):
        st.add("expire_committed")
    if blocked:
        st.add("lock_attempt_blocked")
    rel = obs.get("released_at") or []
    for r in rel:
        if r == "after":
            st.add("holder_released_after_block")
        elif isinstance(r, int):
            st.add("holder_released_during_block")
            if any(j < r for j in blocked) and r < len(tr) and tr[r].split(".")[1] == "setlock" and (r - 1) in blocked:
                st.add("lock_acquired_after_waiting_for_holder")
                if any(i > r for i in failed):
                    st.add("fault_after_lock_acquired_after_waiting")
            if r >= body_end:
                st.add("holder_released_during_commit_or_rollback")
    if blocked and any(i > blocked[0] for i in failed) and any(r == "after" or (isinstance(r, int) and r > min(
            i for i in failed if i > blocked[0])) for r in rel):
        st.add("fault_while_holder_still_blocks")
    if any(l.endswith(".~") for l in obs["locks"]):
        st.add("left_lock_had_been_acquired_after_a_lock_step")
    return st


def canon_locks(obs_locks, model_locks):
    """a lock acquired after a lock-step carries no whole-tick deadline: its lease was checked on the implementation
    (reported `~`); compare owner and key only"""
    loose = {l.rsplit(".", 1)[0] for l in obs_locks if l.endswith(".~")}
    return [(l.rsplit(".", 1)[0] + ".~") if l.rsplit(".", 1)[0] in loose else l for l in model_locks]


def diff(obs, model):
    out = []
    for k in KEYS:
        mv = canon_locks(obs["locks"], model["locks"]) if k == "locks" else model[k]
        if obs[k] != mv:
            out.append(k)
    return out


def summary(obs):
    return {k: obs[k] for k in KEYS + ["body_end", "body_raised", "failed", "released_at", "tasks_pending_after_block",
                                       "late_commands", "writes_sent"]}


def canon(prog, faults, rels=()):
    return json.dumps([prog, list(faults), list(rels)], sort_keys=True)


def violates(prog, faults, rels, clause=None):
    obs = tf.execute(prog, faults, rels)
    bad = tf.oracle(prog, obs)
    return (clause in bad) if clause else bool(bad)


def find_violation(prog, depth=2, clause=None):
    for faults, rels, obs in enumerate_cases(prog, depth):
        bad = tf.oracle(prog, obs)
        if (clause in bad) if clause else bad:
            return faults, rels
    return None


def used_backends(body):
    return {int(c.split(".")[1]) for c in body if c.split(".")[0] in ("set", "incr", "get", "del", "setmany", "delmany", "expire", "setx", "setnx")}


def shrink(prog, faults, rels, clause):
    """smaller program, fault set and release placement on which the implementation still contradicts the same clause"""
    best = (prog, tuple(faults), tuple(rels))
    if len(faults) > 1:
        for f in faults:
            if violates(prog, (f,), rels, clause):
                best = (prog, (f,), tuple(rels))
                break
    # a BaseException-only failure that could as well be an ordinary Exception
    for n, f in enumerate(best[1]):
        if tf.fbase(f):
            f2 = best[1][:n] + (tf.fidx(f),) + best[1][n + 1:]
            if violates(prog, f2, best[2], clause):
                best = (prog, f2, best[2])
    # holders that do not matter
    j = 0
    while j < len(best[0].get("holders") or []):
        hs = list(best[0]["holders"])
        p2 = dict(best[0], holders=hs[:j] + hs[j + 1:])
        if not p2["holders"]:
            del p2["holders"]
        r2 = best[2][:j] + best[2][j + 1:]
        if violates(p2, best[1], r2, clause):
            best = (p2, best[1], r2)
        else:
            j += 1

    def with_body(body):
        return dict(best[0], body=list(body))

    depth = len(best[1]) or 1
    body = ddmin(best[0]["body"], lambda b: tf.valid_prog(with_body(b)) and find_violation(with_body(b), depth, clause) is not None)
    # a `with` and its `end` that do not matter
    n = 0
    while n < len(body):
        if body[n].split(".")[0] == "with":
            j = tf.matching_end(body, n)
            b2 = body[:n] + body[n + 1:j] + body[j + 1:]
            if tf.valid_prog(with_body(b2)) and find_violation(with_body(b2), depth, clause) is not None:
                body = b2
                continue
        n += 1
    p2 = with_body(body)
    f2 = find_violation(p2, depth, clause)
    if f2 is not None:
        best = (p2, f2[0], f2[1])
    # fewer keys in the multi-key commands
    changed = True
    while changed:
        changed = False
        for n, c in enumerate(best[0]["body"]):
            w = c.split(".")
            if w[0] not in ("setmany", "delmany"):
                continue
            parts = w[-1].split("+")
            for x in range(len(parts)):
                if len(parts) <= 1:
                    break
                c2 = ".".join(w[:-1] + ["+".join(parts[:x] + parts[x + 1:])])
                p3 = dict(best[0], body=best[0]["body"][:n] + [c2] + best[0]["body"][n + 1:])
                f3 = find_violation(p3, depth, clause)
                if f3 is not None:
                    best = (p3, f3[0], f3[1])
                    changed = True
                    break
            if changed:
                break
    for field in ("data", "flocks"):
        p3 = dict(best[0], **{field: []})
        if violates(p3, best[1], best[2], clause):
            best = (p3, best[1], best[2])
    if len(best[0]["data"]) > 1:
        # the initial store, entry by entry (a changed ttl needs the key to be there)
        p0, f0, r0 = best
        kept = ddmin(p0["data"], lambda d: not any(h["end"] == "commit" and any(x[0] == h["b"] and x[1] == h["k"] for x in d)
                                                   for h in p0.get("holders") or [])
                     and violates(dict(p0, data=list(d)), f0, r0, clause))
        if len(kept) < len(p0["data"]) and violates(dict(p0, data=list(kept)), f0, r0, clause):
            best = (dict(p0, data=list(kept)), f0, r0)
    for nb in (1, 2):
        if best[0]["nb"] > nb and used_backends(best[0]["body"]) <= set(range(nb)) and all(d[0] < nb for d in best[0]["data"]) \
                and all(f[0] < nb for f in best[0]["flocks"]) and all(h["b"] < nb for h in best[0].get("holders") or []):
            p4 = dict(best[0], nb=nb)
            if violates(p4, best[1], best[2], clause):
                best = (p4, best[1], best[2])
                break
    if best[0].get("obj") is not None and not any(c == f"with.{best[0]['obj']}" for c in best[0]["body"]):
        p5 = {k: v for k, v in best[0].items() if k != "obj"}
        if violates(p5, best[1], best[2], clause):
            best = (p5, best[1], best[2])
    if best[0].get("bexc") and not any(c == "raise" for c in best[0]["body"]):
        best = ({k: v for k, v in best[0].items() if k != "bexc"}, best[1], best[2])
    return best


def make_replay(prog, faults, rels, origin):
    obs = tf.execute(prog, faults, rels)
    model = ask_model(prog, [(faults, rels, obs)])[0]
    return {
        "program": prog,
        "faults": [f if isinstance(f, int) else list(f) for f in faults],
        "fault_kinds": "an int i: backend command i raised the program's Exception class (`exc`); [i, \"B\"]: it raised the "
                       "program's BaseException-only class (`bkind`: cancel = asyncio.CancelledError, the way a command cut short "
                       "by asyncio.timeout()/wait_for ends)",
        "rels": list(rels),
        "impl": summary(obs),
        "model": model,
        "violated_clauses": tf.oracle(prog, obs),
        "impl_vs_model_differs_on": diff(obs, model),
        "origin": origin,
        "replay_cmd": "./check C16 --replay <this file>",
    }


def contention_text(prog, rels):
    hs = prog.get("holders") or []
    if not hs:
        return ""
    parts = []
    for h, r in zip(hs, rels):
        when = "after the block was left" if r == "after" else f"just before command {r}"
        parts.append(f"another open transaction held the lock of key {h['k']} of backend {h['b']} and left its block ({h['end']}) {when}")
    return "; " + "; ".join(parts)


def obj_text(prog):
    if prog.get("obj") is None and not any(c.split(".")[0] == "with" for c in prog["body"]):
        return ""
    t = "; `with.i … end` = a nested `async with T[i]` on ONE shared cache.transaction() object T[i] (`-`/`d`: an object of its own / a decorated function)"
    if prog.get("obj") is not None:
        t += (f", the outermost block is `async with T[{prog['obj']}]`" if prog.get("form") != "decor"
              else f", the outermost block is a function decorated with @T[{prog['obj']}]")
    return t


def kind_text(prog, faults):
    if not any(tf.fbase(f) for f in faults):
        return ""
    what = ("asyncio.CancelledError, as when the command is cut short by asyncio.timeout()/wait_for" if prog.get("bkind") != "base"
            else "a BaseException that is not an Exception")
    return f" (BaseException = {what})"


def report_property(chk: Check, prog, faults, rels, clause, origin):
    sp, sf, sr = shrink(prog, faults, rels, clause)
    rep = make_replay(sp, sf, sr, origin)
    extra = ""
    if rep["impl"]["tasks_pending_after_block"] or rep["impl"]["late_commands"]:
        extra = (f"; {rep['impl']['tasks_pending_after_block']} task(s) of the transaction still running after the block was left, "
                 f"which then issued {rep['impl']['late_commands']}")
    chk.violation(
        f"after a transaction block ({sp['mode']} mode, {sp['nb']} backend(s), body {sp['body']}) in which backend command(s) "
        f"{tf.show_faults(sf)} of the trace {rep['impl']['trace']} failed{kind_text(sp, sf)}{contention_text(sp, sr)}{obj_text(sp)}: {clause}; "
        f"caller saw {rep['impl']['exc']}, "
        f"locks left {rep['impl']['locks']}{extra}",
        rep, signature=clause)


def report_correspondence(chk: Check, prog, faults, rels, keys, origin):
    rep = make_replay(prog, faults, rels, origin)
    chk.violation(
        f"correspondence broken: implementation differs from the model TxFault on {keys} for program {prog['body']} "
        f"({prog['mode']}, {prog['nb']} backend(s)), faults {tf.show_faults(faults)}{kind_text(prog, faults)}{contention_text(prog, rels)}{obj_text(prog)}, but the property holds on this case",
        dict(rep, broken="correspondence TxFault model <-> cashews/wrapper/transaction.py + cashews/backends/transaction.py"),
        signature=None, no_input=True)


def corpus_cases():
    for f in sorted((ROOT / "corpus" / PROP).glob("*.json")):
        c = json.loads(f.read_text())
        yield f.name, c["program"], tuple(c["faults"]), tuple(c.get("rels", ()))


def run(chk: Check) -> int:
    proof = proof_stage(PROP, "driver_c16", chk.thorough) if not getattr(chk, "skip_proof", False) else None
    t0 = REAL_PERF()
    budget_runs = chk.budget(20000, 400000)
    budget_s = chk.budget(20, 420)
    evaluations = 0
    distinct = set()
    interesting: dict[str, int] = {}
    hist_cmd: dict[str, int] = {}
    hist_prog = {"programs": 0, "fixed": 0, "generated": 0, "corpus_cases": 0}
    by_mode: dict[str, int] = {}
    depth_hist = {0: 0, 1: 0, 2: 0, 3: 0}
    samples = []
    hist_rel: dict[str, int] = {}
    hist_kind: dict[str, int] = {}
    hist_base_cmd: dict[str, int] = {}
    found_property = 0
    found_corr = 0
    seen_clauses = set()

    pending: list = []          # (prog, faults, rels, obs, origin) waiting for the model's answer (one driver call per batch)

    def flush():
        nonlocal evaluations, found_property, found_corr
        if not pending:
            return
        answers = DRIVER.ask([tf.model_line(prog, faults, obs["uprio"], rels) for prog, faults, rels, obs, _ in pending])
        batch = list(zip(pending, answers))
        pending.clear()
        for (prog, faults, rels, obs, origin), ans in batch:
            model = tf.parse_answer(ans)
            if model is None:
                raise HarnessError(f"model driver rejected a C16 request: {ans!r}")
            evaluations += 1
            depth_hist[min(len(faults), 3)] += 1
            st = classify(prog, obs)
            for x in st:
                interesting[x] = interesting.get(x, 0) + 1
            if obs["failed"] or "locked_error_in_body" in st or "lock_attempt_blocked" in st:
                distinct.add(canon(prog, faults, rels))
            if prog.get("holders"):
                hist_rel["after" if "after" in rels else "during"] = hist_rel.get("after" if "after" in rels else "during", 0) + 1
            for i in obs["failed"]:
                name = obs["trace"][i].split(".")[1]
                hist_cmd[name] = hist_cmd.get(name, 0) + 1
            for i in obs["failed_base"]:
                name = obs["trace"][i].split(".")[1]
                hist_base_cmd[name] = hist_base_cmd.get(name, 0) + 1
            kinds = "".join("B" if tf.fbase(f) else "E" for f in faults) or "-"
            hist_kind[kinds] = hist_kind.get(kinds, 0) + 1
            if len(samples) < 4 and len(faults) == len(samples) % 3 and st and len(obs["trace"]) <= 12:
                samples.append({"program": prog, "faults": [f if isinstance(f, int) else list(f) for f in faults], "rels": list(rels), "impl": summary(obs), "states": sorted(st)})
            bad = tf.oracle(prog, obs)
            d = diff(obs, model)
            for clause in bad:
                if clause not in seen_clauses and found_property < 3:
                    seen_clauses.add(clause)
                    found_property += 1
                    report_property(chk, prog, faults, rels, clause, origin)
            if d and not bad and found_corr < 2 and found_property == 0:
                # determinism check before blaming anybody
                again = tf.execute(prog, faults, rels)
                if summary(again) != summary(obs):
                    raise HarnessError(f"non-deterministic run of {prog} with faults {faults}, releases {rels}")
                found_corr += 1
                report_correspondence(chk, prog, faults, rels, d, origin)

    def submit(prog, cases, origin):
        pending.extend((prog, faults, rels, obs, origin) for faults, rels, obs in cases)
        if len(pending) >= 1500:
            flush()

    # corpus first
    for name, prog, faults, rels in corpus_cases():
        hist_prog["corpus_cases"] += 1
        submit(prog, [(faults, rels, tf.execute(prog, faults, rels))], "corpus:" + name)
    flush()

    def whole_program(prog, origin, depth):
        hist_prog["programs"] += 1
        by_mode[f"{prog['mode']}/{prog['nb']}"] = by_mode.get(f"{prog['mode']}/{prog['nb']}", 0) + 1
        if prog.get("holders"):
            hist_prog["with_holders"] = hist_prog.get("with_holders", 0) + 1
        if any(c.split(".")[0] in ("setmany", "delmany") for c in prog["body"]):
            hist_prog["with_multi_key_commands"] = hist_prog.get("with_multi_key_commands", 0) + 1
        if any(c in ("commit", "rollback") for c in prog["body"]):
            hist_prog["with_explicit_commit_or_rollback"] = hist_prog.get("with_explicit_commit_or_rollback", 0) + 1
        if any(c.split(".")[0] == "with" for c in prog["body"]):
            hist_prog["with_nested_blocks"] = hist_prog.get("with_nested_blocks", 0) + 1
        if prog.get("obj") is not None and any(c == f"with.{prog['obj']}" for c in prog["body"]):
            hist_prog["re_entering_the_outer_blocks_own_object"] = hist_prog.get("re_entering_the_outer_blocks_own_object", 0) + 1
        if any(c.split(".")[0] == "expire" for c in prog["body"]):
            hist_prog["with_expire"] = hist_prog.get("with_expire", 0) + 1
        if any(c.split(".")[0] in ("setx", "setnx") or (c.split(".")[0] == "incr" and len(c.split(".")) > 3) for c in prog["body"]):
            hist_prog["with_conditional_set_or_incr_ttl"] = hist_prog.get("with_conditional_set_or_incr_ttl", 0) + 1
        if any(d[3] is not None for d in prog["data"]):
            hist_prog["with_ttls_in_the_initial_store"] = hist_prog.get("with_ttls_in_the_initial_store", 0) + 1
        submit(prog, enumerate_cases(prog, depth), origin)

    for i, prog in enumerate(fixed_family()):
        if found_property >= 3:
            break
        hist_prog["fixed"] += 1
        # thorough: triples too, for the programs whose traces are short enough
        depth = 3 if chk.thorough and prog["timeout"] <= 16 and len(prog.get("holders") or []) < 2 else 2
        whole_program(prog, f"fixed:{i}", depth)
    flush()
    g = 0
    submitted = evaluations
    while submitted < budget_runs and REAL_PERF() - t0 < budget_s and found_property < 3 and found_corr < 2:
        prog = gen_program(chk.rng)
        hist_prog["generated"] += 1
        before = len(pending)
        whole_program(prog, f"gen:{g}", 2)
        submitted = evaluations + len(pending)
        g += 1
    flush()

    if proof is not None:
        chk.proof_broken(proof, found_property > 0)
    chk.coverage.update({
        "evaluations": evaluations,
        "distinct_nontrivial": len(distinct),
        "exhaustive": True,
        "rule": "for every program: the fault-free run, EVERY single position of its backend-command trace made to raise, and EVERY pair "
                "(second position ranging over the trace that the first fault produces); thorough also every triple for the fixed family. "
                "Every failing position in BOTH KINDS - an Exception (the program's class) and a BaseException that is no Exception "
                "(asyncio.CancelledError = a command cut short by a time limit, or a BaseException subclass) - so every pair in all four "
                "combinations of kinds (triples: all eight). "
                "For a program with contending holders (other tasks' open transactions holding a lock the victim needs) all of this is "
                "repeated for EVERY placement of each holder's release: just before the victim's command i, for every i of the trace, "
                "and after the victim's block. "
                "Programs: a fixed family (3 modes x 1/2/3 backends x context-manager/decorator x both exception classes x both "
                "BaseException classes, normal / raising / cancelled bodies, single- and multi-key writes (set_many / delete_many over 2-3 keys), TTL groups and time advance, "
                "initial stores whose keys carry deadlines, expire (of a stored key the transaction has not written, of a key written / deleted "
                "earlier in the transaction, of a missing key, with timeout 0), incr with a ttl, set with a ttl, set(exist=True|False), NESTED blocks on "
                "shared context objects (ONE cache.transaction() object entered again inside its own transaction - once, twice nested, twice in "
                "sequence -, first entered inside a decorated function, next to other shared objects and one-block objects; bodies going on after "
                "the inner block - every fault position there -, raising inside it, ending with it), EXPLICIT await tx.commit() / await tx.rollback() in the middle of the body followed by more "
                "commands (which are buffered and lock again; every fault position inside the explicit call and after it; the store after a "
                "failed body is compared with the store as of the last explicit commit), contention "
                "with a lock held for ever, contention with 1-2 holders that commit or roll back) plus programs generated from VERIF_SEED "
                "until the budget is used. "
                "Exhaustive per program, not over programs. A case is non-trivial iff at least one command actually failed or the body "
                "hit LockedError or a lock attempt was blocked; distinct = distinct (program, fault set, release placement). "
                "Store comparison (implementation vs model, and the oracle 'a failed body leaves the store as it was'): the WHOLE live entry "
                "of every key of every backend - value AND deadline; the deadline is measured through the API on the virtual clock "
                "(get_expire, then the clock is moved to the first tick at which the key is reported gone). After a failed body no write "
                "command that ran may appear in the backends' command trace.",
        "samples": samples,
        "programs": hist_prog["programs"],
        "program_counts": hist_prog,
        "programs_by_mode_and_backends": by_mode,
        "runs_by_number_of_faults": {str(k): v for k, v in depth_hist.items()},
        "runs_with_holders_by_release": hist_rel,
        "failed_command_histogram": hist_cmd,
        "failed_with_baseexception_command_histogram": hist_base_cmd,
        "runs_by_fault_kinds": hist_kind,
        "rollback_loop_model": tf.RB_LOOP,
        "interesting_states_runs": interesting,
        "trusted_base": TRUSTED,
        "partial": "not exhibited by the model: a command that takes effect and then reports failure; a cancellation delivered by "
                   "Task.cancel() from another task / the deadline bookkeeping of asyncio.timeout() (the CancelledError is injected as "
                   "what the failing command raises); "
                   "arbitrary interleavings of several tasks (C05; here other tasks only hold and release locks at command "
                   "granularity); a holder that TAKES a lock while the victim's block runs; a context object shared by two TASKS (C05); an exception of an explicit "
                   "tx.commit()/rollback() caught by the body; the pass-through commands of TransactionBackend (set_add / tags, slice_incr, set_raw, "
                   "incr_bits, set_remove, set_pop, clear: not transactional by design); commands other than set (with ttl / exist=) / incr (with ttl) / get / delete / "
                   "expire / set_many / delete_many (single backend per multi-key command; no get_expire / exists / delete_match / get_many "
                   "as body commands); programs with contention carry no TTLs and no expire (their clock is symbolic); the 0.1 s sleeps of the lock wait loop are symbolic (count of attempts), so the "
                   "clock of contended runs is not compared; Redis/diskcache backends",
    })
    chk.assumptions.extend(TRUSTED)
    return chk.finish(proof)


def replay(chk: Check, path: str) -> int:
    c = json.loads(Path(path).read_text())
    if "program" not in c:
        print("replay: this file names a broken proof obligation / correspondence, there is no input to re-run")
        return 1
    prog, faults, rels = c["program"], tuple(c["faults"]), tuple(c.get("rels", ()))
    obs = tf.execute(prog, faults, rels)
    model = ask_model(prog, [(faults, rels, obs)])[0]
    print("program:", json.dumps(prog))
    print("faults :", tf.show_faults(tf.norm_faults(faults)), kind_text(prog, tf.norm_faults(faults)))
    if prog.get("holders"):
        print("holders released:", list(rels), "(command index of the victim's trace, or after its block)")
    for k in KEYS:
        flag = "   <-- differs" if k in diff(obs, model) else ""
        print(f"  {k:6s} impl={obs[k]}\n         model={model[k]}{flag}")
    if obs["tasks_pending_after_block"] or obs["late_commands"]:
        print(f"  {obs['tasks_pending_after_block']} task(s) still running after the block was left; they issued {obs['late_commands']}")
    bad = tf.oracle(prog, obs)
    d = diff(obs, model)
    if not bad and not d:
        print("replay: property holds and implementation agrees with the model")
        return 0
    if bad:
        print("property clauses contradicted:", bad)
    print(f"VIOLATION property={PROP} replay={path}")
    return 1
