"""C16 - a failing backend never leaves a task stuck in a transaction or locks held.

proof: lean/CashewsVerif/Props/C16.lean - for EVERY fault oracle and every program: context reset after the block,
       a write after the block reaches the store, every lock released or its own unlock failed (and it lapses within
       the timeout), a failed body applies nothing, a fault is never silent.
tie:   fault-injection correspondence.  For each program of the family (3 modes x 1-2 backends x context-manager /
       decorator form, bodies of a few facade commands ending normally or by raising, optional contention) the real
       `Cache.transaction` block runs on `FaultyMemory` backends (harness/txfault.py) with NO fault, then with EVERY
       single position of the command trace failing, then with EVERY pair (second position taken from the trace the
       first fault produces) - exhaustive; thorough adds every triple for the fixed family.  Each run is compared with
       the compiled Lean model on the same (program, fault set)  [impl == model]  and with the property statement
       evaluated on what the implementation did  [oracle].
"""
from __future__ import annotations

import json
from pathlib import Path

from .. import txfault as tf
from ..core import ROOT, Check, Driver, HarnessError, ddmin, proof_stage
from ..vtime import REAL_PERF

PROP = "C16"
DRIVER = Driver("driver_c16", "Drivers/C16.lean")
KEYS = ["exc", "ctx", "trace", "outs", "locks", "data", "probe"]

TRUSTED = [
    "Lean 4.33.0 kernel; axioms of every theorem audited to be within {propext, Classical.choice, Quot.sound}",
    "hand-written model lean/CashewsVerif/Model/TxFault.lean of cashews/wrapper/transaction.py and cashews/backends/transaction.py, "
    "tied to the code by this run's exhaustive fault-injection correspondence",
    "a failing command is modelled as raising INSTEAD of executing (no effect on the backend); a command that takes effect and "
    "then reports failure is outside the model and the family",
    "asyncio facts used by the model of `asyncio.gather` in _unlock_updates: child tasks of a non-suspending backend all run to "
    "completion in creation order before the awaiting coroutine resumes, which gets the first exception (exercised on the real "
    "event loop by every run with a failing unlock)",
    "the iteration order of the `_locks` set is taken from each implementation run and given to the model (`uprio`); the theorems "
    "hold for every order",
    "harness: FaultyMemory (harness/txfault.py), virtual clock, canonicalisation of the command trace",
    "injected exceptions are subclasses of Exception (CacheBackendInteractionError / RuntimeError); BaseException-only "
    "failures such as task cancellation are not in the family",
]


# ---------------------------------------------------------------------------------------------------------
# the family

def P(mode, nb, body, timeout=16, form="ctx", exc="interaction", data=(), flocks=()):
    return {"mode": mode, "timeout": timeout, "nb": nb, "form": form, "exc": exc,
            "data": [list(d) for d in data], "flocks": [list(f) for f in flocks], "body": list(body)}


DATA1 = [(0, 1, 5, None), (0, 2, 7, 8)]
DATA2 = [(0, 1, 5, None), (0, 2, 7, 8), (1, 1, 3, None)]
DATA0 = [(0, 1, 5, None), (0, 2, 7, None)]


def fixed_family():
    out = []
    for i, mode in enumerate(["fast", "locked", "serializable"]):
        form = ["ctx", "decor"][i % 2]
        other = ["decor", "ctx"][i % 2]
        out += [
            P(mode, 1, ["set.0.0.1.-", "set.0.1.2.8", "incr.0.2", "del.0.3"], data=DATA1, form=form),
            P(mode, 1, ["set.0.0.1.-", "incr.0.1", "get.0.2", "raise"], data=DATA1, form=other, exc="runtime"),
            P(mode, 2, ["set.0.0.1.-", "set.1.0.2.8", "incr.0.1", "set.1.1.5.-", "del.0.2"], data=DATA2, form=form),
            P(mode, 2, ["incr.0.0", "set.1.0.4.-", "get.1.1", "del.1.2", "raise"], data=DATA2, form=other),
            P(mode, 2, ["set.0.0.1.8", "adv.4", "set.0.1.2.8", "set.1.2.3.4", "adv.4", "get.1.2", "incr.1.0", "get.0.0"],
              data=DATA2, form=form, exc="runtime"),
            P(mode, 2, ["get.0.1", "incr.1.1", "incr.1.1", "set.0.3.9.-"], data=DATA2, form=other, timeout=80),
        ]
    # contention: a lock key held for ever by someone else -> LockedError in the body after the wait loop.
    # The loop's sleeps (0.1 s each) are not whole ticks, so contended programs carry no TTLs: nothing in them depends on the clock.
    out += [
        P("locked", 2, ["set.0.0.1.-", "set.1.0.2.-", "incr.0.1", "set.1.1.5.-"], timeout=4, data=DATA0, flocks=[(0, 2)]),
        P("locked", 1, ["del.0.0", "set.0.1.2.-"], timeout=2, data=DATA0, flocks=[(0, 2)], form="decor", exc="runtime"),
        P("serializable", 2, ["set.0.0.1.-", "set.1.0.2.-", "incr.0.1"], timeout=4, data=DATA0, flocks=[(1, 0)]),
        P("serializable", 1, ["get.0.1", "set.0.0.1.-"], timeout=2, data=DATA0, flocks=[(0, 0)], form="decor"),
    ]
    return out


def gen_program(rng):
    mode = rng.choice(["fast", "locked", "locked", "serializable"])
    nb = rng.choice([1, 2, 2])
    flocks = []
    timeout = rng.choice([2, 4, 8, 16, 80])
    if mode != "fast" and rng.random() < 0.2:
        b = rng.randrange(nb)
        flocks = [[b, 0 if mode == "serializable" else rng.randrange(tf.NKEYS) + 1]]
        timeout = rng.choice([2, 4])
    data = []
    for b in range(nb):
        for k in range(tf.NKEYS):
            if rng.random() < 0.4:
                data.append([b, k, rng.randrange(-1, 6), None if flocks else rng.choice([None, None, 4, 8, 24])])
    body = []
    for _ in range(rng.randrange(1, 7)):
        b, k = rng.randrange(nb), rng.randrange(tf.NKEYS)
        r = rng.random()
        if r < 0.30:
            body.append(f"set.{b}.{k}.{rng.randrange(0, 6)}.{'-' if flocks else rng.choice(['-', '-', 4, 8, 16])}")
        elif r < 0.50:
            body.append(f"incr.{b}.{k}")
        elif r < 0.68:
            body.append(f"get.{b}.{k}")
        elif r < 0.84:
            body.append(f"del.{b}.{k}")
        elif r < 0.94 and not flocks:
            body.append(f"adv.{rng.choice([2, 4, 8, 16])}")
        else:
            body.append("raise")
    if rng.random() < 0.2:
        body.append("raise")
    return P(mode, nb, body, timeout=timeout, form=rng.choice(["ctx", "decor"]),
             exc=rng.choice(["interaction", "runtime"]), data=data, flocks=flocks)


# ---------------------------------------------------------------------------------------------------------
# running and judging

def enumerate_cases(prog, depth):
    """fault-free run, every single position, every pair (second position from the trace the first fault produces), ...
    up to `depth` simultaneous faults.  Returns [(faults, obs)]."""
    out = []
    frontier = [((), tf.execute(prog, ()))]
    out.extend(frontier)
    for _ in range(depth):
        nxt = []
        for faults, obs in frontier:
            start = faults[-1] + 1 if faults else 0
            for j in range(start, len(obs["trace"])):
                f2 = faults + (j,)
                nxt.append((f2, tf.execute(prog, f2)))
        out.extend(nxt)
        frontier = nxt
    return out


def ask_model(prog, cases):
    answers = DRIVER.ask([tf.model_line(prog, faults, obs["uprio"]) for faults, obs in cases])
    res = []
    for a in answers:
        m = tf.parse_answer(a)
        if m is None:
            raise HarnessError(f"model driver rejected a C16 request: {a!r}")
        res.append(m)
    return res


def classify(prog, obs):
    """interesting states this run reached"""
    st = set()
    tr = obs["trace"]
    failed = obs["failed"]
    for i in failed:
        ev = tr[i]
        name = ev.split(".")[1]
        if obs["body_end"] is not None and i < obs["body_end"]:
            st.add("fault_in_body")
        elif name in ("delmany", "setmany"):
            st.add("fault_in_commit_write")
            b = ev.split(".")[0]
            if any(e.split(".")[1] == "unlock" and e.split(".")[0] != b for e in tr[i + 1:]):
                st.add("remaining_backend_rolled_back_after_commit_failure")
        elif name == "unlock":
            st.add("fault_in_unlock")
    if len(failed) >= 2:
        st.add("two_or_more_faults_hit")
    fu = [tr[i].rsplit(".", 1)[0] for i in failed if tr[i].split(".")[1] == "unlock"]
    if len({e.split(".")[0] for e in fu}) < len(fu):
        st.add("two_unlocks_of_one_gather_failed")
    if any(".m." in l for l in obs["locks"]):
        st.add("lock_left_after_its_own_unlock_failed")
    if obs["body_raised"] and obs["exc"].startswith("fault:") and obs["body_end"] is not None \
            and int(obs["exc"].split(":")[1]) >= obs["body_end"]:
        st.add("rollback_error_replaced_body_error")
    if obs["exc"] == "locked" or (prog["flocks"] and obs["body_raised"]):
        st.add("locked_error_in_body")
    if failed and obs["exc"] == "none":
        st.add("fault_swallowed")          # never expected (theorem fault_never_silent); shows up as impl != model
    return st


def diff(obs, model):
    return [k for k in KEYS if obs[k] != model[k]]


def summary(obs):
    return {k: obs[k] for k in KEYS + ["body_end", "body_raised", "failed"]}


def canon(prog, faults):
    return json.dumps([prog, list(faults)], sort_keys=True)


def violates(prog, faults, clause=None):
    obs = tf.execute(prog, faults)
    bad = tf.oracle(prog, obs)
    return (clause in bad) if clause else bool(bad)


def find_violation(prog, depth=2, clause=None):
    for faults, obs in enumerate_cases(prog, depth):
        bad = tf.oracle(prog, obs)
        if (clause in bad) if clause else bad:
            return faults
    return None


def used_backends(body):
    return {int(c.split(".")[1]) for c in body if c.split(".")[0] in ("set", "incr", "get", "del")}


def shrink(prog, faults, clause):
    """smaller program and fault set on which the implementation still contradicts the same clause"""
    best = (prog, tuple(faults))
    if len(faults) > 1:
        for f in faults:
            if violates(prog, (f,), clause):
                best = (prog, (f,))
                break

    def with_body(body):
        return dict(best[0], body=list(body))

    body = ddmin(best[0]["body"], lambda b: find_violation(with_body(b), len(best[1]) or 1, clause) is not None)
    p2 = with_body(body)
    f2 = find_violation(p2, len(best[1]) or 1, clause)
    if f2 is not None:
        best = (p2, f2)
    for field in ("data", "flocks"):
        p3 = dict(best[0], **{field: []})
        if violates(p3, best[1], clause):
            best = (p3, best[1])
    if best[0]["nb"] == 2 and used_backends(best[0]["body"]) <= {0} and all(d[0] == 0 for d in best[0]["data"]) \
            and all(f[0] == 0 for f in best[0]["flocks"]):
        p4 = dict(best[0], nb=1)
        if violates(p4, best[1], clause):
            best = (p4, best[1])
    return best


def make_replay(prog, faults, origin):
    obs = tf.execute(prog, faults)
    model = ask_model(prog, [(faults, obs)])[0]
    return {
        "program": prog,
        "faults": list(faults),
        "impl": summary(obs),
        "model": model,
        "violated_clauses": tf.oracle(prog, obs),
        "impl_vs_model_differs_on": diff(obs, model),
        "origin": origin,
        "replay_cmd": "./check C16 --replay <this file>",
    }


def report_property(chk: Check, prog, faults, clause, origin):
    sp, sf = shrink(prog, faults, clause)
    rep = make_replay(sp, sf, origin)
    chk.violation(
        f"after a transaction block ({sp['mode']} mode, {sp['nb']} backend(s), body {sp['body']}) in which backend command(s) "
        f"{list(sf)} of the trace {rep['impl']['trace']} failed: {clause}; caller saw {rep['impl']['exc']}, "
        f"locks left {rep['impl']['locks']}",
        rep, signature=clause)


def report_correspondence(chk: Check, prog, faults, keys, origin):
    rep = make_replay(prog, faults, origin)
    chk.violation(
        f"correspondence broken: implementation differs from the model TxFault on {keys} for program {prog['body']} "
        f"({prog['mode']}, {prog['nb']} backend(s)), faults {list(faults)}, but the property holds on this case",
        dict(rep, broken="correspondence TxFault model <-> cashews/wrapper/transaction.py + cashews/backends/transaction.py"),
        signature=None, no_input=True)


def corpus_cases():
    for f in sorted((ROOT / "corpus" / PROP).glob("*.json")):
        c = json.loads(f.read_text())
        yield f.name, c["program"], tuple(c["faults"])


def run(chk: Check) -> int:
    proof = proof_stage(PROP, "driver_c16", chk.thorough) if not getattr(chk, "skip_proof", False) else None
    t0 = REAL_PERF()
    budget_runs = chk.budget(24000, 400000)
    budget_s = chk.budget(20, 420)
    evaluations = 0
    distinct = set()
    interesting: dict[str, int] = {}
    hist_cmd: dict[str, int] = {}
    hist_prog = {"programs": 0, "fixed": 0, "generated": 0, "corpus_cases": 0}
    by_mode: dict[str, int] = {}
    depth_hist = {0: 0, 1: 0, 2: 0, 3: 0}
    samples = []
    found_property = 0
    found_corr = 0
    seen_clauses = set()

    pending: list = []          # (prog, faults, obs, origin) waiting for the model's answer (one driver call per batch)

    def flush():
        nonlocal evaluations, found_property, found_corr
        if not pending:
            return
        answers = DRIVER.ask([tf.model_line(prog, faults, obs["uprio"]) for prog, faults, obs, _ in pending])
        batch = list(zip(pending, answers))
        pending.clear()
        for (prog, faults, obs, origin), ans in batch:
            model = tf.parse_answer(ans)
            if model is None:
                raise HarnessError(f"model driver rejected a C16 request: {ans!r}")
            evaluations += 1
            depth_hist[min(len(faults), 3)] += 1
            st = classify(prog, obs)
            for x in st:
                interesting[x] = interesting.get(x, 0) + 1
            if obs["failed"] or "locked_error_in_body" in st:
                distinct.add(canon(prog, faults))
            for i in obs["failed"]:
                name = obs["trace"][i].split(".")[1]
                hist_cmd[name] = hist_cmd.get(name, 0) + 1
            if len(samples) < 4 and len(faults) == len(samples) % 3 and st and len(obs["trace"]) <= 12:
                samples.append({"program": prog, "faults": list(faults), "impl": summary(obs), "states": sorted(st)})
            bad = tf.oracle(prog, obs)
            d = diff(obs, model)
            for clause in bad:
                if clause not in seen_clauses and found_property < 3:
                    seen_clauses.add(clause)
                    found_property += 1
                    report_property(chk, prog, faults, clause, origin)
            if d and not bad and found_corr < 2 and found_property == 0:
                # determinism check before blaming anybody
                again = tf.execute(prog, faults)
                if summary(again) != summary(obs):
                    raise HarnessError(f"non-deterministic run of {prog} with faults {faults}")
                found_corr += 1
                report_correspondence(chk, prog, faults, d, origin)

    def submit(prog, cases, origin):
        pending.extend((prog, faults, obs, origin) for faults, obs in cases)
        if len(pending) >= 1500:
            flush()

    # corpus first
    for name, prog, faults in corpus_cases():
        hist_prog["corpus_cases"] += 1
        submit(prog, [(faults, tf.execute(prog, faults))], "corpus:" + name)
    flush()

    def whole_program(prog, origin, depth):
        hist_prog["programs"] += 1
        by_mode[f"{prog['mode']}/{prog['nb']}"] = by_mode.get(f"{prog['mode']}/{prog['nb']}", 0) + 1
        submit(prog, enumerate_cases(prog, depth), origin)

    for i, prog in enumerate(fixed_family()):
        if found_property >= 3:
            break
        hist_prog["fixed"] += 1
        # thorough: triples too, for the programs whose traces are short enough
        depth = 3 if chk.thorough and prog["timeout"] <= 16 else 2
        whole_program(prog, f"fixed:{i}", depth)
    flush()
    g = 0
    submitted = evaluations
    while submitted < budget_runs and REAL_PERF() - t0 < budget_s and found_property < 3 and found_corr < 2:
        prog = gen_program(chk.rng)
        hist_prog["generated"] += 1
        before = len(pending)
        whole_program(prog, f"gen:{g}", 2)
        submitted = evaluations + len(pending)
        g += 1
    flush()

    if proof is not None:
        chk.proof_broken(proof, found_property > 0)
    chk.coverage.update({
        "evaluations": evaluations,
        "distinct_nontrivial": len(distinct),
        "exhaustive": True,
        "rule": "for every program: the fault-free run, EVERY single position of its backend-command trace made to raise, and EVERY pair "
                "(second position ranging over the trace that the first fault produces); thorough also every triple for the fixed family. "
                "Programs: a fixed family (3 modes x 1/2 backends x context-manager/decorator x both exception classes, normal / raising "
                "bodies, TTL groups and time advance, contention) plus programs generated from VERIF_SEED until the budget is used. "
                "Exhaustive per program, not over programs. A case is non-trivial iff at least one command actually failed or the body "
                "hit LockedError; distinct = distinct (program, fault set).",
        "samples": samples,
        "programs": hist_prog["programs"],
        "program_counts": hist_prog,
        "programs_by_mode_and_backends": by_mode,
        "runs_by_number_of_faults": {str(k): v for k, v in depth_hist.items()},
        "failed_command_histogram": hist_cmd,
        "interesting_states_runs": interesting,
        "trusted_base": TRUSTED,
        "partial": "not exhibited by the model: a command that takes effect and then reports failure; cancellation (BaseException); "
                   "several tasks (C05); nested blocks and explicit tx.commit()/rollback() inside the body; commands other than "
                   "set/incr/get/delete; the 0.1 s sleeps of the lock wait loop are symbolic (count of attempts), so the clock of "
                   "contended runs is not compared; Redis/diskcache backends",
    })
    chk.assumptions.extend(TRUSTED)
    return chk.finish(proof)


def replay(chk: Check, path: str) -> int:
    c = json.loads(Path(path).read_text())
    if "program" not in c:
        print("replay: this file names a broken proof obligation / correspondence, there is no input to re-run")
        return 1
    prog, faults = c["program"], tuple(c["faults"])
    obs = tf.execute(prog, faults)
    model = ask_model(prog, [(faults, obs)])[0]
    print("program:", json.dumps(prog))
    print("faults :", list(faults))
    for k in KEYS:
        flag = "" if obs[k] == model[k] else "   <-- differs"
        print(f"  {k:6s} impl={obs[k]}\n         model={model[k]}{flag}")
    bad = tf.oracle(prog, obs)
    d = diff(obs, model)
    if not bad and not d:
        print("replay: property holds and implementation agrees with the model")
        return 0
    if bad:
        print("property clauses contradicted:", bad)
    print(f"VIOLATION property={PROP} replay={path}")
    return 1
