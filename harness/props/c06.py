"""C06 - cache.lock / @locked give mutual exclusion with owner-only release.

proof: lean/CashewsVerif/Props/C06.lean (lock-protocol transition system over any backend satisfying the lock
       contract; the in-memory model and the ideal TTL map satisfy it).
tie:   2-4 real tasks enter/leave guarded sections through Cache.lock, @cache.locked (coroutine and async
       generator), Memory.lock and decorators.locked(backend) on the virtual loop (timed runs, purge task off
       and on, incl. cases built around one purge tick: expired locks in the store, an acquirer starting at the
       instant of the tick) and under the command-level gate scheduler (sampled and exhaustively enumerated schedules,
       cancellation at suspension points).  The recorded trace of lock commands is replayed on the Lean driver;
       compared: (a) every set_lock / unlock / is_locked result and LockedError with the model over `Mem` and
       over `TtlMap`, the set of holders with their lease status after every action; (b) the property itself
       on the implementation's own observations: body occupancy per key at every instant with each occupant's
       lease status, foreign unlocks release nothing, own lock released on every exit, a free lock is acquired
       by the next attempt.
       Transactions: sections are also entered INSIDE `cache.transaction(mode)` blocks (FAST / LOCKED / SERIALIZABLE, nested,
       opened inside a section, committed and rolled back, with application writes in the overlay) while the other contenders
       are inside their own transaction or outside any: the lock commands must reach the backend that owns the key (a body that
       starts although no set_lock reached it is a violation) and the model - whose lock actions bypass the overlay - must agree.
       Several backends: Cache objects with 2-3 backends under different prefixes, some disabled entirely / without PING /
       without SET_LOCK; the model is told every backend's health and reads the two inputs of an attempt (SET_LOCK enabled, probe
       answered) off the backend that OWNS the key; a section entered without the lock is legitimate only when that backend has
       SET_LOCK disabled ("no locking", fix 9f42eb2) or does not answer the probe.
       Facade details: user middlewares of cashews/helpers.py (memory_limit windows around the 85-byte token, add_prefix,
       all_keys_lower) installed with setup(middlewares=...) must not change the protocol; locked async generators are consumed by
       draining, aclose(), aclosing, or are dropped, with consumer-side pauses (release at the yield point); ttls are written as
       timedelta (with fractions of a second) / int / strings and the backend must receive the denoted duration.
       Exits: bodies end normally, by cancellation, with an application exception, with an exception of EVERY class that
       cashews/exceptions.py defines, or with other (Base)Exception kinds - also inside @cache(ttl, lock=True) functions;
       whatever a section ends with, its own identifier must have been unlocked.
"""
from __future__ import annotations

import json
from pathlib import Path

from .. import lockrun
from ..core import ROOT, Check, Driver, HarnessError, ddmin, proof_stage

PROP = "C06"
D43 = "D43:lock-probe-routed-by-message-text"
BATCH = 250
DRIVER = Driver("driver_c06", "Drivers/C06.lean")
CFGS = list(lockrun.CONFIGS)

TRUSTED = [
    "Lean 4.33.0 kernel; axioms of every theorem audited to be within {propext, Classical.choice, Quot.sound}",
    "hand-written model lean/CashewsVerif/Model/Lock.lean of _BackendInterface.lock / Memory.set(exist=False) / "
    "Memory.unlock / Memory.is_locked, tied to the code by this run's trace correspondence",
    "asyncio assumptions A1 (no preemption between suspension points) and A4 (finally blocks run on CancelledError): "
    "exercised on the real event loop by every run, not proved",
    "uuid4 as a fresh-token oracle: identifiers of different lock() calls differ and nobody else presents them "
    "(the model draws them from a counter; foreign unlocks use values from a disjoint namespace)",
    "harness: virtual clock/loop (harness/vtime.py), gate scheduler (harness/sched.py + LSched in harness/lockrun.py), "
    "recording Memory subclass (its store reports every mutation with the task that made it: purge sweeps are whatever a task that is "
    "neither the harness's nor a scripted one does to the store), mapping of identifiers to activation numbers, the wait-for graph "
    "that classifies a non-terminating run as a deadlock of the generated program",
    "the purge sweep is atomic with respect to lock commands (Model/Sweep.lean; theorem atomic_sweeps_are_purge_ops of C11): assumed by "
    "the model's single `purge` operation; exercised by acquirers scheduled at the very instant of a purge tick "
    "(purge_race_cases; tag sweep_split_by_lock_commands stays absent)",
    "routing of lock keys to backends (longest registered prefix) is C17's theorem; here the harness mirrors the rule "
    "(lockrun.owner_prefix), checks that every set_lock / unlock / is_locked was executed by the owning backend, and the model owns "
    "key 100*b+k by backend b",
    "transactions: the overlay of application writes is modelled only as far as the lock protocol needs it (it exists, the lock commands "
    "neither read nor write it); commit / rollback of application keys are C03-C05; the :tx_lock: / :serializable:lock keys that LOCKED / "
    "SERIALIZABLE transactions take on the backend are lock-contract operations on other keys (frame clauses of the contract) and are "
    "not replayed on the model",
    "Redis: only the contract is stated (SET NX PX + owner-checked _UNLOCK script = the TtlMap instance); "
    "no Redis server or redis-py here (C19)",
    "capacity eviction of lock keys excluded (size=1000 >> keys; C11)",
]

PARTIAL = ("health of the backends is configured before the tasks start (disable/enable while tasks run is context-local: C17); "
           "the model cannot exhibit: a second cancellation delivered inside the `finally: unlock` (possible only on a "
           "backend whose unlock suspends; not on Memory), lock keys evicted "
           "by capacity pressure, uuid collisions, non-dyadic ttls; more than 4 tasks / 2 keys are not sampled; a generated program "
           "that deadlocks (circular wait under leases that never lapse) is not judged for termination")


# ------------------------------------------------------------------------------------------------------
# events -> model trace, spec oracle
# ------------------------------------------------------------------------------------------------------

knum = lockrun.knum


class Analysis:
    """Turns the event log of one run into model lines with the implementation's observed outputs, and
    evaluates the property on the implementation's own observations."""

    def __init__(self, case: dict, events: list[dict], info: dict):
        self.case = case
        self.events = events
        self.info = info
        self.lines: list[tuple[str, str | None]] = []
        self.impl_in: list[str | None] = []
        self.impl_tx: list[str] = []
        self.problems: list[dict] = []       # {"kind": "property"|"correspondence", "what": ..., "sig": ...}
        self.tags: set[str] = set()
        self.notes: dict[int, list] = {}     # model line index -> what the purge task did to the store in that sweep
        self.skipped: str | None = None      # "deadlock": the PROGRAM deadlocked (circular wait, leases that never lapse)
        self.build()

    def problem(self, kind, sig, what):
        self.problems.append({"kind": kind, "sig": sig, "what": what, "line": len(self.lines)})

    def build(self):
        ev = self.events
        timed = self.case["mode"] == "timed"
        outcomes = {e["sec"]: e["outcome"] for e in ev if e["ev"] == "outcome"}
        secinfo = {e["sec"]: e for e in ev if e["ev"] == "sec_start"}
        last_setlock = {}
        for i, e in enumerate(ev):
            if e["ev"] == "set_lock":
                last_setlock[e["tok"]] = i
        backends = lockrun.case_backends(self.case)
        health = {b["p"]: lockrun.health_of(b) for b in backends}
        unhealthy_other = lambda own: any(h != (True, True) for p, h in health.items() if p != own)
        txs: dict[int, list] = {}            # task -> [mode, depth, overlay size] of the transaction it is in
        acts: dict[str, dict] = {}           # identifier (or "sec<n>" when no set_lock reached a backend) -> activation
        by_sec: dict[int, dict] = {}
        lock: dict[str, tuple] = {}          # spec lock state: key -> (identifier, deadline or None)
        bodies: dict[int, dict] = {}         # sections whose body is executing
        how_of: dict[int, str] = {}
        callable_ttls: dict = {}             # decorated function of the run -> the ttls its calls asked for
        closed_gens: set[int] = set()        # generator sections whose lock was released while suspended at a yield
        now = 0
        version = 0
        last_fail: dict[str, tuple] = {}
        alien_seq = 0

        def emit(line, out):
            self.lines.append((line, out))
            self.impl_in.append(self.impl_inside(acts, now))
            self.impl_tx.append(",".join(f"{th}:{m}:{d}:{n}" for th, (m, d, n) in txs.items()) or "-")

        owners: dict[str, int] = {}

        def owner_of(key):
            if key in owners:
                return owners[key]
            own = lockrun.owner_prefix(key, backends)
            if own is None or own != knum(key) // 100:
                if own is None:
                    raise HarnessError(f"case uses lock key {key!r} that no configured backend owns")
                if own is not None:
                    raise HarnessError(f"case builds lock key {key!r} with a prefix that is not configured")
            owners[key] = knum(key) // 100
            return owners[key]

        def on_owner(e):
            if e.get("be", 0) != owner_of(e["key"]):
                self.problem("correspondence", "wrong_backend",
                             f"{e['ev']} on {e['key']} was executed by the backend under prefix "
                             f"{lockrun.PREFIXES[e['be']]!r}, not by the one that owns the key")

        def new_activation(ident, sec, si):
            key = si["key"]
            a = {"id": len(acts), "ident": ident, "sec": sec, "key": key, "ttl": si["ttl"], "wait": si["wait"],
                 "acq": None, "unlocked": False, "attempts": 0, "first_t": now, "last_attempt_t": None,
                 "unguarded": None, "left": False}
            acts[ident] = a
            by_sec.setdefault(sec, a)
            if by_sec[sec] is not a:
                self.problem("correspondence", "two_identifiers", "one lock() call used two identifiers")
            ttl = "-" if si["ttl"] is None else str(si["ttl"])
            emit(f"enter {a['id']} {si['task']} {knum(key)} {ttl} {'w' if si['wait'] else 'n'}", "U")
            if timed and now != si["t"]:
                self.problem("correspondence", "late_first_attempt",
                             f"first set_lock of a lock() call came {now - si['t']} ticks after the call")
            return a

        # after which refused set_lock did the facade's liveness probe come back None, and which backends were asked?
        # (one pass over the log)
        unanswered: set[int] = set()
        pinged: dict[int, list] = {}
        last_refused: dict = {}
        for i, e in enumerate(ev):
            k = e["ev"]
            if k == "set_lock":
                last_refused[e["sec"]] = None if e["res"] else i
            elif k == "mw_ping":
                j = last_refused.get(e.get("sec"))
                if j is not None:
                    pinged.setdefault(j, []).append(e["be"])
                    if not e["res"]:
                        unanswered.add(j)
            elif k in ("body_enter", "outcome", "disabled") and e.get("sec") in last_refused:
                last_refused[e["sec"]] = None
        # the backend that owns the TEXT "LOCK" (defect D43: the probe `ping(b"LOCK")` was routed to it, not to the key's owner)
        text_owner = lockrun.owner_prefix("LOCK", backends)

        for spec in self.case.get("mw") or []:
            self.tags.add("helper_middleware_" + spec[0])
            if spec[0] == "memory_limit" and (spec[1] > 85 or (spec[2] and spec[2] < 85)):
                self.tags.add("memory_limit_window_excludes_the_lock_token")
        for b in backends:
            if health[b["p"]] != (True, True):
                emit(f"backend {b['p']} {int(health[b['p']][0])} {int(health[b['p']][1])}", "U")

        def live(key):
            cur = lock.get(key)
            if cur is None:
                return None
            if cur[1] is not None and cur[1] <= now:
                return None
            return cur

        sweep_t = cmd_t = sweep_be = None    # instant of the latest purge sweep (and whose backend's) / lock command
        cmds_since_sweep = 0
        started: set[int] = set()            # sections whose `sec_start` / `outcome` event has been seen so far
        ended: set[int] = set()

        def deadlocked() -> bool:
            """The harness's own wait-for graph at this point of the log.  A task is *stuck* iff its innermost
            unfinished section is a wait=True section that has not acquired, on a key whose lock is held under a
            lease that never lapses (ttl None) by a section that is itself unfinished.  The program is deadlocked
            iff some task is in a section and every such task is stuck: then every holder in the graph is the
            enclosing section of a stuck task, i.e. the waits are circular and no lease will ever lapse.  C06
            does not forbid that (locks taken in opposite order without ttl); a waiter whose key is free, expired
            or held under a finite lease is NOT stuck - if such a run does not terminate it stays a finding."""
            innermost: dict = {}
            for sid, si in secinfo.items():
                if sid in ended or sid not in started:
                    continue
                innermost[si["task"]] = max(innermost.get(si["task"], 0), sid)
            if not innermost:
                return False
            for task, sid in innermost.items():
                si = secinfo[sid]
                a = by_sec.get(sid)
                if not si["wait"] or a is None or a["acq"] is not None or a["unguarded"]:
                    return False
                cur = lock.get(si["key"])
                if cur is None or cur[1] is not None:
                    return False
                holder = acts.get(cur[0])
                if holder is None or holder["unlocked"] or holder["sec"] in ended or holder["sec"] not in started:
                    return False
            return True

        for i, e in enumerate(ev):
            if e["t"] > now:
                dt = e["t"] - now
                now = e["t"]
                emit(f"tick {dt}", "U")
                self.check_occupancy(bodies, acts, now)
            kind = e["ev"]
            if kind in ("set_lock", "unlock", "probe"):
                cmd_t = now
                cmds_since_sweep += 1
                if sweep_t == now:
                    self.tags.add("lock_command_at_the_instant_of_a_sweep_after_it")
            if kind == "sec_start":
                started.add(e["sec"])
                if (e.get("form") or "").startswith("cb") and e["via"] in ("deco", "gen"):
                    fn = (e["via"], knum(e["key"]) // 100, e["wait"], e["ci"], e["form"])
                    callable_ttls.setdefault(fn, set()).add(e["ttl"])
                    self.tags.add("callable_ttl")
                    if len(callable_ttls[fn]) > 1:
                        self.tags.add("successive_calls_of_one_function_with_different_callable_ttls")
                if e["via"] == "clock":
                    self.tags.add("cache_lock_true_section")
            elif kind == "outcome":
                ended.add(e["sec"])
            if kind == "set_lock":
                ident, key = e["tok"], e["key"]
                sec = e["sec"]
                si = secinfo.get(sec)
                if si is None:
                    self.problem("correspondence", "set_lock_outside_section", f"set_lock on {key} outside any scripted section")
                    continue
                on_owner(e)
                in_tx = si["task"] in txs
                a = acts.get(ident)
                if a is None:
                    a = new_activation(ident, sec, si)
                    want = None if si["ttl"] is None else si["ttl"] * 0.125
                    if e.get("ttl") != want and not (e.get("ttl") is None and want is None):
                        self.problem("correspondence", "ttl_lowering",
                                     f"lock ttl written as {si['ttl'] is not None and lockrun.memhist.spell(si['ttl'], {'cb': 'f', 'cbtd': 'td'}.get(si.get('form'), si.get('form') or 'f'))!r}"
                                     f"{' (returned for THIS call by the callable ttl of the decorated function)' if (si.get('form') or '').startswith('cb') else ''} "
                                     f"({si['ttl']} ticks = {want} s) reached the backend as expire={e.get('ttl')!r}")
                    if si.get("form") and si["form"] != "f":
                        self.tags.add("ttl_spelled_" + si["form"])
                        if si["ttl"] is not None and si["ttl"] % 8:
                            self.tags.add("ttl_timedelta_with_fraction_of_a_second")
                down = i in unanswered
                if e["res"]:
                    out = "A"
                else:
                    fk = (version, now)
                    if last_fail.get(ident) == fk and si["wait"] and not down:
                        a["attempts"] += 1
                        continue            # an identical retry at the same instant: nothing can have changed
                    last_fail[ident] = fk
                    # wait=False: LockedError follows (or a cancellation lands on the ping probe just before it)
                    gave_up = outcomes.get(sec) == "locked" or (not si["wait"] and outcomes.get(sec) == "cancelled")
                    out = "D" if down else ("L" if (gave_up and last_setlock[ident] == i) else "R")
                    if out == "L":
                        a["failed"] = True
                    if out == "D":
                        a["unguarded"] = "D"     # lock() yields without the lock: "backend down"
                        a["pinged"] = pinged.get(i, [])
                    self.tags.add("contended_attempt")
                    if "memory_limit_window_excludes_the_lock_token" in self.tags:
                        self.tags.add("contended_attempt_behind_memory_limit_excluding_the_token")
                    if in_tx:
                        self.tags.add("contended_attempt_inside_transaction")
                    holder = acts.get((live(key) or (None,))[0])
                    if holder is not None and secinfo[holder["sec"]]["task"] in txs:
                        self.tags.add("contended_attempt_while_holder_inside_transaction")
                    if unhealthy_other(owner_of(key)) and health[owner_of(key)] == (True, True):
                        self.tags.add("contended_attempt_with_another_backend_unhealthy")
                    if owner_of(key) != 0 and health[owner_of(key)] == (True, True) and \
                            (text_owner is None or not health[text_owner][1]):
                        self.tags.add("contended_attempt_healthy_prefixed_owner_default_backend_absent_or_silent")
                    if owner_of(key) != 0 and health[owner_of(key)] == (True, False) and text_owner is not None \
                            and health[text_owner] == (True, True):
                        self.tags.add("contended_attempt_prefixed_owner_silent_default_backend_healthy")
                a["attempts"] += 1
                if timed and si["wait"] and a["last_attempt_t"] is not None:
                    ci = si.get("ci", 0)
                    if now - a["last_attempt_t"] > max(ci, 1):
                        self.problem("correspondence", "retry_cadence",
                                     f"waiter retried after {now - a['last_attempt_t']} ticks, check_interval={ci}")
                a["last_attempt_t"] = now
                # the property on the implementation's own observations
                cur = live(key)
                if cur is None and not e["res"]:
                    self.problem("property", "free_lock_not_acquired",
                                 f"set_lock on {key} answered False at tick {now} although no live lock exists "
                                 f"(raw store entry: {e['raw']}) - the caller does not acquire on its next attempt")
                if cur is not None and e["res"]:
                    self.problem("property", "live_lock_overwritten",
                                 f"set_lock on {key} answered True at tick {now} although a live lock exists")
                if e["res"]:
                    version += 1
                    dl = None if not si["ttl"] else now + si["ttl"]
                    lock[key] = (ident, dl)
                    a["acq"] = now
                    a["dl"] = dl
                    if e["raw"] == "expired":
                        self.tags.add("acquired_over_expired_unpurged_entry")
                    if cur is None and lock.get(key) and e["raw"] != "absent":
                        pass
                    if a["attempts"] > 1:
                        self.tags.add("waiter_acquired")
                    if in_tx:
                        self.tags.add("lock_taken_inside_transaction")
                emit(f"attempt {a['id']}", out)
                if out == "L":
                    self.tags.add("locked_error")
            elif kind == "unlock":
                ident, key = e["tok"], e["key"]
                on_owner(e)
                cur = live(key)
                a = acts.get(ident)
                if a is not None:
                    how = how_of.get(a["sec"], "n")
                    if a["sec"] in bodies:
                        if bodies[a["sec"]].get("at_yield"):
                            # a @locked async generator suspended at its yield point whose consumer stopped iterating
                            # (aclose / aclosing / finalisation): the section ends here, the body only runs its clean-up
                            bodies.pop(a["sec"])
                            how_of.setdefault(a["sec"], "g")
                            how = "g"
                            closed_gens.add(a["sec"])
                        else:
                            self.problem("correspondence", "unlock_before_body_end", "unlock issued while the body is still running")
                    if a["acq"] is None:
                        self.problem("correspondence", "unlock_without_lock", "unlock by a lock() call that never acquired")
                    within = a["acq"] is not None and not a["unlocked"] and (a.get("dl") is None or now < a["dl"])
                    if within and not e["res"]:
                        self.problem("property", "own_unlock_failed",
                                     f"holder of {key} left within its lease ({how}) but unlock answered False")
                    if e["res"] and (cur is None or cur[0] != ident):
                        self.problem("property", "unlock_not_owner",
                                     f"unlock of {key} answered True for a caller that does not own the live lock")
                    if e["res"]:
                        version += 1
                        lock.pop(key, None)
                    elif cur is not None and cur[0] == ident:
                        self.problem("property", "own_lock_not_removed", f"unlock of own live lock on {key} answered False")
                    if not e["res"]:
                        self.tags.add("late_unlock_answers_false")
                        if cur is not None:
                            self.tags.add("late_unlock_leaves_next_holder_alone")
                    a["unlocked"] = True
                    if how.startswith("x:"):
                        self.tags.add("exit_exception")
                        self.tags.add("exit_library_exception" if how[2:] in LIBRARY_ENDS() else "exit_other_exception_kind")
                        self.tags.add("exit_" + how[2:])
                    else:
                        self.tags.add({"n": "exit_normal", "e": "exit_exception", "c": "exit_cancelled",
                                       "g": "exit_generator_closed_by_consumer"}[how])
                    emit(f"leave {a['id']} {how}", "rT" if e["res"] else "rF")
                else:
                    if isinstance(ident, str) and ident.startswith("alien-"):
                        n = int(ident.split("-")[1])
                    else:
                        alien_seq += 1
                        n = 1000 + alien_seq
                        self.problem("correspondence", "unknown_identifier",
                                     f"unlock of {key} presented an identifier that no set_lock used")
                    if e["res"]:
                        self.problem("property", "foreign_unlock_released",
                                     f"unlock of {key} with a value that does not own the lock answered True"
                                     + (" and removed a live lock" if cur is not None else ""))
                        version += 1
                        lock.pop(key, None)
                    if cur is not None:
                        self.tags.add("foreign_unlock_on_held_lock")
                    else:
                        self.tags.add("foreign_unlock_on_free_key")
                    emit(f"funlock {knum(key)} {n}", "T" if e["res"] else "F")
            elif kind == "probe":
                on_owner(e)
                emit(f"probe {knum(e['key'])}", "T" if e["res"] else "F")
            elif kind == "disabled":
                if e["cmd"] == "set_lock" and e.get("sec") in secinfo and lockrun.is_lock_key(e["key"]):
                    # the facade answered None for set_lock: the command never reached a backend
                    sec = e["sec"]
                    si = secinfo[sec]
                    a = by_sec.get(sec) or new_activation(f"sec{sec}", sec, si)
                    a["attempts"] += 1
                    a["unguarded"] = "N"
                    emit(f"attempt {a['id']}", "N")
                else:
                    self.tags.add("other_command_disabled")
            elif kind == "tx_begin":
                th = e["task"]
                if th in txs:
                    txs[th][1] += 1
                else:
                    txs[th] = [e["mode"], 0, 0]
                emit(f"txbegin {th} {e['mode']}", "U")
                self.tags.add("transaction_" + e["mode"])
                if any(a["acq"] is not None and not a["unlocked"] and secinfo[a["sec"]]["task"] == th for a in acts.values()):
                    self.tags.add("transaction_opened_inside_section")
            elif kind == "app_set":
                th = e["task"]
                if th in txs:
                    txs[th][2] += 1
                emit(f"txset {th} {900 + th} {e['v']}", "U" if th in txs else "I")
            elif kind == "tx_end":
                th = e["task"]
                if th in txs:
                    if txs[th][1] > 0:
                        txs[th][1] -= 1
                    else:
                        del txs[th]
                    emit(f"txend {th} {e['how']}", "U")
                else:
                    self.problem("correspondence", "tx_end_without_begin", "a transaction block ended that never began")
            elif kind == "sweep":
                emit("purge", "U")
                self.notes[len(self.lines) - 1] = [f"{op} {k}" for op, k in e.get("did", [])]
                self.tags.add("purge_sweep")
                if sweep_t == now and cmds_since_sweep and sweep_be == e.get("be", 0):
                    self.tags.add("sweep_split_by_lock_commands")      # the purge suspended part-way and a task got in
                if cmd_t == now:
                    self.tags.add("sweep_at_the_instant_of_a_lock_command_after_it")
                if any(op == "del" and lock.get(k) is not None and lock[k][1] is not None and lock[k][1] <= now
                       for op, k in e.get("did", [])):
                    self.tags.add("sweep_collects_expired_lock")
                sweep_t, cmds_since_sweep, sweep_be = now, 0, e.get("be", 0)
            elif kind == "body_enter":
                sec = e["sec"]
                a = by_sec.get(sec)
                legit = False
                if a is None or a["acq"] is None or a["unlocked"]:
                    key = secinfo[sec]["key"]
                    own = health[owner_of(key)]
                    why = a["unguarded"] if a is not None else None
                    in_tx = secinfo[sec]["task"] in txs
                    if why == "N" and not own[0]:
                        legit = True          # set_lock is disabled on the owning backend: no locking (fix 9f42eb2)
                        self.tags.add("unguarded_entry_set_lock_disabled")
                    elif why == "D" and own[0] and not own[1]:
                        legit = True          # the owning backend does not answer the probe: lock()'s documented fallback
                        self.tags.add("unguarded_entry_owner_does_not_answer_probe")
                    elif why == "D":
                        asked = a.get("pinged") or []
                        d43 = asked == [text_owner] and text_owner != owner_of(key)
                        self.problem("property", D43 if d43 else "body_without_lock",
                                     f"the guarded body of section {sec} on {key} started without holding the lock: after a refused "
                                     "set_lock the liveness probe of lock() came back None although the backend that owns the key "
                                     "is healthy (enabled, answers PING)"
                                     + (f"; the probe was sent to the backend under prefix {lockrun.PREFIXES[text_owner]!r}, which owns "
                                        "the text 'LOCK' of the message, not the lock key (regression of D43)" if d43 else ""))
                    elif why == "N":
                        self.problem("property", "body_without_lock",
                                     f"the guarded body of section {sec} on {key} started without holding the lock: set_lock was "
                                     "answered None although SET_LOCK is enabled on the backend that owns the key")
                    elif a is None:
                        self.problem("property", "body_without_lock",
                                     f"the guarded body of section {sec} on {key} started although no set_lock reached the backend "
                                     "that owns the key" + (" (the task is inside a transaction: the lock is not in the shared store, "
                                                            "other tasks cannot see it)" if in_tx else ""))
                    else:
                        self.problem("property", "body_without_lock",
                                     f"the guarded body of section {sec} started without holding the lock")
                bodies[sec] = {"key": secinfo[sec]["key"], "act": a, "legit": legit}
                self.check_occupancy(bodies, acts, now)
            elif kind == "body_exit":
                bodies.pop(e["sec"], None)
                how_of.setdefault(e["sec"], e["how"]) if e["sec"] in closed_gens else how_of.__setitem__(e["sec"], e["how"])
            elif kind == "gen_yield":
                if e["sec"] in bodies:
                    bodies[e["sec"]]["at_yield"] = True
            elif kind == "gen_resume":
                if e["sec"] in bodies:
                    bodies[e["sec"]]["at_yield"] = False
                elif e["sec"] in closed_gens:
                    self.problem("property", "body_runs_after_release",
                                 f"the body of the locked generator of section {e['sec']} was resumed after its lock had been released")
            elif kind == "outcome":
                sec = e["sec"]
                a = by_sec.get(sec)
                if a is not None and a["unguarded"]:
                    if not a["left"]:
                        a["left"] = True
                        emit(f"leave {a['id']} {how_of.get(sec, 'n')}", "U")      # `yield; return`: no unlock is issued
                elif a is not None:
                    if a["acq"] is not None and not a["unlocked"]:
                        self.problem("property", "not_released_on_exit",
                                     f"section on {a['key']} ended ({e['outcome']}) without an unlock of its own identifier")
                        # keep the model in step for the rest of the replay: nothing to emit
                    if a["acq"] is None and e["outcome"] == "cancelled" and not a.get("failed"):
                        emit(f"giveup {a['id']}", "U")
                        self.tags.add("cancelled_while_waiting")
                    if a["acq"] is None and e["outcome"] == "ok":
                        self.problem("property", "body_without_lock", "section completed although the lock was never acquired")
                if e["outcome"] == "other:NotConfiguredError" and text_owner is None and a is not None and a["acq"] is None \
                        and a["attempts"] and health[owner_of(a["key"])][0]:
                    self.problem("property", D43,
                                 f"a contended lock() on {a['key']} raised NotConfiguredError instead of waiting / LockedError: the "
                                 "liveness probe is routed by the text 'LOCK' of its message, which no configured backend owns "
                                 "(regression of D43)")
                elif e["outcome"].startswith("other:"):
                    self.problem("correspondence", "unexpected_exception", f"section raised {e['outcome'][6:]}")
            elif kind == "horizon":
                if deadlocked():
                    self.skipped = "deadlock"
                else:
                    self.problem("correspondence", "horizon", f"tasks {e['pending']} still running at the horizon")
        if self.info.get("livelock"):
            if deadlocked():
                self.skipped = "deadlock"
            else:
                self.problem("property", "livelock",
                             f"the run does not terminate: {self.info['livelock']} (a waiting caller never acquires / never yields)")
        self.nacts = len(acts)

    @staticmethod
    def impl_inside(acts, now) -> str:
        items = []
        for a in sorted(acts.values(), key=lambda a: a["id"]):
            if a["unguarded"]:
                if not a["left"]:
                    items.append(f"{a['id']}:{knum(a['key'])}:U")
            elif a["acq"] is not None and not a["unlocked"]:
                within = a.get("dl") is None or now < a["dl"]
                items.append(f"{a['id']}:{knum(a['key'])}:{'L' if within else 'X'}")
        return ",".join(items) if items else "-"

    def check_occupancy(self, bodies, acts, now):
        """the property statement on the observed body occupancy"""
        per_key: dict[str, list] = {}
        for sec, b in bodies.items():
            per_key.setdefault(b["key"], []).append(b)
        for key, occ in per_key.items():
            within = [b for b in occ if b["act"] is not None and b["act"]["acq"] is not None
                      and (b["act"].get("dl") is None or now < b["act"]["dl"])]
            nolock = [b for b in occ if (b["act"] is None or b["act"]["acq"] is None) and not b.get("legit")]
            if len(occ) >= 2 and any(b.get("legit") for b in occ):
                self.tags.add("two_bodies_overlap_no_locking")
            if any(b["act"] is not None and b["act"].get("dl") is not None and now >= b["act"]["dl"] for b in occ):
                self.tags.add("holder_overstays_ttl")
            if len(occ) >= 2 and not any(b.get("legit") for b in occ):
                self.tags.add("two_bodies_overlap_one_past_lease")
            if len(within) + len(nolock) >= 2:
                self.problem("property", "mutual_exclusion",
                             f"{len(occ)} tasks are inside the section of {key} at tick {now}, "
                             f"{len(within)} of them within their lease")


def model_lines(an: Analysis) -> list[str]:
    return ["case 1000"] + [l for l, _ in an.lines]


def compare(an: Analysis, answers: list[str]):
    """first model line where the implementation differs from model / spec / holder set (None if none)"""
    d_model = d_spec = d_in = d_tx = None
    for i, ((line, out), ans) in enumerate(zip(an.lines, answers[1:])):
        if not ans.startswith("model="):
            raise HarnessError(f"driver rejected `{line}`: {ans}")
        parts = dict(p.split("=", 1) for p in ans.split(" "))
        if d_model is None and out != parts["model"]:
            d_model = i
        if d_spec is None and out != parts["spec"]:
            d_spec = i
        if d_in is None and an.impl_in[i] != parts["in"]:
            d_in = i
        if d_tx is None and an.impl_tx[i] != parts["tx"]:
            d_tx = i
    return d_model, d_spec, d_in, d_tx


def run_impl(case: dict) -> Analysis:
    events, info = lockrun.execute(case)
    return Analysis(case, events, info)


def ask_model(ans: list[Analysis]) -> list[list[str]]:
    """one driver process for a whole batch of traces"""
    lines: list[str] = []
    for an in ans:
        lines.extend(model_lines(an))
    out = DRIVER.ask(lines) if lines else []
    res = []
    pos = 0
    for an in ans:
        n = len(an.lines) + 1
        res.append(out[pos:pos + n])
        pos += n
    return res


def run_case(case: dict):
    an = run_impl(case)
    return an, ask_model([an])[0]


def verdict(an: Analysis, answers):
    """(kind, signature, text) of the most serious finding of a run, or None"""
    props = [p for p in an.problems if p["kind"] == "property"]
    if props:
        p = props[0]
        return "property", p["sig"], p["what"]
    dm, ds, di, dt = compare(an, answers)
    if ds is not None or dm is not None:
        i = ds if ds is not None else dm
        line, out = an.lines[i]
        return ("correspondence", "output:" + line.split()[0],
                f"step {i} `{line}`: implementation observed {out}, driver says {answers[i + 1]}")
    if di is not None:
        return ("correspondence", "holders",
                f"after step {di} `{an.lines[di][0]}` holders differ: implementation {an.impl_in[di]}, {answers[di + 1]}")
    if dt is not None:
        return ("correspondence", "transactions",
                f"after step {dt} `{an.lines[dt][0]}` open transactions differ: script {an.impl_tx[dt]}, {answers[dt + 1]}")
    corr = [p for p in an.problems if p["kind"] == "correspondence"]
    if corr:
        return "correspondence", corr[0]["sig"], corr[0]["what"]
    return None


# ------------------------------------------------------------------------------------------------------
# generators
# ------------------------------------------------------------------------------------------------------

TTLS = [2, 4, 8, 8, 16, None, 12, 20]
WHOLE_FORMS = ["i", "s", "ss", "sn", "s4", "sU"]
# (min_bytes, max_bytes) of helpers.memory_limit; the lock token (a uuid4 string) measures 85 bytes
WINDOWS = [(0, None), (100, None), (256, None), (0, 50), (0, 84), (86, None), (0, 1000), (80, 90)]


_LIB: list = []


def LIBRARY_ENDS() -> list:
    """names of the exception classes cashews/exceptions.py (of the tree under test) defines"""
    if not _LIB:
        _LIB.extend(lockrun.library_exceptions())
    return _LIB


def gen_end(rng) -> str:
    """how a guarded body ends: normally, with an application exception, with an exception of one of the library's own
    classes (the body talks to a cache and lets the error through), or with another kind of (Base)Exception"""
    r = rng.random()
    if r < 0.72:
        return "n"
    if r < 0.80:
        return "e"
    if r < 0.94:
        return "x:" + rng.choice(LIBRARY_ENDS())
    return "x:" + rng.choice(sorted(lockrun.BUILTIN_ENDS))


def gen_form(rng, ttl):
    """how the application writes the ttl: float seconds (what the harness always did), a timedelta (any number of ticks,
    fractions of a second included), or - whole seconds only - an int / one of the string notations"""
    if ttl is None:
        return None
    r = rng.random()
    if r < 0.4:
        return None
    if r < 0.75 or ttl % 8:
        return "td"
    return rng.choice(WHOLE_FORMS)


def gen_mw(rng):
    """user middlewares of cashews/helpers.py installed with setup(middlewares=...)"""
    mw = []
    if rng.random() < 0.8:
        lo, hi = rng.choice(WINDOWS)
        mw.append(["memory_limit", lo, hi])
    if rng.random() < 0.3:
        mw.append(["add_prefix"])
    if rng.random() < 0.3:
        mw.append(["lower"])
    rng.shuffle(mw)
    return mw or [["memory_limit", 100, None]]

DURS = [0, 1, 2, 4, 4, 8, 12, 20]


def gen_section(rng, nkeys, depth, outer, gated):
    key = rng.randrange(nkeys)
    ttl = rng.choice(TTLS)
    wait = rng.random() < 0.7
    # a nested wait=True section on a key that an enclosing section holds without ttl would never get in
    if wait and any(k == key and t is None for k, t in outer):
        wait = False
    sec = {"via": rng.choice(["cm", "cm", "deco", "gen"]), "key": key, "ttl": ttl, "wait": wait,
           "ci": rng.choice([0, 1]), "end": gen_end(rng), "body": []}
    nsteps = rng.randrange(0, 4)
    for _ in range(nsteps):
        r = rng.random()
        if r < 0.5:
            sec["body"].append(["sleep", rng.choice(DURS)])
        elif r < 0.7:
            sec["body"].append(["point"])
        elif r < 0.8:
            sec["body"].append(["funlock", rng.randrange(nkeys), rng.randrange(4)])
        elif r < 0.88:
            sec["body"].append(["probe", rng.randrange(nkeys)])
        elif depth < 1:
            sec["body"].append(["lock", gen_section(rng, nkeys, depth + 1, outer + [(key, ttl)], gated)])
    if not sec["body"] and rng.random() < 0.7:
        sec["body"].append(["sleep", rng.choice(DURS)] if not gated or rng.random() < 0.5 else ["point"])
    form = gen_form(rng, ttl)
    if form:
        sec["form"] = form
    if sec["via"] in ("deco", "gen") and rng.random() < 0.3:
        # the ttl is a CALLABLE of the call's arguments: every section with the same decorator parameters calls the same
        # decorated function of the run and asks for its own ttl (also none)
        sec["form"] = rng.choice(["cb", "cb", "cbtd"])
    if sec["via"] == "gen" and sec["body"] and rng.random() < 0.6:
        # a consumer that does not drain the generator: every body step is followed by one chunk
        sec["consume"] = [rng.choice(["aclose", "aclosing", "abandon"]), rng.randrange(1, len(sec["body"]) + 1)]
        if rng.random() < 0.4:
            sec["between"] = [["sleep", rng.choice([0, 1, 2, 4])] if not gated or rng.random() < 0.5 else ["point"]]
    return sec


def to_cache_lock(sec: dict):
    """the section becomes a call of a `@cache(ttl, lock=True)` function: always wait=True, check_interval 0, a ttl is
    required, lock key space `lock:cl:K<k>`"""
    sec["via"] = "clock"
    sec["wait"] = True
    sec["ci"] = 0
    if sec["ttl"] is None:
        sec["ttl"] = 8
    for f in ("consume", "between", "be"):
        sec.pop(f, None)


def gen_task(rng, nkeys, gated):
    steps = []
    for _ in range(rng.randrange(1, 4)):
        r = rng.random()
        if r < 0.7:
            steps.append(["lock", gen_section(rng, nkeys, 0, [], gated)])
        elif r < 0.8:
            steps.append(["sleep", rng.choice(DURS)])
        elif r < 0.9:
            steps.append(["funlock", rng.randrange(nkeys), rng.randrange(4)])
        else:
            steps.append(["probe", rng.randrange(nkeys)])
    if not any(s[0] == "lock" for s in steps):
        steps.append(["lock", gen_section(rng, nkeys, 0, [], gated)])
    return steps


def hold_wait_edges(steps, held=()):
    """(held key, the section dict that holds it without ttl, awaited key) for every wait=True section nested, at
    any depth, inside a section on another key whose lease never lapses"""
    for st in steps:
        if st[0] == "tx":
            yield from hold_wait_edges(st[2], held)
            continue
        if st[0] != "lock":
            continue
        sec = st[1]
        kk = (sec.get("be", 0), sec["key"])
        if sec["wait"]:
            for k, outer in held:
                if k != kk:
                    yield k, outer, kk
        inner = held + ((kk, sec),) if sec["ttl"] is None else held
        yield from hold_wait_edges(sec.get("body", []), inner)


def break_cycles(case: dict) -> int:
    """A program in which one task holds key a without ttl while waiting for b, and another holds b without ttl while
    waiting for a, can deadlock for good - which C06 does not forbid and the check cannot judge.  Give the holder of
    every such crossing a finite lease (the crossing then resolves by expiry: that IS interesting)."""
    changed = 0
    while True:
        edges = [(ti, a, sec, b) for ti, prog in enumerate(case["tasks"]) for a, sec, b in hold_wait_edges(prog)]
        hit = next((e2 for e1 in edges for e2 in edges if e1[0] != e2[0] and e1[1] == e2[3] and e1[3] == e2[1]), None)
        if hit is None:
            return changed
        hit[2]["ttl"] = 16
        changed += 1


def gen_case(rng, i) -> dict:
    gated = i % 2 == 1
    ntasks = rng.choice([2, 2, 3, 3, 4])
    nkeys = rng.choice([1, 1, 2])
    case = {"mode": "gated" if gated else "timed", "cfg": CFGS[(i // 2) % len(CFGS)],
            "tasks": [gen_task(rng, nkeys, gated) for _ in range(ntasks)]}
    break_cycles(case)
    if lockrun.CONFIGS[case["cfg"]]["facade"]:
        for path in list(_step_lists(case)):
            for st in _get_list(case, path):
                if st[0] == "lock" and rng.random() < 0.12:
                    to_cache_lock(st[1])
    if lockrun.CONFIGS[case["cfg"]]["facade"] and rng.random() < 0.3:
        case["mw"] = gen_mw(rng)
    if gated:
        sched = []
        for _ in range(rng.randrange(10, 60)):
            r = rng.random()
            if r < 0.75:
                sched.append(rng.randrange(4))
            elif r < 0.96:
                sched.append("t")
            else:
                sched.append(["c", rng.randrange(ntasks)])
        case["schedule"] = sched
    else:
        case["starts"] = [rng.choice([0, 0, 0, 1, 2, 4, 8]) for _ in range(ntasks)]
        case["cancels"] = [[rng.randrange(ntasks), rng.randrange(0, 40)] for _ in range(rng.choice([0, 0, 1, 1, 2]))]
        case["horizon"] = 600
    return case



FACADE_CFGS = [c for c in CFGS if lockrun.CONFIGS[c]["facade"]]
OFFS = [[], [], [], "all", "all", ["ping"], ["set_lock"], ["ping", "set_lock"]]


def gen_backends(rng):
    """1-3 backends under different prefixes in drawn states of health + the prefixes lock keys are built with.
    Most draws have a fully healthy owner and at least one other backend that is disabled entirely / has lost PING or
    SET_LOCK; some have an unhealthy owner (set_lock disabled = no locking; no answer to the probe = lock()'s fallback).
    The probe of lock() has to go to the backend that owns the lock key, not to the one that owns the text of its message
    (D43): a share of the draws has a healthy owner under a prefix while the default-prefix backend is absent / disabled /
    without PING, and the reverse (the prefixed owner does not answer the probe, the default backend is healthy)."""
    r = rng.random()
    if r < 0.3:
        own = {"p": rng.choice([1, 2]), "off": []}
        backends = [own]
        d = rng.choice(["absent", "all", ["ping"], ["ping", "set_lock"]])
        if d != "absent":
            backends.append({"p": 0, "off": d})
        if rng.random() < 0.4:
            backends.append({"p": 3 - own["p"], "off": rng.choice(OFFS)})
        owners = [own["p"]]
    elif r < 0.45:
        own = {"p": rng.choice([1, 2]), "off": ["ping"]}
        backends = [own, {"p": 0, "off": []}]
        if rng.random() < 0.4:
            backends.append({"p": 3 - own["p"], "off": rng.choice(OFFS)})
        owners = [own["p"]] + ([0] if rng.random() < 0.3 else [])
    else:
        ps = [0] + rng.sample([1, 2], rng.choice([1, 1, 2]))
        if rng.random() < 0.15:
            ps = ps[1:]
        backends = [{"p": p, "off": rng.choice(OFFS)} for p in ps]
        if rng.random() < 0.7:                      # a healthy owner next to an unhealthy backend
            own = rng.choice(backends)
            own["off"] = []
            others = [b for b in backends if b is not own]
            if others and all(not b["off"] for b in others):
                rng.choice(others)["off"] = rng.choice(["all", "all", ["ping"], ["ping", "set_lock"]])
            owners = [own["p"]] + ([rng.choice(others)["p"]] if others and rng.random() < 0.25 else [])
        else:
            owners = [b["p"] for b in rng.sample(backends, min(len(backends), rng.choice([1, 1, 2])))]
    rng.shuffle(backends)                        # registration order is not prefix order
    return backends, owners


def assign_backends(steps, rng, backends, owners, main):
    """build the lock keys of a generated program with the owners' prefixes (mostly `main`: contention)"""
    usable = [p for p in owners if next(b for b in backends if b["p"] == p)["off"] != "all"]
    for i, st in enumerate(steps):
        if st[0] == "lock":
            be = main if rng.random() < 0.8 else rng.choice(owners)
            if be:
                st[1]["be"] = be
            assign_backends(st[1]["body"], rng, backends, owners, main)
        elif st[0] == "tx":
            assign_backends(st[2], rng, backends, owners, main)
        elif st[0] in ("funlock", "probe"):
            if usable:
                steps[i] = st[:3 if st[0] == "funlock" else 2] + [rng.choice(usable)]
            else:
                steps[i] = ["point"]         # unlock / is_locked on a disabled backend answer None: not a lock matter


def _schedule(rng, ntasks):
    sched = []
    for _ in range(rng.randrange(10, 60)):
        r = rng.random()
        if r < 0.75:
            sched.append(rng.randrange(4))
        elif r < 0.96:
            sched.append("t")
        else:
            sched.append(["c", rng.randrange(ntasks)])
    return sched


def _finish_case(rng, case, gated, ntasks):
    break_cycles(case)
    if rng.random() < 0.2:
        case["mw"] = gen_mw(rng)
    if gated:
        case["schedule"] = _schedule(rng, ntasks)
    else:
        case["starts"] = [rng.choice([0, 0, 0, 1, 2, 4]) for _ in range(ntasks)]
        case["cancels"] = [[rng.randrange(ntasks), rng.randrange(0, 40)] for _ in range(rng.choice([0, 0, 0, 1]))]
        case["horizon"] = 600
    return case


def gen_multi_case(rng, i) -> dict:
    """Cache objects with 2-3 backends under different prefixes, some disabled entirely or with PING / SET_LOCK disabled;
    2-3 tasks contend for lock keys routed to one (mostly healthy) backend."""
    gated = i % 2 == 1
    ntasks = rng.choice([2, 2, 3])
    backends, owners = gen_backends(rng)
    main = owners[0]
    tasks = [gen_task(rng, 1 if rng.random() < 0.8 else 2, gated) for _ in range(ntasks)]
    for prog in tasks:
        assign_backends(prog, rng, backends, owners, main)
    case = {"mode": "gated" if gated else "timed", "cfg": FACADE_CFGS[(i // 2) % len(FACADE_CFGS)], "backends": backends,
            "tasks": tasks}
    return _finish_case(rng, case, gated, ntasks)


def _sprinkle_sets(rng, body):
    for _ in range(rng.choice([0, 1, 1, 2])):
        body.insert(rng.randrange(len(body) + 1), ["set", rng.randrange(1, 9)])


def wrap_in_transactions(rng, prog):
    """put guarded sections of a generated program INSIDE `cache.transaction(mode)` blocks (whole program / one step /
    nested blocks) or open a block inside a section body; application writes go into the block's overlay"""
    mode = rng.choice("ffls" if rng.random() < 0.5 else "fls")
    end = "e" if rng.random() < 0.15 else "n"
    r = rng.random()
    locks = [j for j, st in enumerate(prog) if st[0] == "lock"]
    if r < 0.4 or not locks:
        body = list(prog)
        _sprinkle_sets(rng, body)
        prog[:] = [["tx", mode, body, end]]
    elif r < 0.75:
        j = rng.choice(locks)
        body = [prog[j]]
        _sprinkle_sets(rng, body)
        if rng.random() < 0.2:
            body = [["tx", rng.choice("fls"), body, "n"]]          # an inner block joins the running transaction
        prog[j] = ["tx", mode, body, end]
    else:
        j = rng.choice(locks)
        inner = list(prog[j][1]["body"])
        _sprinkle_sets(rng, inner)
        prog[j][1]["body"] = [["tx", mode, inner, end]]            # the block is opened (and finished) while the lock is held


def _strip_sets(steps):
    for st in steps:
        sub = _sub(st)
        if sub is not None:
            sub[:] = [x for x in sub if x[0] != "set"]
            _strip_sets(sub)


def one_serializable_writer(case):
    """two transactions that both write in SERIALIZABLE mode wait for each other in steps of 0.1 s (not a whole number of
    ticks): only the first task that does so keeps its writes"""
    def writes_serializable(steps, mode=None):
        for st in steps:
            if st[0] == "set" and mode == "s":
                return True
            if st[0] == "tx" and writes_serializable(st[2], mode or st[1]):
                return True
            if st[0] == "lock" and writes_serializable(st[1]["body"], mode):
                return True
        return False
    seen = False
    for prog in case["tasks"]:
        if writes_serializable(prog):
            if seen:
                _strip_sets([["tx", "f", prog]])
            seen = True


def gen_tx_case(rng, i) -> dict:
    """guarded sections entered INSIDE transaction blocks of all three modes, through the facade; the other contenders are
    inside their own transaction (any mode) or outside any"""
    gated = i % 2 == 1
    ntasks = rng.choice([2, 2, 3])
    nkeys = rng.choice([1, 1, 1, 2])
    tasks = [gen_task(rng, nkeys, gated) for _ in range(ntasks)]
    wrapped = 0
    for prog in tasks:
        if rng.random() < 0.7 or (prog is tasks[-1] and not wrapped):
            wrap_in_transactions(rng, prog)
            wrapped += 1
    case = {"mode": "gated" if gated else "timed", "cfg": FACADE_CFGS[(i // 2) % len(FACADE_CFGS)], "tasks": tasks}
    if rng.random() < 0.25:
        backends, owners = gen_backends(rng)
        for prog in tasks:
            assign_backends(prog, rng, backends, owners, owners[0])
        case["backends"] = backends
    one_serializable_writer(case)
    return _finish_case(rng, case, gated, ntasks)


def tx(mode, body, end="n"):
    return ["tx", mode, body, end]


PURGE_CFGS = [c for c in CFGS if lockrun.CONFIGS[c]["purge"]]


def gen_purge_race(rng, i) -> dict:
    """Timed cases aimed at the purge tick (every 4 ticks with the purge configurations): one or two holders overstay
    short leases, so that expired lock entries lie in the store when the tick at instant `tau` starts; an *acquirer*
    starts exactly at `tau` (0-2 idle yields first: it runs right before the sweep, right after it, or - should a sweep
    ever suspend between two keys - in the middle of it) and takes one of those keys under a long lease; *observers*
    ask for the same key while the acquirer is inside (its own unlock is an observer too).  Everything else is drawn
    freely."""
    period = lockrun.CONFIGS[PURGE_CFGS[0]]["purge"]
    tau = period * rng.choice([1, 1, 2, 3])
    nkeys = rng.choice([1, 2, 2, 2])
    tasks, starts = [], []
    order = list(range(nkeys))
    rng.shuffle(order)
    for j, k in enumerate(order):                      # the overstayers, acquired in this order = store order
        ttl = rng.choice([1, 2, 2, 4])
        start = max(0, tau - rng.choice([1, 2, 3, 4, 4]))
        body = [["sleep", (tau - start) + rng.choice([1, 2, 4, 6])]]
        tasks.append([sec(k, ttl, True, body, via=rng.choice(["cm", "cm", "deco", "gen"]), end=rng.choice("nnne"))])
        starts.append(start)
    target = rng.choice(order)
    pre = [["point"]] * rng.choice([0, 0, 1, 1, 2])
    acq = sec(target, rng.choice([8, 16, None]), rng.random() < 0.6, [["sleep", rng.choice([0, 1, 2, 4])]],
              via=rng.choice(["cm", "cm", "deco", "gen"]), ci=rng.choice([0, 1]))
    tasks.append(pre + [acq])
    starts.append(tau)
    for _ in range(rng.choice([0, 1, 1, 2])):          # observers
        st = tau + rng.choice([0, 0, 1, 1, 2])
        prog = [["point"]] * rng.choice([0, 1, 2])
        if rng.random() < 0.25:
            prog.append(["probe", target])
        prog.append(sec(rng.choice([target, target, rng.choice(order)]), rng.choice(TTLS), rng.random() < 0.4,
                        [["sleep", rng.choice([0, 1, 2])]], via=rng.choice(["cm", "deco"]), ci=rng.choice([0, 1])))
        tasks.append(prog)
        starts.append(st)
    case = {"mode": "timed", "cfg": PURGE_CFGS[i % len(PURGE_CFGS)], "tasks": tasks[:4], "starts": starts[:4],
            "cancels": [], "horizon": 600}
    if rng.random() < 0.15:
        case["cancels"] = [[rng.randrange(len(case["tasks"])), tau + rng.choice([0, 1, 2, 3])]]
    break_cycles(case)
    return case


# small programs whose schedules are enumerated exhaustively under the gate scheduler
def sec(key, ttl, wait, body, via="cm", ci=0, end="n", be=0, **extra):
    d = {"via": via, "key": key, "ttl": ttl, "wait": wait, "ci": ci, "end": end, "body": body}
    if be:
        d["be"] = be
    d.update(extra)          # form= (ttl spelling), consume= / between= (consumer of a locked async generator)
    return ["lock", d]


EXHAUSTIVE = [
    ("two_waiters_cm", {"cfg": "raw", "tasks": [[sec(0, 8, True, [["point"]])], [sec(0, 8, True, [["point"]])]]}),
    ("nowait_vs_holder_facade", {"cfg": "facade", "tasks": [[sec(0, 8, True, [["point"]], via="deco")],
                                                             [sec(0, 8, False, [], via="cm")]]}),
    ("holder_and_intruder", {"cfg": "facade", "tasks": [[sec(0, 8, True, [["point"]], end="e")],
                                                         [["funlock", 0, 1], ["probe", 0], sec(0, 4, False, [])]]}),
    ("overstayer_and_waiter", {"cfg": "raw", "tasks": [[sec(0, 2, True, [["sleep", 4]])],
                                                        [sec(0, 8, True, [["point"]], ci=1, via="gen")]]}),
    ("two_keys_crossed", {"cfg": "facade", "tasks": [[sec(0, 8, True, [sec(1, 8, False, [])])],
                                                      [sec(1, 8, True, [sec(0, 8, False, [])])]]}),
    ("fast_tx_vs_fast_tx", {"cfg": "facade", "tasks": [[tx("f", [sec(0, 8, True, [["point"]])])],
                                                        [tx("f", [["set", 1], sec(0, 8, False, [], via="deco")])]]}),
    ("locked_tx_vs_no_tx", {"cfg": "facade", "tasks": [[tx("l", [["set", 1], sec(0, 8, True, [["point"]], via="deco")])],
                                                        [sec(0, 8, True, [["point"]])]]}),
    ("serializable_tx_opened_inside_section", {"cfg": "facade", "tasks": [[sec(0, 8, True, [tx("s", [["set", 1], ["point"]], "e")])],
                                                                            [tx("f", [sec(0, 8, False, [])])]]}),
    ("other_backend_disabled_waiter", {"cfg": "facade", "backends": [{"p": 1, "off": "all"}, {"p": 0, "off": []}],
                                       "tasks": [[sec(0, 8, True, [["point"]])], [sec(0, 8, True, [], via="gen")]]}),
    ("other_backend_disabled_nowait", {"cfg": "facade", "backends": [{"p": 1, "off": "all"}, {"p": 0, "off": []}],
                                       "tasks": [[sec(0, 8, True, [["point"]], via="deco")], [sec(0, 8, False, [])]]}),
    ("prefixed_owner_third_backend_without_ping", {"cfg": "facade", "backends": [{"p": 0, "off": []}, {"p": 2, "off": ["ping"]},
                                                                                    {"p": 1, "off": []}],
                                                   "tasks": [[sec(0, 8, True, [["point"]], be=1, via="deco")],
                                                             [sec(0, 8, True, [["point"]], be=1)]]}),
    ("memory_limit_window_excludes_the_token", {"cfg": "facade", "mw": [["memory_limit", 256, None], ["add_prefix"]],
                                                "tasks": [[sec(0, 8, True, [["point"]])], [sec(0, 8, False, [], via="deco")]]}),
    ("generator_consumer_stops_early", {"cfg": "facade", "tasks": [[sec(0, 8, True, [["point"], ["point"]], via="gen",
                                                                        consume=["aclose", 1], form="td")],
                                                                   [sec(0, 8, True, [], ci=1)]]}),
    ("body_raises_the_librarys_own_exception", {"cfg": "facade", "tasks": [
        [sec(0, 16, True, [["point"]], end="x:CacheBackendInteractionError"), sec(0, 16, True, [], via="deco", end="x:LockedError")],
        [sec(0, 16, True, [], ci=1, via="gen", end="x:NotConfiguredError")]]}),
    ("callable_ttl_short_call_then_long_call", {"cfg": "facade", "tasks": [
        [sec(1, 2, True, [], via="deco", form="cb"), sec(0, 40, True, [["sleep", 4], ["point"]], via="deco", form="cb")],
        [sec(0, 8, True, [], via="deco", form="cb", ci=1)]]}),
    ("three_tasks_one_key", {"cfg": "raw", "tasks": [[sec(0, 4, True, [])], [sec(0, 4, True, [])], [sec(0, 4, False, [])]]}),
]
NQUICK = 15      # the first NQUICK programs are enumerated in the quick tier as well


def enumerate_all(case: dict, limit: int):
    """every schedule of a gated case (stateless DFS): re-run with a prefix of choices, default choices
    afterwards, then branch on every later choice point to the parked tasks that were not chosen"""
    stack = [[]]
    seen = 0
    while stack and seen < limit:
        prefix = stack.pop()
        c = dict(case, mode="gated", schedule=list(prefix), skip_pointless=True)
        an = run_impl(c)
        seen += 1
        yield c, an
        br = an.info["branching"]
        full = an.info["choices"]
        if len(br) != len(full) or full[:len(prefix)] != [p % b for p, b in zip(prefix, br)]:
            raise HarnessError("schedule enumeration: a run did not follow its own prefix")
        for i in range(len(br) - 1, len(prefix) - 1, -1):
            for alt in range(br[i]):
                if alt != full[i]:
                    stack.append(list(full[:i]) + [alt])


def cancel_sweep(prog: dict, rng, nbase: int):
    """cancellation at every suspension point: along the default schedule and `nbase` random complete
    schedules of `prog`, deliver a cancel to each task at each position (exhaustive over position x task)"""
    bases = [[]]
    for _ in range(nbase):
        bases.append([rng.randrange(3) for _ in range(12)])
    seen = set()
    for base in bases:
        c0 = dict(prog, mode="gated", schedule=list(base), skip_pointless=True)
        an0 = run_impl(c0)
        full = an0.info["choices"]
        for pos in range(len(full) + 1):
            for t in range(len(prog["tasks"])):
                sched = list(full[:pos]) + [["c", t]] + list(full[pos:])
                key = json.dumps(sched)
                if key in seen:
                    continue
                seen.add(key)
                c = dict(prog, mode="gated", schedule=sched, skip_pointless=True)
                yield c, run_impl(c)


# ------------------------------------------------------------------------------------------------------
# reporting
# ------------------------------------------------------------------------------------------------------

def still_fails(case, want):
    """same kind and same signature of finding"""
    try:
        an, answers = run_case(case)
    except HarnessError:
        return False
    v = verdict(an, answers)
    return v is not None and v[:2] == want


def _sub(st):
    """the nested step list of a step (section body / transaction body), or None"""
    if st[0] == "lock":
        return st[1].get("body", [])
    if st[0] == "tx":
        return st[2]
    return None


def _set_sub(st, new):
    if st[0] == "lock":
        st[1]["body"] = new
    else:
        st[2] = new


def _step_lists(case: dict):
    """paths to every step list of a case: task programs, section bodies and transaction bodies at any depth"""
    def walk(steps, path):
        yield path
        for i, st in enumerate(steps):
            sub = _sub(st)
            if sub is not None:
                yield from walk(sub, path + [i])
    for ti, prog in enumerate(case["tasks"]):
        yield from walk(prog, [ti])


def _get_list(case, path):
    steps = case["tasks"][path[0]]
    for i in path[1:]:
        steps = _sub(steps[i])
        if steps is None:
            raise KeyError(path)
    return steps


def _with_list(case, path, new):
    c = json.loads(json.dumps(case))
    if len(path) == 1:
        c["tasks"][path[0]] = new
    else:
        steps = c["tasks"][path[0]]
        for i in path[1:-1]:
            steps = _sub(steps[i])
        _set_sub(steps[path[-1]], new)
    return c


def has_tx(case) -> bool:
    return any(st[0] in ("tx", "set") for path in _step_lists(case) for st in _get_list(case, path))


def _unwrap_tx(case, path, i):
    """the case with the transaction step at position i of the list at `path` replaced by its body"""
    steps = list(_get_list(case, path))
    return _with_list(case, path, steps[:i] + list(steps[i][2]) + steps[i + 1:])


def shrink(case: dict, want: tuple) -> dict:
    """remove tasks, steps (at any nesting depth), cancels and schedule entries, and simplify the configuration,
    while the same finding (kind, signature) remains"""
    cur = json.loads(json.dumps(case))
    for _ in range(3):
        before = canonical(cur)
        for path in list(_step_lists(cur)):
            try:
                steps = _get_list(cur, path)
            except (IndexError, KeyError, TypeError):
                continue            # an enclosing list was shrunk in the meantime
            if not steps:
                continue
            if still_fails(_with_list(cur, path, []), want):
                cur = _with_list(cur, path, [])
            elif len(steps) > 1:
                small = ddmin(steps, lambda s, path=path: still_fails(_with_list(cur, path, s), want))
                cur = _with_list(cur, path, small)
        for path in list(_step_lists(cur)):        # a transaction block that is not needed: keep its body, drop the block
            try:
                steps = _get_list(cur, path)
            except (IndexError, KeyError, TypeError):
                continue
            for i in range(len(steps) - 1, -1, -1):
                if steps[i][0] == "tx":
                    trial = _unwrap_tx(cur, path, i)
                    if still_fails(trial, want):
                        cur = trial
                        steps = _get_list(cur, path)
        if cur.get("backends"):
            used = {st[1].get("be", 0) for pth in _step_lists(cur) for st in _get_list(cur, pth) if st[0] == "lock"}
            for b in list(cur["backends"]):
                if b["p"] not in used and len(cur["backends"]) > 1:
                    trial = dict(cur, backends=[x for x in cur["backends"] if x is not b])
                    if still_fails(trial, want):
                        cur = trial
            for b in list(cur["backends"]):
                if b.get("off"):
                    trial = dict(cur, backends=[dict(x, off=[]) if x is b else x for x in cur["backends"]])
                    if still_fails(trial, want):
                        cur = trial
            if cur["backends"] == [{"p": 0, "off": []}]:
                trial = {k: v for k, v in cur.items() if k != "backends"}
                if still_fails(trial, want):
                    cur = trial
        if cur.get("mw"):
            for m in list(cur["mw"]):
                trial = dict(cur, mw=[x for x in cur["mw"] if x is not m])
                if not trial["mw"]:
                    del trial["mw"]
                if still_fails(trial, want):
                    cur = trial
        for path in list(_step_lists(cur)):        # plain ttl spelling, draining consumers, wherever the finding survives
            try:
                steps = _get_list(cur, path)
            except (IndexError, KeyError, TypeError):
                continue
            for i, st in enumerate(steps):
                if st[0] != "lock":
                    continue
                for field in ("between", "consume", "form"):
                    if field in st[1]:
                        new_steps = json.loads(json.dumps(steps))
                        del new_steps[i][1][field]
                        trial = _with_list(cur, path, new_steps)
                        if still_fails(trial, want):
                            cur = trial
                            steps = _get_list(cur, path)
        if cur.get("cancels"):
            for c in list(cur["cancels"]):
                trial = dict(cur, cancels=[x for x in cur["cancels"] if x != c])
                if still_fails(trial, want):
                    cur = trial
        if cur.get("schedule"):
            if still_fails(dict(cur, schedule=[]), want):
                cur = dict(cur, schedule=[])
            elif len(cur["schedule"]) > 1:
                cur = dict(cur, schedule=ddmin(cur["schedule"], lambda s: still_fails(dict(cur, schedule=s), want)))
        if cur["cfg"] != "raw" and "backends" not in cur and not cur.get("mw") and not has_tx(cur) and still_fails(dict(cur, cfg="raw"), want):
            cur = dict(cur, cfg="raw")
        if canonical(cur) == before:
            break
    return cur


def show_trace(an: Analysis, answers) -> list[dict]:
    out = [{"line": l, "impl": o, "impl_holders": h, "driver": a}
           for (l, o), h, a in zip(an.lines, an.impl_in, answers[1:])]
    for i, did in an.notes.items():
        if i < len(out):
            out[i]["purge_task_did"] = did
    return out


def report(chk: Check, case: dict, origin: str, v):
    kind, sig, what = v
    small = shrink(case, (kind, sig))
    an, answers = run_case(small)
    v2 = verdict(an, answers) or v
    # determinism: the shrunk case must give the same verdict twice
    an3, answers3 = run_case(small)
    v3 = verdict(an3, answers3)
    if v3 is None or v3[:2] != v2[:2]:
        raise HarnessError(f"non-deterministic replay of a disagreeing case ({v2[:2]} vs {v3 and v3[:2]})")
    replay = {
        "case": small,
        "origin": origin,
        "finding": {"kind": v2[0], "signature": v2[1], "what": v2[2]},
        "all_problems": an.problems[:10],
        "trace": show_trace(an, answers)[:200],
        "replay_cmd": "./check C06 --replay <this file>",
    }
    if v2[0] == "property":
        chk.violation(f"lock property violated ({v2[1]}): {v2[2]} [config {small['cfg']}, {small['mode']} run]",
                      replay, signature=v2[1])
    else:
        chk.violation(f"correspondence broken: real lock code differs from Model/Lock.lean ({v2[1]}): {v2[2]}; "
                      "no property violation was observed on this case",
                      dict(replay, broken="correspondence Model/Lock.lean <-> cashews/backends/interface.py lock(), "
                                          "memory.py set/unlock/is_locked, decorators/locked.py"),
                      signature=None, no_input=True)


def corpus_cases():
    d = ROOT / "corpus" / PROP
    for f in sorted(d.glob("*.json")):
        c = json.loads(f.read_text())
        yield f.name, c["case"]


def canonical(case: dict) -> str:
    return json.dumps(case, sort_keys=True)


def run(chk: Check) -> int:
    proof = proof_stage(PROP, "driver_c06", chk.thorough) if not getattr(chk, "skip_proof", False) else None
    n = chk.budget(2300, 20000)
    enum_limit = chk.budget(400, 6000)
    found = 0
    found_property = False
    evaluations = 0
    distinct = set()
    tag_cases: dict[str, int] = {}
    hist: dict[str, int] = {}
    modes: dict[str, int] = {}
    samples = []
    exhaustive = {}
    deadlocks = 0

    def account(case, an):
        nonlocal evaluations, deadlocks
        evaluations += 1
        if an.skipped == "deadlock":
            deadlocks += 1
        for l, _ in an.lines:
            w = l.split()[0]
            hist[w] = hist.get(w, 0) + 1
        for t in an.tags:
            tag_cases[t] = tag_cases.get(t, 0) + 1
        key = case["mode"] + "/" + case["cfg"]
        modes[key] = modes.get(key, 0) + 1
        if an.tags & INTERESTING:
            distinct.add(canonical(case))
        if len(samples) < 3 and an.tags & INTERESTING and len(an.lines) <= 16:
            samples.append({"case": case, "trace": [f"{l} -> {o}" for l, o in an.lines]})

    def consider(case, an, answers, origin) -> bool:
        nonlocal found, found_property
        v = verdict(an, answers)
        if v is None:
            return False
        found += 1
        found_property = found_property or v[0] == "property"
        report(chk, case, origin, v)
        return True

    pending: list[tuple] = []

    def flush():
        if not pending:
            return
        for (case, an, origin), answers in zip(pending, ask_model([p[1] for p in pending])):
            if found < 3:
                consider(case, an, answers, origin)
        pending.clear()

    def submit(case, an, origin):
        account(case, an)
        pending.append((case, an, origin))
        if len(pending) >= BATCH:
            flush()

    ncorpus = 0
    for name, case in corpus_cases():
        ncorpus += 1
        submit(case, run_impl(case), "corpus:" + name)
    flush()
    # exhaustive schedule enumeration of the small programs
    for name, prog in (EXHAUSTIVE if chk.thorough else EXHAUSTIVE[:NQUICK]):
        if found >= 3:
            break
        count = 0
        for case, an in enumerate_all(prog, enum_limit):
            count += 1
            submit(case, an, f"exhaustive:{name}")
            if found >= 3:
                break
        exhaustive[name] = {"schedules": count, "complete": count < enum_limit and found < 3}
    flush()
    # cancellation at every suspension point of the small programs
    sweep = 0
    for name, prog in EXHAUSTIVE[:NQUICK]:
        if found >= 3:
            break
        for case, an in cancel_sweep(prog, chk.rng, chk.budget(1, 6)):
            sweep += 1
            submit(case, an, f"cancel-sweep:{name}")
            if found >= 3:
                break
    flush()
    for i in range(n):
        if found >= 3:
            break
        case = gen_case(chk.rng, i)
        submit(case, run_impl(case), f"gen:{i}")
    flush()
    ntx = chk.budget(400, 2500)
    for i in range(ntx):
        if found >= 3:
            break
        case = gen_tx_case(chk.rng, i)
        submit(case, run_impl(case), f"tx:{i}")
    flush()
    nmulti = chk.budget(400, 2500)
    for i in range(nmulti):
        if found >= 3:
            break
        case = gen_multi_case(chk.rng, i)
        submit(case, run_impl(case), f"multi-backend:{i}")
    flush()
    nrace = chk.budget(400, 5000)
    for i in range(nrace):
        if found >= 3:
            break
        case = gen_purge_race(chk.rng, i)
        submit(case, run_impl(case), f"purge-race:{i}")
    flush()
    if proof is not None:
        chk.proof_broken(proof, found_property)
    chk.coverage.update({
        "evaluations": evaluations,
        "traces_validated_against_impl": evaluations,
        "distinct_nontrivial": len(distinct),
        "rule": "a case = 2-4 scripted tasks (sections via Cache.lock / @cache.locked coroutine / @cache.locked async "
                "generator / Memory.lock / decorators.locked(backend); ttl in {2,4,8,16 ticks, none}; wait in {True,False}; "
                "check_interval in {0, 1 tick}; nested sections; foreign unlocks; is_locked probes; cancellations) run either "
                "timed on the virtual loop or under the gate scheduler with a generated schedule, round-robin over "
                + ",".join(CFGS) + "; non-trivial iff the run reached at least one interesting state ("
                + ", ".join(sorted(INTERESTING)) + "); distinct = distinct case descriptions",
        "samples": samples,
        "corpus_cases": ncorpus,
        "exhaustive": all(v["complete"] for v in exhaustive.values()) and bool(exhaustive),
        "exhaustive_subspaces": exhaustive,
        "exhaustive_rule": "all command-level schedules of each named small program under the gate scheduler (a retry "
                           "that cannot succeed is not a choice; time passes only when no task has a useful move); "
                           "cancel_sweep_runs = one cancellation at every position x task of complete schedules of them",
        "cancel_sweep_runs": sweep,
        "transaction_cases": ntx,
        "transaction_rule": "gen_tx_case: generated programs whose guarded sections are entered INSIDE cache.transaction(mode) blocks "
                            "(FAST / LOCKED / SERIALIZABLE; whole program, one section, nested blocks, a block opened inside a section "
                            "body; commit and rollback; application writes into the overlay) while the other tasks are inside their own "
                            "transaction or outside any; timed and gated; a quarter of them on several backends",
        "multi_backend_cases": nmulti,
        "multi_backend_rule": "gen_multi_case: Cache with 1-3 backends under the prefixes '', 'p:', 'q:' (registration order shuffled), each "
                              "healthy / disabled entirely / PING disabled / SET_LOCK disabled / both; lock keys built with the prefix of "
                              "one (mostly healthy) owner and contended by 2-3 tasks; the model is told every backend's health and reads "
                              "the attempt's inputs off the backend that owns the key"
                              "; a share of the draws has a healthy owner under a prefix with the default-prefix backend absent / "
                              "disabled / without PING, and the reverse (D43: the probe goes to the owner of the key, not of the text 'LOCK')",
        "purge_race_cases": nrace,
        "purge_race_rule": "timed cases on the purge configurations built around one purge tick: overstaying holders leave "
                           "expired lock entries in the store, an acquirer starts at the very instant of the tick (0-2 idle "
                           "yields first), observers ask for the same key while it is inside (gen_purge_race)",
        "deadlock_cases_skipped": deadlocks,
        "deadlock_rule": "a run that does not terminate because every task inside a section waits for a key held, under a "
                         "lease that never lapses, by another such task is a deadlock of the generated PROGRAM (not forbidden "
                         "by C06): not judged for termination; the generator gives one holder of every possible crossing a finite lease",
        "op_histogram": hist,
        "runs_per_mode_and_config": modes,
        "interesting_states_cases": tag_cases,
        "trusted_base": TRUSTED,
        "partial": PARTIAL,
    })
    chk.assumptions.extend(TRUSTED)
    return chk.finish(proof)


INTERESTING = {
    "lock_command_at_the_instant_of_a_sweep_after_it", "sweep_at_the_instant_of_a_lock_command_after_it",
    "holder_overstays_ttl", "two_bodies_overlap_one_past_lease", "acquired_over_expired_unpurged_entry",
    "late_unlock_answers_false", "late_unlock_leaves_next_holder_alone", "foreign_unlock_on_held_lock",
    "exit_cancelled", "exit_exception", "cancelled_while_waiting",
    "lock_taken_inside_transaction", "contended_attempt_inside_transaction", "contended_attempt_while_holder_inside_transaction",
    "transaction_opened_inside_section", "contended_attempt_with_another_backend_unhealthy",
    "unguarded_entry_set_lock_disabled", "unguarded_entry_owner_does_not_answer_probe", "two_bodies_overlap_no_locking",
    "contended_attempt_healthy_prefixed_owner_default_backend_absent_or_silent",
    "contended_attempt_prefixed_owner_silent_default_backend_healthy",
    "exit_generator_closed_by_consumer", "ttl_timedelta_with_fraction_of_a_second",
    "exit_library_exception", "exit_other_exception_kind", "cache_lock_true_section",
    "successive_calls_of_one_function_with_different_callable_ttls",
    "contended_attempt_behind_memory_limit_excluding_the_token",
}


def replay(chk: Check, path: str) -> int:
    c = json.loads(Path(path).read_text())
    case = c["case"]
    an, answers = run_case(case)
    for (l, o), h, a in zip(an.lines, an.impl_in, answers[1:]):
        print(f"{l:24s} impl={o:3s} holders={h:20s} {a}")
    for p in an.problems:
        print(f"  {p['kind']}: {p['what']}")
    v = verdict(an, answers)
    if v is None:
        print("replay: no disagreement, property holds on this case")
        return 0
    print(f"VIOLATION property={PROP} replay={path}")
    print(f"  ({v[0]}: {v[2]})")
    return 1
