"""C12 - delete_tags removes every live key carrying the tag, whatever the write order.

proof: lean/CashewsVerif/Props/C12.lean (invariant "a live key whose latest write carried t is a member of the
       live set _tag:t whose deadline is not earlier than the key's", completeness and precision of delete_tags).
tie:   generated histories of tagged / untagged set, incr, decorated calls (the simple @cache, also of functions that mutate
       their list / dict arguments in place, and every other decorator that takes tags=: early with foreground and
       background recalculation, soft, hit, dynamic - reaching their RE-WRITES of a live entry), delete, delete_many, delete_match (glob patterns, wildcard-free patterns naming one
       key, patterns matching nothing), time advance and delete_tags run on the real `Cache` facade (mem://, tag sets in the same or in a separate
       backend, purge task on/off) under the virtual clock and on the model driver; compared line by line
       (impl == model), and the property statement itself is evaluated on the implementation's observations from
       the harness's own log of "latest write carried tag" (spec oracle).
"""
from __future__ import annotations

import json
import os
from pathlib import Path

from .. import taghist, tagtx
from ..core import ROOT, Check, Driver, HarnessError, ddmin, proof_stage

PROP = "C12"
DRIVER = Driver("driver_c12", "Drivers/C12.lean")
CFGS = ["shared", "separate", "shared_secret", "shared_purge", "separate_purge", "split", "split_tags"]
EXH_CFGS = ["separate", "shared", "split_tags", "split"]
# the layout strat stores [datetime, result] (early / soft): not with the pickling serializer of shared_secret (the virtual
# clock replaces datetime.datetime, which pickle cannot look up)
STRAT_CFGS = ["shared", "separate", "split", "split_tags", "shared_purge", "separate_purge"]
OPT_LAYOUTS = ["strat+upper", "strat+lock", "strat+unprot", "strat+tc", "strat+upper+tc", "strat+upper+lock", "strat+upper+unprot+tc"]
LAYOUTS = ["plain", "templ", "decor", "mut"]
BIGS = [100, 101, 150, 200, 201, 230]

TRUSTED = [
    "Lean 4.33.0 kernel; axioms of every theorem audited to be within {propext, Classical.choice, Quot.sound}",
    "hand-written model lean/CashewsVerif/Model/Tags.lean of cashews/wrapper/tags.py + Memory.set_add/set_remove/set_pop/_delete, tied to the code by this run's history correspondence",
    "the model works on the TTL map (C01) and has no capacity: the property's hypothesis 'store within capacity' is built in (runs use size=100000)",
    "tag registry abstracted in the main theorems as the function key -> tags; its template/regex layer (cashews/formatter.py template_to_re_pattern, TagsRegistry.get_key_tags) is modelled relationally in Model/TagTemplates.lean (theorems registry_recovers_fields, registry_tag_is_writers_tag) and compared with the harness's own field substitution on every universe key of every case and on a sweep of random well-separated templates; that Python's re returns *a* match of the modelled relation is trusted",
    "harness: virtual clock (harness/vtime.py), canonicalisation, purge-sweep splicing, raw peeks into Memory.store used only by the oracle and the statistics (harness/taghist.py)",
    "the decorators early / soft / hit / dynamic are modelled as programs over the wrapper commands (Model/Tags.lean earlyCall, softCall, hitCall: which commands the "
    "decorator issues, decided from the model state - early / soft deadline stored next to the value, hit counter); that asyncio.gather runs the in-memory commands of hit "
    "in the order listed, and that calls are sequential (background recalculations are awaited before the next command), is part of the tie; the harness's own log takes "
    "'the decorator wrote the key with this call's tags' from 'the body ran'",
    "wrapping options (upper=True, lock=True, protected=False, time_condition=): which results the decorator's condition accepts is the harness's own reading of "
    "cashews/wrapper/decorators.py (harness/taghist.py _run_of) handed to the model as Run; whether a body's result was stored is compared through the probes that follow, not at the call",
    "decorator calls: the body is a harness function returning a fresh token (and, in the layout mut, applying a scripted in-place mutation to its list / dict argument); the tags expected of the entry are rendered by the harness from a private copy of the arguments before the call (harness/taghist.py render / fmt: lists joined by ':', dicts as sorted key:value pairs); thunder protection is on (default) but calls are sequential",
]

TRIVIAL_STATES = ("decorator_hit", "unregistered_tag_used(not judged)", "purge_sweeps_spliced", "foreign_tags_of_lock_keys(not judged)",
                  "hit_counter_tagged_incr")

_layouts: dict[str, taghist.Layout] = {}


def layout(name: str) -> taghist.Layout:
    if name not in _layouts:
        _layouts[name] = taghist.make_layout(name)
    return _layouts[name]


def model_lines(lay: taghist.Layout, eff, batch: int):
    return [f"case {batch} {len(lay.keys)} {lay.reg_field()}"] + [l for l, _ in eff]


def compare(run: taghist.Runner, answers):
    """(first index where impl differs from model, first oracle failure or None, ghost mismatch or None)"""
    d_model = None
    ghost = None
    sets = {at: (die, stay) for at, die, stay in run.oracle_sets}
    for i, ((line, out), ans) in enumerate(zip(run.eff, answers[1:])):
        if line.startswith("?") or not ans.startswith("model="):
            if d_model is None:
                d_model = i
            continue
        parts = dict(p.split("=", 1) for p in ans.split(" "))
        if d_model is None and out != parts["model"] and not (out.startswith("vs=") and parts["model"].startswith("vs=")):
            # (`vs=` on both sides: the body of a decorated call ran; whether its result was stored shows in later probes)
            d_model = i
        if i in sets and run.registered and ghost is None and d_model is None:
            die = ",".join(map(str, sets[i][0]))
            stay = ",".join(map(str, sets[i][1]))
            if parts.get("die") != die or parts.get("stay") != stay:
                ghost = i
    d_spec = run.oracle_failures[0] if run.oracle_failures else None
    return d_model, d_spec, ghost


_batch = None


def batch() -> int:
    global _batch
    if _batch is None:
        _batch = taghist.batch_literal()
    return _batch


def run_case(cfg, layname, ops):
    lay = layout(layname)
    r = taghist.execute(cfg, lay, ops)
    answers = DRIVER.ask(model_lines(lay, r.eff, batch()))
    return r, answers


def run_cases(batch_cases):
    """run several cases on the implementation, then ask the driver once for all of them"""
    runs = []
    lines = []
    spans = []
    for cfg, layname, ops in batch_cases:
        lay = layout(layname)
        r = taghist.execute(cfg, lay, ops)
        ml = model_lines(lay, r.eff, batch())
        spans.append((len(lines), len(lines) + len(ml)))
        lines.extend(ml)
        runs.append(r)
    answers = DRIVER.ask(lines) if lines else []
    return [(r, answers[a:b]) for r, (a, b) in zip(runs, spans)]


def exhaustive_cases(maxlen: int):
    """every history of 1..maxlen commands over a small alphabet (2 keys, 1 tag, TTL none/short/long, tagged set and
    incr, delete, time beyond the short TTL), each followed by delete_tags and a probe of both keys"""
    alphabet = ["set 0 t:1 - a 0", "set 0 t:1 8 a 0", "set 0 t:1 800 a 0", "set 1 t:2 - a 0", "set 1 t:2 8 a 0", "set 1 t:2 800 a 0",
                "incr 0 1 8 0", "incr 1 1 800 0", "set 0 i:3 - a -", "delete 1", "adv 16", "deltags 0"]
    tail = ["deltags 0", "get 0", "get 1"]
    out = []

    def rec(prefix, depth):
        if prefix:
            out.append(list(prefix) + tail)
        if depth == 0:
            return
        for a in alphabet:
            prefix.append(a)
            rec(prefix, depth - 1)
            prefix.pop()

    rec([], maxlen)
    return out, len(alphabet)


def exhaustive_removal_cases(maxlen: int):
    """second enumerated sub-space, on the removal paths: every history of 1..maxlen commands over tagged / untagged
    writes of two keys and every way of explicitly removing them - delete, delete_many, delete_match with a
    wildcard-free pattern (exact key), with a glob matching both keys, with patterns matching nothing - each followed
    by delete_tags and a probe of both keys"""
    lay = layout("plain")
    alphabet = ["set 0 t:1 - a 0", "set 0 t:1 8 a 0", "set 0 t:2 - a -", "set 1 t:1 - a 0+1", "delete 0", "delmany 1 0",
                f"delmatch {lay.exact_of[0]}", f"delmatch {lay.exact_of[1]}", "delmatch 0", f"delmatch {lay.nomatch[1]}",
                "adv 16", "deltags 1"]
    tail = ["deltags 0", "get 0", "get 1"]
    out = []

    def rec(prefix, depth):
        if prefix:
            out.append(list(prefix) + tail)
        if depth == 0:
            return
        for a in alphabet:
            prefix.append(a)
            rec(prefix, depth - 1)
            prefix.pop()

    rec([], maxlen)
    return out, len(alphabet)


def registry_sweep(rng, n: int):
    """the template layer on its own (theorems registry_recovers_fields / registry_tag_is_writers_tag): random
    well-separated key templates rendered with separator-free values - the tag the real TagsRegistry derives
    from the key must be the tag the writer renders from the same values.  Returns (checked, mismatches,
    ambiguous_tried, ambiguous_differs): the last two sample values that *do* contain a separator (hypothesis
    violated; counted, not judged)."""
    from cashews.wrapper.tags import TagsRegistry

    lits = ["k:", "u:", ":p:", ":", "-", "/x/", ":v", "_"]
    fields = ["a", "b", "c"]
    vals = ["1", "22", "ab", "Z", "7q", "0", "x\ny", "\nq"]     # line breaks are text like any other (formatter: re.DOTALL)
    bad_vals = ["1:2", "a-b", "x_y", ":", "p:"]
    checked, mism, amb, ambdiff = 0, [], 0, 0
    for i in range(n):
        nf = rng.randint(1, 3)
        fs = rng.sample(fields, nf)
        key_tpl = rng.choice(lits)
        for j, f in enumerate(fs):
            key_tpl += "{" + f + "}"
            if j < nf - 1 or rng.random() < 0.4:
                key_tpl += rng.choice(lits)
        tag_fs = rng.sample(fs, rng.randint(0, nf))
        tag_tpl = "tg" + "".join(rng.choice([":", "-", ""]) + "{" + f + "}" for f in tag_fs)
        ambiguous = i % 5 == 4
        values = {f: rng.choice(vals) for f in fs}
        if ambiguous:
            values[rng.choice(fs)] = rng.choice(bad_vals)
        reg = TagsRegistry()
        reg.register_tag(tag_tpl, key_tpl)
        key = key_tpl.format(**values)
        want = [tag_tpl.format(**values)]
        try:
            got = list(reg.get_key_tags(key))
        except Exception as exc:  # noqa: BLE001
            got = [f"X:{type(exc).__name__}"]
        if ambiguous:
            amb += 1
            ambdiff += got != want
        else:
            checked += 1
            if got != want:
                mism.append({"key_template": key_tpl, "tag_template": tag_tpl, "values": values, "key": key, "registry": got, "writer": want})
    return checked, mism, amb, ambdiff


def fails(cfg, layname, ops, want_spec: bool) -> bool:
    try:
        r, answers = run_case(cfg, layname, ops)
    except HarnessError:
        return False
    dm, ds, gh = compare(r, answers)
    if want_spec:
        return ds is not None
    return dm is not None or ds is not None or gh is not None


def signature(r: taghist.Runner, ds) -> str:
    """structural signature of a property failure (used only to match known findings)"""
    if ds is None:
        return "?"
    st = r.stats
    if r.lay.name == "nl" and ds["clause"] == "precise" and "\n" in ds["key_name"]:
        return "C12:registry-regex-skips-keys-with-line-breaks"
    if ds["clause"] == "complete":
        if st.get("tagged_incr_not_creating"):
            return "incr-tag-ttl"
        if st.get("shorter_member_after_longer") or st.get("ttl_less_member_after_finite"):
            return "tag-set-ttl-of-latest-add"
        if st.get("decorator_rewrites_live_entry"):
            return "complete-after-decorator-rewrite"
        return "complete"
    return "precise"


def report(chk: Check, cfg, layname, ops, origin):
    r0, a0 = run_case(cfg, layname, ops)
    _, ds0, _ = compare(r0, a0)
    want_spec = ds0 is not None
    budget = [600 if len(ops) <= 60 else 250]   # shrinking effort is bounded (big:N histories are expensive to re-run)

    def still_fails(o):
        if budget[0] <= 0:
            return False
        budget[0] -= 1
        return fails(cfg, layname, o, want_spec)

    small = ddmin(ops, still_fails)
    r, answers = run_case(cfg, layname, small)
    # determinism: a reported case must reproduce
    r2, answers2 = run_case(cfg, layname, small)
    if [o for _, o in r.eff] != [o for _, o in r2.eff]:
        raise HarnessError("a failing case did not reproduce identically on re-run")
    dm, ds, gh = compare(r, answers)
    lay = layout(layname)
    replay = {
        "config": cfg,
        "layout": layname,
        "ops": small,
        "keys": [k for k, _, _ in lay.keys],
        "tags": lay.tags,
        "trace": [{"line": l, "impl": o, "driver": a} for (l, o), a in zip(r.eff, answers[1:])],
        "first_diff_vs_model": dm,
        "oracle_failures": r.oracle_failures,
        "origin": origin,
        "replay_cmd": "./check C12 --replay <this file>",
    }
    if ds is not None:
        chk.violation(
            f"delete_tags contradicts the property ({ds['clause']}): {ds['what']} (config {cfg}, layout {layname}, "
            f"history of {len(small)} commands)", replay, signature=signature(r, ds))
    elif dm is not None:
        chk.violation(
            f"correspondence broken: implementation differs from the Tags model at step {dm} `{r.eff[dm][0]}` -> impl "
            f"{r.eff[dm][1]}, {answers[dm + 1]}; the property oracle holds on this case",
            dict(replay, broken="correspondence Tags model <-> cashews/wrapper/tags.py, cashews/backends/memory.py (set_add/set_remove/set_pop/_delete), cashews/formatter.py"),
            signature="C12:registry-regex-skips-keys-with-line-breaks" if r.eff[dm][0].startswith("?keytags") and "\\n" in r.eff[dm][1] else None,
            no_input=True)
    else:
        chk.violation(
            f"harness log and model ghost state disagree on which keys delete_tags must remove / spare at step {gh}",
            dict(replay, broken="coherence of the Python oracle with the ghost fields of Model/Tags.lean"),
            signature=None, no_input=True)


def corpus_cases():
    d = ROOT / "corpus" / PROP
    for f in sorted(d.glob("*.json")):
        c = json.loads(f.read_text())
        if "stage" in c:
            continue
        yield f.name, c["config"], c["layout"], c["ops"]


def tx_corpus_cases():
    d = ROOT / "corpus" / PROP
    for f in sorted(d.glob("*.json")):
        c = json.loads(f.read_text())
        if c.get("stage") == "tx":
            yield f.name, c["ops"]


def tx_stage(chk: Check, rng, n: int, found: int):
    """transactions x tags (harness/tagtx.py): oracle-judged histories with a block in one of the three modes"""
    cases = [("corpus:" + name, ops) for name, ops in tx_corpus_cases()]
    if os.environ.get("VERIF_SKIP_CORPUS"):
        cases = []
    ncorpus = len(cases)
    cases += [(f"tx:{i}", tagtx.gen_case(rng)) for i in range(n)]
    stats: dict[str, int] = {}
    distinct = set()
    for origin, ops in cases:
        r = tagtx.execute(ops)
        for k, v in r.stats.items():
            stats[k] = stats.get(k, 0) + v
        if r.stats.get("delete_tags_judged_with_carriers") and r.stats.get("tagged_write_in_block"):
            distinct.add(tuple(ops))
        if r.failures and found < 3:
            found += 1
            clause = r.failures[0]["clause"]
            budget = [400]

            def still(o):
                if budget[0] <= 0:
                    return False
                budget[0] -= 1
                rr = tagtx.execute(o)
                return any(f["clause"] == clause for f in rr.failures)

            small = ddmin(ops, still)
            rr = tagtx.execute(small)
            if not rr.failures:
                raise HarnessError("a failing transaction case did not reproduce after shrinking")
            chk.violation(
                f"delete_tags contradicts the property ({clause}) after a committed transaction: {rr.failures[0]['what']} (transaction stage, history of {len(small)} commands)",
                {"stage": "tx", "ops": small, "keys": tagtx.KEYS, "tags": tagtx.TAGS, "trace": rr.trace, "oracle_failures": rr.failures, "origin": origin,
                 "replay_cmd": "./check C12 --replay <this file>"},
                signature=None if clause == "exception" else f"{clause}-after-committed-transaction", no_input=(clause == "exception"))
    return found, {"cases": len(cases), "corpus_cases": ncorpus, "distinct_judged_with_tagged_write_in_block": len(distinct), "states": stats}


def run(chk: Check) -> int:
    proof = proof_stage(PROP, "driver_c12", chk.thorough) if not getattr(chk, "skip_proof", False) else None
    n = chk.budget(3500, 60000)
    nbig = chk.budget(18, 180)
    nunreg = chk.budget(60, 1200)
    rng = chk.rng
    cases = [("corpus:" + name, cfg, lay, ops) for name, cfg, lay, ops in corpus_cases()]
    if os.environ.get("VERIF_SKIP_CORPUS"):   # development only: does the generated stream find it on its own?
        cases = []
    ncorpus = len(cases)
    for i in range(n):
        cfg = CFGS[i % len(CFGS)]
        lay = LAYOUTS[(i // len(CFGS)) % len(LAYOUTS)]
        maxlen = 30 if i % 3 else 10
        cases.append((f"gen:{i}", cfg, lay, taghist.gen_history(rng, layout(lay), maxlen)))
    for i in range(nbig):
        lay = f"big:{BIGS[i % len(BIGS)]}"
        cases.append((f"big:{i}", ["shared", "separate", "split"][i % 3], lay, taghist.gen_big(rng, layout(lay))))
    for i in range(nunreg):
        cases.append((f"unreg:{i}", CFGS[i % 2], "unreg", taghist.gen_history(rng, layout("unreg"), 16, registered_only=False)))

    nrec = chk.budget(900, 12000)
    for i in range(nrec):
        lay = LAYOUTS[i % len(LAYOUTS)]
        cases.append((f"recreate:{i}", CFGS[(i // len(LAYOUTS)) % len(CFGS)], lay, taghist.gen_recreate(rng, layout(lay))))
    nmut = chk.budget(500, 8000)
    for i in range(nmut):
        cases.append((f"mutcall:{i}", CFGS[i % len(CFGS)], "mut", taghist.gen_mutcall(rng, layout("mut"))))

    nstrat = chk.budget(260, 3000)
    for i in range(nstrat):
        cases.append((f"strat:{i}", STRAT_CFGS[i % len(STRAT_CFGS)], "strat", taghist.gen_strat_history(rng, layout("strat"), 30 if i % 3 else 12)))
    nrefresh = chk.budget(520, 6000)
    for i in range(nrefresh):
        cases.append((f"refresh:{i}", STRAT_CFGS[i % len(STRAT_CFGS)], "strat", taghist.gen_refresh(rng, layout("strat"))))
    # the same functions under the options that change the wrapping path (upper=True, lock=True, protected=False, time_condition=)
    nopts = chk.budget(420, 4000)
    for i in range(nopts):
        lay = OPT_LAYOUTS[i % len(OPT_LAYOUTS)]
        cfgs = STRAT_CFGS[:4] if "tc" in lay else STRAT_CFGS      # bodies that take time: purge task off
        cfg = cfgs[(i // len(OPT_LAYOUTS)) % len(cfgs)]
        gen = taghist.gen_refresh if i % 3 else (lambda rng, l: taghist.gen_strat_history(rng, l, 24))
        cases.append((f"opts:{i}", cfg, lay, gen(rng, layout(lay))))
    exh3_len = chk.budget(4, 5)
    exh3, nalpha3 = taghist.exhaustive_refresh_cases(layout("strat"), exh3_len)
    for i, ops in enumerate(exh3):
        cases.append((f"exh3:{i}", EXH_CFGS[i % 4], "strat", ops))

    nnl = chk.budget(150, 2000)
    for i in range(nnl):
        gen = taghist.gen_recreate if i % 2 else (lambda rng, l: taghist.gen_history(rng, l, 20))
        cases.append((f"newline:{i}", CFGS[i % len(CFGS)], "nl", gen(rng, layout("nl"))))

    nlate = chk.budget(300, 5000)
    for i in range(nlate):
        cases.append((f"latereg:{i}", CFGS[i % len(CFGS)], "late", taghist.gen_latereg(rng, layout("late"))))

    exh_len = chk.budget(3, 4)
    exh, nalpha = exhaustive_cases(exh_len)
    for i, ops in enumerate(exh):
        cases.append((f"exh:{i}", EXH_CFGS[i % 4], "plain", ops))
    exh2_len = chk.budget(3, 4)
    exh2, nalpha2 = exhaustive_removal_cases(exh2_len)
    for i, ops in enumerate(exh2):
        cases.append((f"exh2:{i}", EXH_CFGS[i % 4], "plain", ops))

    found = 0
    evaluations = 0
    distinct = set()
    hist: dict[str, int] = {}
    interesting: dict[str, int] = {}
    by_layout: dict[str, int] = {}
    by_cfg: dict[str, int] = {}
    by_stream: dict[str, int] = {}
    by_option: dict[str, int] = {}
    samples = []
    notes = 0
    sampled: dict[str, int] = {}
    deltags_checked = 0
    CHUNK = 150
    for c0 in range(0, len(cases), CHUNK):
        chunk = cases[c0:c0 + CHUNK]
        results = run_cases([(cfg, lay, ops) for _, cfg, lay, ops in chunk])
        for (origin, cfg, lay, ops), (r, answers) in zip(chunk, results):
            evaluations += 1
            lname = "exhaustive" if origin.startswith("exh") else lay.split(":")[0].split("+")[0]
            if "+" in lay:
                for o in lay.split("+")[1:]:
                    by_option[o] = by_option.get(o, 0) + 1
            if origin.startswith("exh3"):
                lname = "exhaustive_strat"
            stream = origin.split(":")[0]
            by_stream[stream] = by_stream.get(stream, 0) + 1
            by_layout[lname] = by_layout.get(lname, 0) + 1
            by_cfg[cfg] = by_cfg.get(cfg, 0) + 1
            for l, _ in r.eff:
                w = l.split()
                name = w[0]
                if name in ("set", "incr"):
                    name += "_tagged" if w[-1] != "-" else "_plain"
                hist[name] = hist.get(name, 0) + 1
            deltags_checked += len(r.oracle_sets)
            for k in r.stats:
                interesting[k] = interesting.get(k, 0) + 1
            notes += len(r.notes)
            nontrivial = [k for k in r.stats if k not in TRIVIAL_STATES and not k.endswith("_served_from_cache")]
            if nontrivial and r.oracle_sets:
                distinct.add((cfg, lay, tuple(ops)))
            want = None
            if nontrivial and r.oracle_sets and len(ops) <= 14:
                if origin.startswith("gen:") and sampled.get("gen", 0) < 3:
                    want = "gen"
                elif origin.startswith("recreate:") and "deltags_spares_key_recreated_after_delete_match_exact" in r.stats and not sampled.get("rec"):
                    want = "rec"
                elif origin.startswith("mutcall:") and "decorator_body_mutated_argument_of_tag_template" in r.stats and not sampled.get("mut"):
                    want = "mut"
            if nontrivial and r.oracle_sets and origin.startswith("refresh:") and sampled.get("refresh", 0) < 2 \
                    and "deltags_tag_set_outlived_its_deadline_before_the_rewrite" in r.stats and len(ops) <= 40:
                want = "refresh"
            if want:
                sampled[want] = sampled.get(want, 0) + 1
                samples.append({"config": cfg, "layout": lay, "ops": ops, "impl": [o for _, o in r.eff], "states": sorted(r.stats)})
            dm, ds, gh = compare(r, answers)
            if dm is not None or ds is not None or gh is not None:
                found += 1
                report(chk, cfg, lay, ops, origin)
                if found >= 3:
                    break
        if found >= 3:
            break
    reg_checked, reg_mism, reg_amb, reg_ambdiff = registry_sweep(rng, chk.budget(400, 8000))
    if reg_mism and found < 3:
        found += 1
        chk.violation(
            f"correspondence broken (registry layer): get_key_tags derives {reg_mism[0]['registry']} from key {reg_mism[0]['key']!r} of template "
            f"{reg_mism[0]['key_template']!r}, the writer's tag is {reg_mism[0]['writer']} (separator-free values, well separated template)",
            {"mismatches": reg_mism[:5], "broken": "correspondence TagTemplates model <-> cashews/formatter.py template_to_re_pattern / TagsRegistry.get_key_tags"},
            signature="C12:registry-regex-skips-keys-with-line-breaks" if all(any("\n" in v for v in m["values"].values()) for m in reg_mism) else None,
            no_input=True)
    probe = taghist.prefix_middleware_probe()
    if probe is not None:
        found += 1
        chk.violation("delete_tags contradicts the property (complete) through the key-prefix middleware: a key written with a tag is still readable after "
                      f"delete_tags ({probe['observed']}; set_add and set_pop address different tag sets)", probe, signature="C12:add-prefix-middleware-renames-set-add-key")
    found, tx_cov = tx_stage(chk, rng, chk.budget(600, 12000), found)
    dprobe = taghist.disabled_incr_probe()
    if dprobe is not None:
        found += 1
        chk.violation("delete_tags contradicts the property (precise): a key that never carried the tag - the tagged incr was issued while INCR was disabled and "
                      f"wrote nothing - is deleted by delete_tags (get -> {dprobe['observed']})", dprobe, signature="D73:disabled-incr-files-membership")
    nprobe = taghist.negative_cache_probe()
    if nprobe is not None:
        found += 1
        chk.violation("delete_tags contradicts the property (complete): a failure stored by a decorator declaring the tag (negative caching: the condition "
                      f"returned the exception) is still served after delete_tags ({nprobe['observed']})", nprobe, signature="C12:negative-cache-entry-untagged")
    if interesting.get("SET_GONE_WHILE_MEMBER_ALIVE") and not found:
        raise HarnessError("a tag set was gone while a carrier was alive, yet no violation was derived - oracle bug")
    if proof is not None:
        chk.proof_broken(proof, found > 0)
    chk.coverage.update({
        "evaluations": evaluations,
        "distinct_nontrivial": len(distinct),
        "rule": "histories of 2..30 commands (plus the probes after each delete_tags) over the layouts plain (4 keys, 3 plain tags), "
                "templ (6 keys, templated tags user:{user}/page:{page} + plain), decor (6 keys, tags attached by @cache(tags=...) and register_tag), "
                "mut (7 keys r:{cols} / q:{opts} of decorated functions with a list / dict argument in key and tag templates; in about half of "
                "the calls the body mutates the argument in place: append, sort, reverse, pop, insert, setdefault, pop key, clear, update), "
                "strat (26 keys: one key family per decorator that takes tags= - early with foreground and with background recalculation, soft, "
                "hit twice, dynamic, the simple @cache - with their lock / counter keys, plus a directly written family; per-argument tag tg:{x} shared by "
                "the families and a plain tag; ttl and early_ttl vary per call), "
                "big:N (N in 100..230 members under one tag, batching) and the malformed stream unreg (unregistered tag, not judged); delete_match "
                "draws from glob patterns, wildcard-free patterns naming one key exactly and patterns matching nothing; directed streams: "
                "strat (random histories of repeated decorated calls of a few functions, time, direct writes, every kind of deletion, delete_tags + probes), "
                "opts (the layout strat with its functions decorated under the options that change the wrapping path: " + ", ".join(OPT_LAYOUTS) + " - upper=True, "
                "lock=True, protected=False, time_condition=1s with bodies taking 0 / 1 / 1.125 / 2 s; histories from the strat and refresh generators and "
                "directed simple-decorator cases), newline (layout nl: keys and tags containing line breaks, random and recreate histories), "
                "latereg (layout late: register_tag calls as history events - a family of keys is used before its tag is registered, then reg, tagged write, "
                "explicit removal, untagged re-creation, delete_tags), "
                "refresh (a decorated call, time up to the window in which the decorator RE-WRITES the live entry - early: past early_ttl, soft: past soft_ttl, "
                "hit / dynamic: update_after hits or more than cache_hits -, one to three re-writes with the same or another ttl, then time to around the "
                "ORIGINAL deadline and the re-write's deadline, delete_tags of a tag of the call, probes and a further call; companions under the same tag "
                "sometimes present), "
                "recreate (tagged write, one explicit removal path - delete / delete_many / delete_match exact / delete_match glob / delete_tags of "
                "another carried tag -, re-creation without the tag, delete_tags, with noise) and mutcall (decorated calls with mutating bodies and "
                "controls, delete_tags of a tag rendered from the call-time arguments, probes and a further call); generated from "
                "VERIF_SEED, round-robin over configurations " + ",".join(CFGS) + " (split / split_tags: the keys under one prefix of the layout live in a second, prefix-routed data backend)" + "; a case is non-trivial iff it contains a delete_tags and reached "
                "at least one interesting state listed in interesting_states_cases (other than a decorator hit); distinct = distinct (config, layout, op list)",
        "samples": samples,
        "corpus_cases": ncorpus,
        "exhaustive": True,
        "exhaustive_subspace": f"all {len(exh)} histories of 1..{exh_len} commands over a {nalpha}-command alphabet (2 keys, 1 tag, tagged set with TTL none/1s/100s, "
                               "tagged incr, untagged overwrite, delete, 2s advance, delete_tags), each followed by delete_tags and a probe of both keys; "
                               f"and all {len(exh2)} histories of 1..{exh2_len} commands over a {nalpha2}-command alphabet of removal paths (tagged / untagged set of 2 keys, "
                               "delete, delete_many, delete_match with the exact name of either key, with a glob matching both, with a pattern matching nothing, "
                               "2s advance, delete_tags of a second tag), same tail; "
                               f"and all {len(exh3)} histories of 1..{exh3_len} commands over a {nalpha3}-command alphabet of decorator re-writes (a call of an early function with "
                               "foreground recalculation, ttl 3s / early_ttl 1s; a call of a soft function, ttl 3s / soft_ttl 1s, same argument; advances of 1.125s and 2s; "
                               "a short-lived direct write under the same tag), each followed by delete_tags of the "
                               "per-argument tag and probes; the generated histories of the other layouts are sampled, not exhaustive",
        "cases_by_stream": by_stream,
        "cases_by_wrapping_option": by_option,
        "transaction_stage(oracle-judged)": tx_cov,
        "observed_not_judged": taghist.not_judged_probes(),
        "disabled_incr_probe": "a tagged incr that is disabled files no membership" if dprobe is None else dprobe,
        "negative_cache_probe": "failures stored by @cache / @early / @hit (condition returns the exception) are removed by delete_tags" if nprobe is None else nprobe,
        "prefix_middleware_probe": "delete_tags finds the members through add_prefix" if probe is None else probe,
        "delete_tags_commands_judged": deltags_checked,
        "op_histogram": hist,
        "cases_by_layout": by_layout,
        "cases_by_config": by_cfg,
        "interesting_states_cases": interesting,
        "unregistered_tag_notes(D21, not judged)": notes,
        "batch_literal_read_from_source": batch(),
        "registry_layer_sweep": {"well_separated_templates_checked": reg_checked, "mismatches": len(reg_mism),
                                 "values_with_separator_tried(not judged)": reg_amb, "of_which_registry_tag_differs": reg_ambdiff},
        "trusted_base": TRUSTED,
        "partial": "not sampled: more than 30 commands or 7 keys per history (except the layouts big:N and strat), non-dyadic TTLs, tag values containing ':' in a "
                   "key template with more than one field (the registry's greedy regex may then derive a different tag than the writer used; the list / dict "
                   "arguments of the layout mut are the only field of their key template), decorated functions mutating attributes of object arguments or "
                   "called concurrently; decorated calls running concurrently with each other or with delete_tags (early's lock contention, thunder protection), decorated "
                   "bodies that raise or whose result the condition rejects (no write), soft's fallback to the stale entry, early_ttl / soft_ttl defaults (0.33 ttl: "
                   "not dyadic), values stored by early / soft through the pickling serializer (configuration shared_secret is not used with the layout strat), "
                   "which value a re-writing call returns (not compared); failover and iterator take no tags=; expire()/set_many on tagged keys (outside the "
                   "property's alphabet), Redis/diskcache set_add (not installed here; their set TTL still follows the latest add - known finding recorded by the coordinator)",
    })
    chk.assumptions.extend(TRUSTED)
    return chk.finish(proof)


def replay(chk: Check, path: str) -> int:
    c = json.loads(Path(path).read_text())
    if "config" not in c and "ops" in c and "observed" in c and c.get("stage") != "tx":
        # a real-code probe (no model history): run all three again
        res = {"negative_cache_probe": taghist.negative_cache_probe(), "disabled_incr_probe": taghist.disabled_incr_probe(),
               "prefix_middleware_probe": taghist.prefix_middleware_probe()}
        print(json.dumps(res, default=str)[:1200])
        if not any(v is not None for v in res.values()):
            print("replay: no disagreement")
            return 0
        print(f"VIOLATION property={PROP} replay={path}")
        return 1
    if c.get("stage") == "tx":
        r = tagtx.execute(c["ops"])
        print("\n".join(r.trace))
        for f in r.failures:
            print("oracle:", f["clause"], f["what"])
        if not r.failures:
            print("replay: no disagreement")
            return 0
        print(f"VIOLATION property={PROP} replay={path}")
        return 1
    r, answers = run_case(c["config"], c["layout"], c["ops"])
    dm, ds, gh = compare(r, answers)
    for (l, o), a in zip(r.eff, answers[1:]):
        print(f"{l:44s} impl={o:12s} {a}")
    for f in r.oracle_failures:
        print("oracle:", f["clause"], f["what"])
    if dm is None and ds is None and gh is None:
        print("replay: no disagreement")
        return 0
    print(f"VIOLATION property={PROP} replay={path}")
    return 1
