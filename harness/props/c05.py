"""C05 - concurrent transactions commit exactly their own writes; no lost increments.

Body commands: set, incr, get, delete, and the other read-modify-writes of the transaction backend: expire (buffers the backend's
current value and writes it back at commit) and set(exist=True|False) (decides on the key's presence); explicit `tx.commit()` /
`tx.rollback()` on the Transaction object in the middle of a body (the body goes on: a body is a sequence of segments).
Multi-key writes `cache.set_many` / `cache.delete_many` inside a transaction (`setm` / `delm`; = sequences of single-key writes: locks key by
key through `_get_lock_key`, in serializable mode the global lock also when they are the first write).
Nested blocks (`nin` .. `nout`), also inner blocks that are LEFT BY AN EXCEPTION WHICH THE ENCLOSING BODY CATCHES (`nin` .. `nfail`): nested
blocks are flat, the failure of an inner block does not mark the transaction.  Block forms: context manager on an object of its own
("ctx"), a call of one decorated function shared by all tasks ("dec"), context manager on ONE context object shared by all tasks
("obj": `T = cache.transaction(m)`, `async with T:` in several tasks at once - defect D51, signature D51:shared-transaction-context-object).
Block endings: the body returns, raises an exception object of one of four kinds (an Exception / a BaseException that is not an
Exception, each with truthy instances - like every built-in exception - or with FALSY instances: a class defining `__len__` /
`__bool__`, e.g. an error collection raised while empty), gets LockedError, or the
task is CANCELLED while suspended inside the body (scheduler entries `cancel`, at every gate of a body: before a backend command,
while waiting for a lock, in a sleep).

proof: lean/CashewsVerif/Props/C05.lean (invariants of the TxSched transition system over all schedules).
tie:   2-4 real tasks run on one Cache('mem://') whose Memory is gated by a deterministic scheduler
       (harness/txsched.py): every outermost backend command is one schedule step.  The recorded schedule
       (`run tid` / `adv u`) is replayed on the Lean model; compared per step: which backend command the task
       issued (name, keys, committed values), the store and the live lock table afterwards, the virtual instant,
       and at the end what each caller got.  Independently the four statements of the property are evaluated
       directly on the implementation's trace (the spec oracle below, which knows nothing of the model).
"""
from __future__ import annotations

import json
from pathlib import Path

from .. import txsched
from ..core import ROOT, Check, Driver, HarnessError, ddmin, proof_stage

PROP = "C05"
DRIVER = Driver("driver_c05", "Drivers/C05.lean")
NKEYS = 4

TRUSTED = [
    "Lean 4.33.0 kernel; axioms of every theorem audited to be within {propext, Classical.choice, Quot.sound}",
    "hand-written model lean/CashewsVerif/Model/TxSched.lean of cashews/wrapper/transaction.py + cashews/backends/transaction.py, "
    "tied to the code by this run's schedule correspondence (labels, store, locks, instants, outcomes at every step)",
    "asyncio assumptions A1 (no preemption between suspension points) and A3 (ContextVar is per task) - exercised on the real loop, not proved; "
    "task.cancel() raises CancelledError at the await the task is suspended at (the gate future, or asyncio.sleep)",
    "harness: gate scheduler and 1/40 s timer grid (harness/txsched.py), virtual clock (harness/vtime.py); the gathered unlocks of one "
    "transaction are released in lock-key order",
    "values are integers; TTLs are not modelled (C03/C04 cover the overlay's value/TTL semantics): `expire` is given TTLs of 1-2 h, "
    "far beyond any run, and is compared as what it does to values (buffer the backend's current value under the key's lock); the "
    "set_many commands of one commit (one per TTL group, issued back to back) are scheduled and compared as one step",
]


# ---- canonical forms ----------------------------------------------------------------------------------

def lock_name(s: str) -> str:
    if s == ":serializable:lock":
        return "g"
    if s.startswith(":tx_lock:k"):
        return "k" + s[len(":tx_lock:k"):]
    return "?" + s


def kidx(s) -> str:
    s = str(s)
    return s[1:] if s.startswith("k") and s[1:].isdigit() else "?" + s


def canon_label(label) -> str:
    name = label[0]
    if name == "start":
        return "start"
    if name in ("set_lock", "unlock"):
        return f"{name}:{lock_name(label[1])}"
    if name == "set_many":
        items = sorted((int(kidx(k)), v) for k, v in label[1])
        return "set_many:" + "+".join(f"{k}={v}" for k, v in items)
    if name == "delete_many":
        return "delete_many:" + "+".join(str(k) for k in sorted(int(kidx(k)) for k in label[1]))
    return f"{name}:{kidx(label[1])}"


def canon_world(data, locks, now) -> str:
    st = ",".join(f"{k}={v}" for k, v in sorted(data.items()))

    def lk_order(n):
        return (0, 0) if n == "g" else (1, int(n[1:]) if n[1:].isdigit() else 99)
    ls = ",".join(f"{n}@{o}" for n, o in sorted(((lock_name(k), o) for k, o in locks.items()), key=lambda x: lk_order(x[0])))
    return f"store={st} locks={ls} now={now}"


# the four kinds of exception objects a body raises: op suffix -> (class name in harness/txsched.py, canonical outcome, in words)
RAISE_KINDS = {
    "": ("BodyError", "raise:body", "raised an Exception"),
    "base": ("BodyBase", "raise:base", "raised a BaseException that is not an Exception"),
    "falsy": ("BodyFalsy", "raise:falsy", "raised an Exception whose truth value is False (its class defines __len__, it was raised empty)"),
    "falsybase": ("BodyFalsyBase", "raise:falsybase",
                  "raised a BaseException that is not an Exception and whose truth value is False (its class defines __bool__)"),
}


def raise_kind(op) -> str:
    k = op[1] if len(op) > 1 else ""
    if k not in RAISE_KINDS:
        raise HarnessError(f"bad op {op}")
    return k


def canon_outcome(out) -> str:
    if out[0] == "returned":
        return "ret:" + ",".join("n" if r is None else str(r) for r in out[1])
    if out[0] == "raised":
        return {"LockedError": "raise:locked", **{c: o for c, o, _ in RAISE_KINDS.values()}}.get(out[1], "raise:" + out[1])
    return out[0]


def op_word(op) -> str:
    if op[0] == "expire":
        return f"expire:{op[1]}"          # the model has no TTLs
    if op[0] == "setm":
        return "setm:" + "+".join(f"{k}={v}" for k, v in op[1])
    if op[0] == "delm":
        return "delm:" + "+".join(str(k) for k in op[1])
    return ":".join(str(x) for x in op)


def case_lines(case, trace):
    lines = [f"case {NKEYS}"]
    for k, v in sorted((int(k), v) for k, v in case["init"].items()):
        lines.append(f"init {k} {v}")
    for p in case["programs"]:
        lines.append(" ".join(["task", p["kind"], p.get("mode", "fast"), str(p.get("timeout", 0)), p.get("form", "ctx")]
                              + [op_word(op) for op in p["ops"] if op[0] != "gc"]))
    for e in trace:
        lines.append(f"run {e[1]}" if e[0] == "run" else f"cancel {e[1]}" if e[0] == "cancel" else f"adv {e[1]}")
    lines.append("end")
    return lines


def expand(ops):
    """the multi-key writes as the sequences of single-key writes they are (Model/TxSched.lean Cmd.setMany / Cmd.deleteMany)"""
    out = []
    for op in ops:
        if op[0] == "setm":
            out += [["set", k, v] for k, v in op[1]]
        elif op[0] == "delm":
            out += [["del", k] for k in op[1]]
        else:
            out.append(op)
    return out


def handles_ok(ops, form) -> bool:
    """every commit / rollback op has a `Transaction` object at hand: the block itself or an enclosing nested block is in
    context-manager form (`async with cache.transaction(...) as tx`)"""
    stack = [form]
    for op in ops:
        if op[0] == "nin":
            stack.append(op[1])
        elif op[0] in ("nout", "nfail"):
            if len(stack) > 1:
                stack.pop()
        elif op[0] in ("commit", "rollback") and "ctx" not in stack and "obj" not in stack:
            return False
    return True


# ---- the spec oracle: the property statement evaluated on the implementation's own trace ---------------

def attempts(timeout_u: int) -> int:
    return (timeout_u + 3) // 4


def spec_body(ops, reads, retimed=None, conditional=None, read_kinds=None):
    """sequential meaning of a transaction body, given what its backend reads returned.  A body is a sequence of segments
    separated by its explicit commits / rollbacks.  -> dict(kind = ok | raise (then exc = which kind of exception object) | incomplete, ov, dl = write-set of the
    segment open at the end, res = results, commits = [(dl, ov, incs)] one per explicit commit passed, in order,
    incs = increments [(k, n)] of the open segment)
    (`retimed` / `conditional`, statistics only: collect the keys whose buffered value came from the backend read of an
    `expire` / that a conditional `set` wrote; `read_kinds`: for each backend read consumed, (command, key))"""
    ov, dl, res = {}, set(), []
    commits, incs = [], []
    src = iter(reads)

    class _It:
        def __next__(self):
            v = next(src)
            if read_kinds is not None:
                read_kinds.append((op[0], op[1]))
            return v
    it = _It()

    def out(kind, exc=None):
        return {"kind": kind, "exc": exc, "ov": ov, "dl": dl, "res": res, "commits": commits, "incs": incs}
    try:
        for op in ops:
            if op[0] == "set":
                ov[op[1]] = op[2]
                dl.discard(op[1])
            elif op[0] == "incr":
                k = op[1]
                if k in ov:
                    ov[k] += op[2]
                elif k in dl:
                    dl.discard(k)
                    ov[k] = op[2]
                else:
                    cur = next(it)
                    ov[k] = (cur or 0) + op[2]
                res.append(ov[k])
                incs.append((k, op[2]))
            elif op[0] == "get":
                k = op[1]
                res.append(None if k in dl else ov[k] if k in ov else next(it))
            elif op[0] == "del":
                ov.pop(op[1], None)
                dl.add(op[1])
            elif op[0] == "setx":
                # set only if present (op[3] = 1) / only if absent: presence is the buffer's, else the deletion mark's, else the backend's
                k = op[1]
                present = True if k in ov else False if k in dl else next(it) is not None
                if present == bool(op[3]):
                    ov[k] = op[2]
                    dl.discard(k)
                    res.append(1)
                    if conditional is not None:
                        conditional.add(k)
                else:
                    res.append(0)
            elif op[0] == "expire":
                # re-time the key: nothing to do for a deleted or already buffered key; else the backend's current value
                # (if there is one) is buffered, to be written back with the new TTL
                k = op[1]
                if k not in dl and k not in ov:
                    cur = next(it)
                    if cur is not None:
                        ov[k] = cur
                        if retimed is not None:
                            retimed.add(k)
            elif op[0] == "commit":
                commits.append((dl, ov, incs))
                ov, dl, incs = {}, set(), []
            elif op[0] == "rollback":
                ov, dl, incs = {}, set(), []
            elif op[0] == "raise":
                return out("raise", raise_kind(op))
    except StopIteration:
        return out("incomplete")
    return out("ok")


def commit_labels(dl, ov):
    """the backend commands of the commit of a write-set, as canonical labels with their expected effect"""
    out = []
    if dl:
        out.append(("delete_many:" + "+".join(map(str, sorted(dl))), "del", set(dl)))
    if ov:
        out.append(("set_many:" + "+".join(f"{k}={v}" for k, v in sorted(ov.items())), "set", dict(ov)))
    return out


def oracle(case, res):
    """-> (list of (statement, message), stats dict).  Uses only the programs, the observed per-step labels,
    store/lock snapshots, instants and outcomes."""
    multi = {i for i, p in enumerate(case["programs"]) if any(op[0] in ("setm", "delm") for op in p["ops"])}
    progs = [dict(p, ops=expand(p["ops"])) for p in case["programs"]]
    bad = []
    stats = {}
    before = {int(k): v for k, v in case["init"].items()}
    steps = {i: [] for i in range(len(progs))}      # tid -> [(label, before, after, locks, now, global index)]
    gi = 0
    si = 0
    cancelled_at = {}                               # tid -> global index of the step at which it was cancelled
    for e in res["trace"]:
        if e[0] not in ("run", "cancel"):
            continue
        data, locks, now = res["snaps"][si]
        si += 1
        if e[0] == "cancel":
            cancelled_at.setdefault(e[1], gi)
            if data != before:
                bad.append(("own_writes_only", f"cancelling task {e[1]} changed the store from {before} to {data}"))
            steps[e[1]].append(("cancel", before, data, locks, now, gi))
        else:
            steps[e[1]].append((canon_label(e[2]), before, data, locks, now, gi))
        gi += 1
        before = data
    outs = {i: canon_outcome(res["outcomes"].get(i, ("unfinished",))) for i in range(len(progs))}
    within = {}
    rmw_reads = {}
    durable = {}                                    # tid -> the increments its commits made durable (None: own_writes_only already failed)
    for tid, p in enumerate(progs):
        st = steps[tid]
        flat = [op for op in p["ops"] if op[0] not in ("nin", "nout", "nfail", "sleep", "gc") and not (p["kind"] == "plain" and op[0] in ("commit", "rollback"))]
        diffs = [(lab, {k: a.get(k) for k in set(b) | set(a) if a.get(k) != b.get(k)}) for lab, b, a, _, _, _ in st]
        if p["kind"] == "plain" and tid in cancelled_at:
            # a task outside any transaction that was cancelled: what it did before went straight to the store; nothing afterwards
            labs = [x[0] for x in st]
            if outs[tid] != "cancelled" or labs[-1] != "cancel":
                bad.append(("ctx_isolation", f"task {tid} (outside any transaction) was cancelled but went on: {labs}, outcome {outs[tid]}"))
            stats["plain_task_cancelled"] = 1
            continue
        if p["kind"] == "plain":
            # ctx_isolation: every command of a task outside any transaction goes straight to the store
            exp_labels, exp_res = ["start"], []
            ok = True
            j = 1
            for op in flat:
                if op[0] == "raise":
                    break
                name = {"set": "set", "incr": "incr", "get": "get", "del": "delete", "expire": "expire", "setx": "set"}[op[0]]
                exp_labels.append(f"{name}:{op[1]}")
                if j < len(st):
                    lab, b, a, _, _, _ = st[j]
                    k = op[1]
                    want = dict(b)
                    if op[0] == "set":
                        want[k] = op[2]
                    elif op[0] == "incr":
                        want[k] = (b.get(k) or 0) + op[2]
                        exp_res.append(want[k])
                    elif op[0] == "get":
                        exp_res.append(b.get(k))
                    elif op[0] == "expire":
                        pass                      # no value changes
                    elif op[0] == "setx":
                        hit = (k in b) == bool(op[3])
                        if hit:
                            want[k] = op[2]
                        exp_res.append(1 if hit else 0)
                    else:
                        want.pop(k, None)
                    if a != want:
                        ok = False
                j += 1
            got = [s[0] for s in st]
            raised = next((op for op in flat if op[0] == "raise"), None)
            exp_out = RAISE_KINDS[raise_kind(raised)][1] if raised else canon_outcome(("returned", exp_res))
            if got != exp_labels or not ok or outs[tid] != exp_out:
                bad.append(("ctx_isolation", f"task {tid} is outside any transaction but its commands {got} / effects / outcome {outs[tid]} "
                                             f"are not the direct ones {exp_labels} / {exp_out}"))
            continue
        # ---- a transactional task
        reads = [b.get(int(lab.split(":")[1])) for lab, b, _, _, _, _ in st if lab.startswith(("get:", "exists:"))]
        labels = [s[0] for s in st]
        # LockedError is the body's own outcome (raised by the cache command inside it) exactly when the lock wait ran out:
        # the task's last commands before its unlocks are attempts(timeout) failed set_lock on one lock
        body_steps = [s for s in st if not s[0].startswith("unlock:")]
        tail = 0
        for lab, _, _, locks, _, _ in reversed(body_steps):
            name = lab.split(":", 1)[1] if lab.startswith("set_lock:") else None
            if name is None or lab != body_steps[-1][0]:
                break
            full = ":serializable:lock" if name == "g" else ":tx_lock:" + name
            if locks.get(full) == tid:
                break
            tail += 1
        locked_out = tail > 0 and tail == attempts(p["timeout"])
        retimed, conditional, read_kinds = set(), set(), []
        sp = spec_body(flat, reads, retimed, conditional, read_kinds)
        kind = sp["kind"]
        rmw_reads[tid] = read_kinds
        if any(lab.startswith("exists:") for lab in labels):
            stats["conditional_set_reads_backend"] = 1
        if retimed:
            stats["expire_buffers_backend_value"] = 1
            fails0 = sum(1 for a, b in zip(labels, labels[1:]) if a.startswith("set_lock:") and b == a)
            if fails0 and p["mode"] != "fast":
                stats["expire_in_tx_with_lock_wait"] = 1
        if tid in cancelled_at:
            kind = "cancelled"
        elif locked_out:
            kind = "locked"
            stats["locked_error"] = 1
        elif kind == "incomplete":
            bad.append(("own_writes_only", f"task {tid}: its backend reads do not match its body - a read-through incr/get of a key it had not "
                                           f"written never reached the store, or the body did not run to its end (commands {labels}, caller got {outs[tid]})"))
            continue
        # what the task's steps may do to the store: the commits of the segments its body committed explicitly, in order, and -
        # iff the body returned - the commit of the last segment.  Nothing else, whatever ended the block.
        groups = [commit_labels(dl, ov) for dl, ov, _ in sp["commits"]]
        seg_incs = [incs for _, _, incs in sp["commits"]]
        if kind == "ok":
            groups.append(commit_labels(sp["dl"], sp["ov"]))
            seg_incs.append(sp["incs"])
        got = [(lab, b, a, g) for lab, b, a, _, _, g in st if lab.startswith(("set_many:", "delete_many:"))]
        got_labels = [x[0] for x in got]
        foreign = [lab for lab, d in diffs if d and not (lab.startswith("set_many:") or lab.startswith("delete_many:"))]
        if kind in ("ok", "raise"):
            ngroups = len(groups)           # the body ran to its end / to its raise: every one of these commits, no other
            match = got_labels == [x[0] for grp in groups for x in grp]
        else:
            # interrupted (LockedError, cancellation): the commits of the first m explicitly committed segments, for some m
            ngroups = next((m for m in range(len(groups) + 1) if got_labels == [x[0] for grp in groups[:m] for x in grp]), None)
            match = ngroups is not None
        eff_ok = True
        if match:
            for (lab, b, a, _), (_, what, payload) in zip(got, [x for grp in groups[:ngroups] for x in grp]):
                want = {k: v for k, v in b.items() if k not in payload} if what == "del" else {**b, **payload}
                eff_ok &= a == want
        durable[tid] = [inc for incs in seg_incs[:ngroups or 0] for inc in incs] if match else None
        want_out = {"ok": canon_outcome(("returned", sp["res"])), "raise": RAISE_KINDS[sp["exc"] or ""][1],
                    "locked": "raise:locked", "cancelled": "cancelled"}[kind]
        how = {"ok": "finished normally", "raise": RAISE_KINDS[sp["exc"] or ""][2],
               "locked": "got LockedError", "cancelled": "was cancelled while suspended inside the block"}[kind]
        if outs[tid] != want_out:
            bad.append(("own_writes_only", f"task {tid}: body {how}" + (f" with results {sp['res']}" if kind == "ok" else "") +
                                           f" but the caller got {outs[tid]}"))
        elif not match or foreign or not eff_ok:
            exp = [[x[0] for x in grp] for grp in groups]
            bad.append(("own_writes_only", f"task {tid}: body {how}; its explicit commits" + (" and its final commit" if kind == "ok" else "") +
                                           f" are {exp}" + ("" if kind in ("ok", "raise") else " (a prefix of them may have happened)") +
                                           f" but its steps issued {got_labels} (store changes at {[lab for lab, d in diffs if d]})"))
        if kind == "cancelled":
            c = cancelled_at[tid]
            late = [lab for lab, _, _, _, _, g in st if g > c and not lab.startswith("unlock:")]
            if late:
                bad.append(("own_writes_only", f"task {tid} was cancelled at step {c} inside its block but afterwards still issued {late} "
                                               f"(only the unlocks of its rollback may follow)"))
            held_then = [k for k, o in st[[x[5] for x in st].index(c)][3].items() if o == tid]
            stats["cancelled_inside_block"] = 1
            if any(not x[0].startswith("unlock:") and x[0] not in ("start", "cancel") and not x[0].startswith(("set_lock:", "get:", "exists:"))
                   for x in st) or sp["ov"] or sp["dl"]:
                stats["cancelled_with_buffered_writes"] = 1
            if held_then:
                stats["cancelled_holding_locks"] = 1
            prev = [x[0] for x in st if x[5] < c]
            if prev and prev[-1].startswith("set_lock:") and not held_then or (len(prev) >= 2 and prev[-1] == prev[-2] and prev[-1].startswith("set_lock:")):
                stats["cancelled_while_waiting_for_a_lock"] = 1
            if any(k for k, o in res.get("final_locks", {}).items() if o == tid):
                bad.append(("own_writes_only", f"task {tid} was cancelled but still owns {sorted(res['final_locks'])} at the end"))
        if kind == "raise" and sp["exc"] in ("base", "falsybase"):
            stats["base_exception_leaves_block"] = 1
        if kind == "raise" and sp["exc"] in ("falsy", "falsybase"):
            stats["falsy_exception_leaves_block"] = 1
            if sp["ov"] or sp["dl"]:
                stats["falsy_exception_leaves_block_with_buffered_writes"] = 1
            if p.get("form") == "dec":
                stats["falsy_exception_leaves_decorated_call"] = 1
            else:
                stats["falsy_exception_leaves_context_manager_block"] = 1
            if any(op[0] == "nin" for op in p["ops"]):
                stats["falsy_exception_with_nested_block"] = 1
        nexp = sum(1 for op in flat if op[0] in ("commit", "rollback"))
        if nexp:
            body_cmds = [x[0] for x in st]
            if any(op[0] == "commit" for op in flat) and len(sp["commits"]) >= 1:
                stats["explicit_commit_midbody"] = 1
            if any(op[0] == "rollback" for op in flat):
                stats["explicit_rollback_midbody"] = 1
            # a lock released by an explicit commit / rollback and taken again later in the same block
            names = [l.split(":", 1)[1] for l in body_cmds if l.startswith("unlock:")]
            seen_unlock = set()
            for l in body_cmds:
                if l.startswith("unlock:"):
                    seen_unlock.add(l.split(":", 1)[1])
                elif l.startswith("set_lock:") and l.split(":", 1)[1] in seen_unlock:
                    stats["lock_reacquired_after_explicit_commit_or_rollback"] = 1
            if kind != "ok" and sp["commits"] and ngroups:
                stats["block_ended_by_exception_after_explicit_commit"] = 1
        if st:
            within[tid] = st[-1][4] - st[0][4] < p["timeout"]
    txs = [i for i, p in enumerate(progs) if p["kind"] == "tx"]
    modes = {progs[i]["mode"] for i in txs}
    all_within = all(within.get(i, True) for i in txs)
    if not all_within:
        stats["beyond_timeout"] = 1
    # ---- no lost increments
    for k in range(NKEYS):
        # a counter: transactions only increment it or re-time it (`expire` contributes 0), nobody else writes it
        writers = [(i, op) for i, p in enumerate(progs) for op in p["ops"] if op[0] in ("set", "setx", "incr", "del") and op[1] == k]
        retimers = [(i, op) for i, p in enumerate(progs) for op in p["ops"]
                    if op[0] == "expire" and op[1] == k and p["kind"] == "tx"]
        users = writers + retimers
        if not users or any(op[0] != "incr" or progs[i]["kind"] != "tx" for i, op in writers):
            continue
        if any(durable.get(i) is None for i, _ in writers):
            continue
        # the increments of the segments that were committed: explicitly by tx.commit(), or by the end of a block that returned;
        # not those of a segment ended by tx.rollback(), an exception, LockedError or a cancellation
        total = sum(n for i in {i for i, _ in writers} for kk, n in durable[i] if kk == k)
        init = int(case["init"].get(k, case["init"].get(str(k), 0)) or 0)
        final = res["final"].get(k)
        committed = any(kk == k for i in {i for i, _ in writers} for kk, _ in durable[i])
        present = k in case["init"] or str(k) in case["init"]
        lost = final != ((init + total) if (present or committed) else None)
        if len({i for i, _ in users}) >= 2:
            stats["shared_counter"] = 1
        if retimers and writers and len({i for i, _ in users}) >= 2:
            stats["counter_incremented_and_retimed"] = 1
        if lost and modes == {"fast"}:
            stats["fast_lost_update"] = 1
        if lost and len(modes) == 1 and modes <= {"locked", "serializable"} and not all_within:
            stats["lost_update_beyond_timeout"] = 1
        if len(modes) == 1 and modes <= {"locked", "serializable"} and all_within and lost:
            bad.append(("no_lost_increments", f"counter k{k}: init {init} + committed increments {total} != final {final}"))
    # ---- a value that is read from the backend in order to be buffered (the seed of an `incr`, the value an `expire` writes
    #      back, the presence a conditional `set` decides on) is read under the key's lock: what is buffered is the store's
    #      current value (theorem buffered_counter_is_current)
    if len(modes) == 1 and modes <= {"locked", "serializable"} and all_within:
        for tid in txs:
            rsteps = [s for s in steps[tid] if s[0].startswith(("get:", "exists:"))]
            for (cmd, k), (lab, _, _, locks, _, g) in zip(rmw_reads.get(tid, []), rsteps):
                if cmd == "get":
                    continue
                full = ":serializable:lock" if modes == {"serializable"} else f":tx_lock:k{k}"
                if locks.get(full) != tid:
                    bad.append(("buffered_value_is_current", f"task {tid} read k{k} from the backend ({lab}, step {g}) for its `{cmd}` - a value it "
                                                      f"buffers and writes back at commit - without holding the key's lock ({lock_name(full)}): "
                                                      f"what it buffers need not be the store's current value when it commits"))
                else:
                    stats["rmw_read_under_lock"] = 1
    # ---- write phases (lock held) never overlap: globally in serializable mode, per key in locked mode
    if len(modes) == 1 and modes <= {"locked", "serializable"} and all_within:
        spans = {}
        serial = modes == {"serializable"}
        for tid in txs:
            for lab, _, _, locks, _, g in steps[tid]:
                if lab.startswith("set_lock:"):
                    name = lab.split(":", 1)[1]
                    full = ":serializable:lock" if name == "g" else ":tx_lock:" + name
                    if locks.get(full) == tid:
                        # a write phase is from the step that takes the lock to the step that releases it (the end of the block, or
                        # an explicit commit / rollback: a body may have several); serializable: whatever the lock is called;
                        # locked: one phase per key
                        group = spans.setdefault("(any)" if serial else name, [])
                        if not any(s[0] == tid and s[2] is None for s in group):
                            group.append([tid, g, None])
                elif lab.startswith("unlock:"):
                    name = lab.split(":", 1)[1]
                    for s in spans.get("(any)" if serial else name, []):
                        if s[0] == tid and s[2] is None:
                            s[2] = g
        # the store is written only inside a write phase: a commit command of a locked / serializable transaction is issued
        # while it holds a lock
        for tid in txs:
            mine = [s for ss in spans.values() for s in ss if s[0] == tid]
            for lab, _, _, _, _, g in steps[tid]:
                if lab.startswith(("set_many:", "delete_many:")) and not any(s[1] < g and (s[2] is None or g < s[2]) for s in mine):
                    bad.append(("write_phases_disjoint", f"task {tid} issued {lab} at step {g} outside any write phase "
                                                         f"(it held no lock; mode {sorted(modes)[0]})"))
        for name, ss in spans.items():
            ss = sorted(ss, key=lambda s: s[1])
            for a, b in zip(ss, ss[1:]):
                if a[2] is None or b[1] < a[2]:
                    bad.append(("write_phases_disjoint", f"lock {name}: task {b[0]} entered its write phase at step {b[1]} while task {a[0]} "
                                                         f"(since step {a[1]}) had not left it (mode {sorted(modes)[0]})"))
            if len(ss) >= 2:
                stats["lock_handover"] = 1
    # ---- interesting states
    all_labels = [canon_label(e[2]) for e in res["trace"] if e[0] == "run"]
    tids = [e[1] for e in res["trace"] if e[0] == "run"]
    for tid in txs:
        labs = [s[0] for s in steps[tid]]
        fails = sum(1 for a, b in zip(labs, labs[1:]) if a.startswith("set_lock:") and b == a)
        if fails:
            stats["lock_contention"] = 1
        gs = [s[5] for s in steps[tid]]
        commit = [s[5] for s in steps[tid] if s[0].startswith(("set_many:", "delete_many:"))]
        if len(commit) == 2 and commit[1] - commit[0] > 1:
            stats["commit_interleaved"] = 1
        if gs and any(progs[t]["kind"] == "plain" and gs[0] < g < gs[-1] and all_labels[g] != "start" for g, t in enumerate(tids)):
            stats["plain_inside_tx_window"] = 1
        if any(op[0] == "nin" for op in progs[tid]["ops"]):
            stats["nested_block"] = 1
        if tid in multi:
            stats["multi_key_write_in_transaction"] = 1
            first = next((op for op in case["programs"][tid]["ops"] if op[0] in ("set", "setx", "incr", "del", "expire", "setm", "delm")), None)
            if first is not None and first[0] in ("setm", "delm") and any(l.startswith("set_lock:") for l in labs):
                stats["first_write_of_a_locking_transaction_is_multi_key"] = 1
                if progs[tid]["mode"] == "serializable" and len(commit) >= 2 and commit[1] - commit[0] > 1:
                    stats["serializable_multi_key_commit_with_another_task_stepping_between_its_commands"] = 1
        if any(op[0] == "nfail" for op in progs[tid]["ops"]):
            # an inner block left by an exception that the enclosing body caught - did the body get that far, and did it return then?
            ops_t = progs[tid]["ops"]
            last = max(j for j, op in enumerate(ops_t) if op[0] == "nfail")
            reached = outs[tid].startswith("ret:") or (outs[tid].startswith("raise:") and outs[tid] != "raise:locked"
                                                        and any(op[0] == "raise" for op in ops_t[last:]))
            if reached:
                stats["inner_block_failed_and_outer_body_caught_it"] = 1
            if outs[tid].startswith("ret:"):
                stats["body_returned_after_a_caught_inner_failure"] = 1
                if any(l.startswith(("set_many:", "delete_many:")) for l in labs):
                    stats["commit_after_a_caught_inner_failure"] = 1
                if any(op[0] == "nin" and op[1] == "dec" for op in ops_t):
                    stats["caught_failure_of_a_nested_decorated_call"] = 1
                if any(op[0] == "nin" and op[1] == "ctx" for op in ops_t):
                    stats["caught_failure_of_a_nested_context_manager_block"] = 1
        if outs[tid] == "raise:body" and any(l.startswith("unlock:") for l in labs):
            stats["raise_with_locks"] = 1
        if outs[tid] in ("raise:falsy", "raise:falsybase") and any(l.startswith("unlock:") for l in labs):
            stats["falsy_raise_with_locks"] = 1
    objs = [i for i in txs if progs[i].get("form") == "obj" or any(op[0] == "nin" and op[1] == "obj" for op in progs[i]["ops"])]
    for a in objs:
        for b in objs:
            if a < b and (progs[a]["mode"], progs[a]["timeout"]) == (progs[b]["mode"], progs[b]["timeout"]) and steps[a] and steps[b]:
                if steps[a][0][5] < steps[b][-1][5] and steps[b][0][5] < steps[a][-1][5]:
                    stats["one_shared_context_object_overlapping_blocks"] = 1
                    if any(not outs[t].startswith("ret:") for t in (a, b)) and any(outs[t].startswith("ret:") for t in (a, b)):
                        stats["shared_context_object_one_block_fails_the_other_commits"] = 1
    if any(progs[i].get("form") == "obj" and any(op[0] == "nin" and op[1] == "obj" for op in progs[i]["ops"]) for i in txs):
        stats["shared_context_object_reentered_by_its_own_task"] = 1
    decs = [i for i in txs if progs[i].get("form") == "dec" or any(op[0] == "nin" and op[1] == "dec" for op in progs[i]["ops"])]
    for a in decs:
        for b in decs:
            if a < b and (progs[a]["mode"], progs[a]["timeout"]) == (progs[b]["mode"], progs[b]["timeout"]) and steps[a] and steps[b]:
                if steps[a][0][5] < steps[b][-1][5] and steps[b][0][5] < steps[a][-1][5]:
                    stats["one_decorated_function_overlapping_calls"] = 1
    if res.get("merged_groups"):
        stats["commit_with_several_ttl_groups"] = 1
    for who, inside in res.get("abandons", []):
        stats["abandoned_block_on_the_shared_object_finalised"] = 1
        if inside:
            stats["abandoned_block_finalised_while_another_task_is_inside_the_shared_object"] = 1
            if any(outs[t].startswith("ret:") for t in inside):
                stats["task_inside_the_shared_object_during_an_abandoned_exit_returned"] = 1
    return bad, stats


# ---- running cases --------------------------------------------------------------------------------------

def exec_case(case):
    for i, p in enumerate(case["programs"]):
        if p["kind"] != "tx" and any(op[0] in ("setm", "delm") for op in p["ops"]):
            raise HarnessError(f"task {i} of {json.dumps(case)}: multi-key writes are for transactional tasks only")
        if any(op[0] in ("setm", "delm") and not op[1] for op in p["ops"]):
            raise HarnessError(f"task {i} of {json.dumps(case)}: empty multi-key write")
        if not handles_ok(p["ops"], p.get("form", "ctx") if p["kind"] == "tx" else "none"):
            raise HarnessError(f"task {i} of {json.dumps(case)} calls commit / rollback without a Transaction object at hand")
    try:
        return txsched.execute(case["init"], case["programs"], case["schedule"], cancels=case.get("cancels", 0))
    except txsched.SchedError as exc:
        raise HarnessError(f"scheduler: {exc} on {json.dumps(case)}")


def model_diff(case, res, answers):
    """first disagreement between the implementation's run and the model's replay of the same schedule"""
    it = iter(answers)
    for _ in range(1 + len(case["init"]) + len(case["programs"])):
        a = next(it)
        if a != "ok":
            return f"driver rejected the case header: {a}"
    si = 0
    now = 0
    for e in res["trace"]:
        a = next(it)
        if e[0] == "run":
            data, locks, now = res["snaps"][si]
            si += 1
            want = f"label={canon_label(e[2])} {canon_world(data, locks, now)}"
            if a != want:
                return f"step {si - 1} (task {e[1]}): impl `{want}` model `{a}`"
        elif e[0] == "cancel":
            data, locks, now = res["snaps"][si]
            si += 1
            want = canon_world(data, locks, now)
            if a != want:
                return f"step {si - 1} (task {e[1]} cancelled): impl `{want}` model `{a}`"
        else:
            now += e[1]
            if not a.endswith(f" now={now}"):
                return f"after `adv {e[1]}`: impl now={now}, model `{a}`"
    a = next(it)
    want = "end " + " ".join(f"t{i}={canon_outcome(res['outcomes'].get(i, ('unfinished',)))}" for i in range(len(case["programs"])))
    if a != want:
        return f"outcomes: impl `{want}` model `{a}`"
    return None


def evaluate(cases, results=None):
    """run a batch: -> list of dict(case, res, bad, stats, mdiff)"""
    out = []
    lines = []
    spans = []
    for ci, case in enumerate(cases):
        res = results[ci] if results is not None else exec_case(case)
        ls = case_lines(case, res["trace"])
        spans.append((len(lines), len(lines) + len(ls)))
        lines += ls
        bad, stats = oracle(case, res)
        out.append({"case": case, "res": res, "bad": bad, "stats": stats})
    answers = DRIVER.ask(lines) if lines else []
    for r, (a, b) in zip(out, spans):
        r["mdiff"] = model_diff(r["case"], r["res"], answers[a:b])
        r["answers"] = answers[a:b]
    return out


def sanitize(ops):
    """keep nin/nout balanced after ops were removed"""
    out, depth = [], 0
    for op in ops:
        if op[0] in ("nout", "nfail"):
            if depth == 0:
                continue
            depth -= 1
        elif op[0] == "nin":
            depth += 1
        out.append(op)
    return out + [["nout"]] * depth


def shrink(case, pred):
    cur = json.loads(json.dumps(case))

    def ok(c):
        try:
            return pred(c)
        except HarnessError:
            return False
    # drop whole tasks
    i = len(cur["programs"]) - 1
    while i >= 0 and len(cur["programs"]) > 1:
        c = dict(cur, programs=cur["programs"][:i] + cur["programs"][i + 1:])
        if ok(c):
            cur = c
        i -= 1
    # shrink each body
    for i in range(len(cur["programs"])):
        def with_ops(ops, i=i):
            ps = list(cur["programs"])
            ps[i] = dict(ps[i], ops=sanitize(ops))
            return dict(cur, programs=ps)
        ops = cur["programs"][i]["ops"]
        if ops and ok(with_ops([])):
            cur = with_ops([])
        elif len(ops) >= 2:
            small = ddmin(ops, lambda o: ok(with_ops(o)))
            cur = with_ops(small)
    # fewer cancellations
    while cur.get("cancels", 0) > 0 and ok(dict(cur, cancels=cur["cancels"] - 1)):
        cur = dict(cur, cancels=cur["cancels"] - 1)
    # shrink the schedule
    if ok(dict(cur, schedule=[])):
        cur = dict(cur, schedule=[])
    else:
        sch = cur["schedule"]
        while sch and sch[-1] == 0:
            sch = sch[:-1]
        if len(sch) >= 2:
            sch = ddmin(sch, lambda s: ok(dict(cur, schedule=s)))
        if ok(dict(cur, schedule=sch)):
            cur = dict(cur, schedule=sch)
    return cur


def describe(r):
    res = r["res"]
    rows = []
    si = 0
    it = iter(r["answers"][1 + len(r["case"]["init"]) + len(r["case"]["programs"]):])
    for e in res["trace"]:
        a = next(it, "")
        if e[0] == "run":
            data, locks, now = res["snaps"][si]
            si += 1
            rows.append({"step": f"run {e[1]}", "impl": f"label={canon_label(e[2])} {canon_world(data, locks, now)}", "model": a})
        elif e[0] == "cancel":
            data, locks, now = res["snaps"][si]
            si += 1
            rows.append({"step": f"cancel {e[1]}", "impl": canon_world(data, locks, now), "model": a})
        else:
            rows.append({"step": f"adv {e[1]}", "model": a})
    return rows


D51 = "D51:shared-transaction-context-object"


def sharing_is_the_cause(case) -> bool:
    """the failing case has >= 2 tasks entering THE shared context object (form "obj") of one (mode, timeout), and the very same case
    is fine when every block is opened on a context object of its own instead ("obj" -> "ctx"): what breaks it is state shared
    between tasks through the object (defect D51, repaired by keeping the per-block state per transaction)"""
    users = {}
    for p in case["programs"]:
        if p["kind"] == "tx" and (p.get("form") == "obj" or any(op[0] == "nin" and op[1] == "obj" for op in p["ops"])):
            users[(p["mode"], p["timeout"])] = users.get((p["mode"], p["timeout"]), 0) + 1
    if not any(n >= 2 for n in users.values()):
        return False
    own = dict(case, programs=[dict(p, form="ctx" if p.get("form") == "obj" else p.get("form", "ctx"),
                                    ops=[["nin", "ctx"] if op[0] == "nin" and op[1] == "obj" else op for op in p["ops"]]) if p["kind"] == "tx" else p
                               for p in case["programs"]])
    try:
        e = evaluate([own])[0]
    except HarnessError:
        return False
    return not e["bad"] and e["mdiff"] is None


def report(chk: Check, r, origin):
    case = r["case"]
    if r["bad"]:
        stmt = r["bad"][0][0]
        small = shrink(case, lambda c: any(b[0] == stmt for b in evaluate([c])[0]["bad"]))
        rr = evaluate([small])[0]
        msgs = [m for s, m in rr["bad"]] or [m for s, m in r["bad"]]
        if sharing_is_the_cause(small):
            chk.violation(
                f"{stmt}: one `cache.transaction()` object entered by two tasks at once (`async with T:`): {msgs[0]}",
                {"case": small, "statements_violated": sorted({s for s, _ in rr["bad"]}), "messages": msgs,
                 "outcomes": {str(k): canon_outcome(v) for k, v in rr["res"]["outcomes"].items()},
                 "final_store": {str(k): v for k, v in rr["res"]["final"].items()},
                 "final_locks": rr["res"].get("final_locks"),
                 "trace": describe(rr), "first_diff_vs_model": rr["mdiff"], "origin": origin,
                 "same_case_on_context_objects_of_their_own": "no disagreement",
                 "replay_cmd": "./check C05 --replay <this file>"},
                signature=D51)
            return
        chk.violation(
            f"{stmt}: {msgs[0]}",
            {"case": small, "statements_violated": sorted({s for s, _ in rr["bad"]}), "messages": msgs,
             "outcomes": {str(k): canon_outcome(v) for k, v in rr["res"]["outcomes"].items()},
             "final_store": {str(k): v for k, v in rr["res"]["final"].items()},
             "trace": describe(rr), "first_diff_vs_model": rr["mdiff"], "origin": origin,
             "replay_cmd": "./check C05 --replay <this file>"},
            signature=stmt)
    else:
        small = shrink(case, lambda c: (lambda e: e["mdiff"] is not None and not e["bad"])(evaluate([c])[0]))
        rr = evaluate([small])[0]
        chk.violation(
            f"correspondence broken: implementation differs from the TxSched model ({rr['mdiff'] or r['mdiff']}) while the "
            f"four statements of the property hold on this run",
            {"case": small, "trace": describe(rr), "first_diff_vs_model": rr["mdiff"], "origin": origin,
             "broken": "correspondence TxSched model <-> cashews/wrapper/transaction.py + cashews/backends/transaction.py",
             "replay_cmd": "./check C05 --replay <this file>"},
            signature=None, no_input=True)


# ---- generators -----------------------------------------------------------------------------------------

def tx(mode, ops, form="ctx", timeout=400):
    return {"kind": "tx", "mode": mode, "timeout": timeout, "form": form, "ops": ops}


def plain(ops):
    return {"kind": "plain", "ops": ops}


def exhaustive_families():
    """small program sets whose schedules are all enumerated: (title, init, programs, enumerated in the quick tier too?)"""
    fams = []
    for mode in ("fast", "locked", "serializable"):
        two = [["incr", 0, 1], ["incr", 0, 1]]
        fams.append((f"{mode}: two calls of one decorated function, two incr each",
                     {}, [tx(mode, two, "dec", 40), tx(mode, two, "dec", 40)], True))
        fams.append((f"{mode}: committing writer and deleter against a raising transaction",
                     {0: 1, 1: 7}, [tx(mode, [["del", 1], ["set", 0, 4]], "ctx", 20),
                                    tx(mode, [["incr", 0, 3], ["set", 1, 2], ["raise"]], "dec", 20)], True))
        fams.append((f"{mode}: decorated call against a plain reader/writer of the same keys",
                     {0: 2}, [tx(mode, [["incr", 0, 1], ["set", 1, 5], ["get", 0]], "dec", 40),
                              plain([["get", 0], ["set", 1, 8], ["incr", 0, 10]])], True))
        fams.append((f"{mode}: decorated call, a call nesting the same decorator, a plain writer",
                     {0: 5}, [tx(mode, [["set", 1, 1], ["incr", 0, 2]], "dec", 40),
                              tx(mode, [["nin", "dec"], ["incr", 0, 1], ["nout"], ["get", 1]], "dec", 40),
                              plain([["set", 2, 9], ["get", 0]])], mode == "fast"))
    for mode in ("fast", "locked", "serializable"):
        # `expire` inside a transaction is a read-modify-write (the backend's value is buffered and written back)
        fams.append((f"{mode}: a call incrementing a counter against a call that re-times (expire) and then increments it",
                     {0: 1}, [tx(mode, [["incr", 0, 1]], "dec", 40), tx(mode, [["expire", 0], ["incr", 0, 2]], "dec", 40)], True))
        fams.append((f"{mode}: re-timing only (present, absent and just-deleted key) against an incrementing call",
                     {0: 1, 2: 5}, [tx(mode, [["incr", 0, 1]], "dec", 40),
                                    tx(mode, [["expire", 0], ["expire", 1], ["del", 2], ["expire", 2]], "ctx", 40)], True))
        fams.append((f"{mode}: re-timing with two TTLs, of a key written in the block too, against a plain re-timer/reader",
                     {0: 1}, [tx(mode, [["expire", 0, 7200], ["set", 1, 4], ["expire", 1], ["incr", 0, 1]], "ctx", 40),
                              plain([["expire", 0], ["incr", 0, 10], ["get", 1]])], True))
    for mode in ("fast", "locked", "serializable"):
        # a conditional `set` is a read-modify-write on presence
        fams.append((f"{mode}: a call creating and a call deleting a key against conditional sets (only-if-absent, only-if-present) of it",
                     {2: 1}, [tx(mode, [["set", 1, 5], ["del", 2]], "ctx", 40),
                              tx(mode, [["setx", 1, 7, 0], ["setx", 1, 8, 1], ["setx", 2, 9, 1]], "dec", 40)], True))
    for mode in ("fast", "locked", "serializable"):
        # explicit tx.commit() / tx.rollback() in the middle of a body: the locks are given back, later writes take them again
        fams.append((f"{mode}: incr; tx.commit(); incr against an incrementing call (the lock changes hands between the two segments)",
                     {}, [tx(mode, [["incr", 0, 1], ["commit"], ["incr", 0, 1]], "ctx", 40), tx(mode, [["incr", 0, 5]], "dec", 40)], True))
        fams.append((f"{mode}: incr; tx.rollback(); incr; set of a second key against an incrementing call",
                     {0: 1}, [tx(mode, [["incr", 0, 1], ["rollback"], ["incr", 0, 2], ["set", 1, 7]], "ctx", 40),
                              tx(mode, [["incr", 0, 10]], "dec", 40)], True))
        fams.append((f"{mode}: delete + set, tx.commit() inside a nested block, then a raising tail, against a plain reader",
                     {0: 1, 1: 2}, [tx(mode, [["del", 1], ["set", 0, 4], ["nin", "ctx"], ["commit"], ["nout"], ["incr", 0, 1], ["raise"]], "dec", 40),
                                    plain([["get", 0], ["get", 1]])], True))
    for mode in ("fast", "locked", "serializable"):
        # cancellation at every gate of a body (one cancellation per run, any task, any moment it is suspended inside its block)
        fams.append((f"{mode}: CANCEL anywhere: incr + set of a second key against an incrementing call",
                     {0: 1}, [tx(mode, [["incr", 0, 1], ["set", 1, 5]], "ctx", 40), tx(mode, [["incr", 0, 2]], "dec", 40)], True, 1))
        fams.append((f"{mode}: CANCEL anywhere: delete, sleep, conditional set and expire in a decorated call against a plain writer",
                     {1: 3}, [tx(mode, [["del", 1], ["sleep", 1], ["setx", 0, 4, 0], ["expire", 1]], "dec", 40), plain([["set", 1, 8]])], True, 1))
        fams.append((f"{mode}: CANCEL anywhere: incr; tx.commit(); incr (only the open segment is dropped)",
                     {}, [tx(mode, [["incr", 0, 1], ["commit"], ["incr", 0, 1]], "ctx", 40), tx(mode, [["incr", 0, 5]], "ctx", 40)],
                     mode != "locked", 1))
    for mode in ("fast", "locked", "serializable"):
        # a body that raises an exception OBJECT whose truth value is False (the class defines __len__ / __bool__): rolled back like any
        # other - decorator form and context-manager form, with a nested block, Exception and non-Exception BaseException
        fams.append((f"{mode}: a decorated call that increments, writes a second key and raises a FALSY Exception, against an incrementing block",
                     {0: 1}, [tx(mode, [["incr", 0, 1], ["set", 1, 5], ["raise", "falsy"]], "dec", 40), tx(mode, [["incr", 0, 2]], "ctx", 40)], True))
        fams.append((f"{mode}: a context-manager block (a nested decorated call inside, then a delete) raising a FALSY non-Exception "
                     f"BaseException, against an incrementing decorated call",
                     {0: 1, 1: 7}, [tx(mode, [["nin", "dec"], ["incr", 0, 1], ["nout"], ["del", 1], ["raise", "falsybase"]], "ctx", 40),
                                    tx(mode, [["incr", 0, 2]], "dec", 40)], mode != "locked"))
        fams.append((f"{mode}: a FALSY Exception raised inside a nested context-manager block of a decorated call after an explicit "
                     f"tx.commit(), against a plain reader",
                     {0: 1}, [tx(mode, [["set", 1, 5], ["nin", "ctx"], ["commit"], ["incr", 0, 1], ["raise", "falsy"], ["nout"]], "dec", 40),
                              plain([["get", 1], ["get", 0]])], True))
    for mode in ("fast", "locked", "serializable"):
        # an INNER block (nested `async with`, or a decorated call made from inside the transaction) is left by an exception that the
        # enclosing body catches: nested blocks are flat - the transaction is not marked by the failure, and a body that then finishes
        # normally commits everything it buffered (the failed inner block's writes included)
        fams.append((f"{mode}: set, incr, a nested context-manager block that writes and FAILS (caught by the body), incr, set - the body "
                     f"returns - against an incrementing decorated call",
                     {0: 1}, [tx(mode, [["set", 1, 5], ["incr", 0, 1], ["nin", "ctx"], ["set", 2, 7], ["nfail"], ["incr", 0, 1], ["set", 3, 9]], "ctx", 40),
                              tx(mode, [["incr", 0, 4]], "dec", 40)], True))
        fams.append((f"{mode}: two calls of one decorated function, each incrementing, calling a decorated helper that increments and FAILS "
                     f"(caught, a falsy Exception), then writing a flag",
                     {}, [tx(mode, [["incr", 0, 1], ["nin", "dec"], ["incr", 0, 2], ["nfail", "falsy"], ["set", 1, 1]], "dec", 40),
                          tx(mode, [["incr", 0, 1], ["nin", "dec"], ["incr", 0, 2], ["nfail", "falsy"], ["set", 2, 1]], "dec", 40)], mode != "locked"))
        fams.append((f"{mode}: CANCEL anywhere: a decorated call whose nested block deletes and FAILS with a non-Exception BaseException "
                     f"(caught), then incr, against a plain writer",
                     {0: 1, 2: 3}, [tx(mode, [["set", 1, 5], ["nin", "ctx"], ["del", 2], ["nfail", "base"], ["incr", 0, 1]], "dec", 40),
                                    plain([["set", 2, 8]])], True, 1))
        fams.append((f"{mode}: a caught failure of a nested decorated call, tx.commit(), a second caught failure, then the body raises",
                     {0: 1}, [tx(mode, [["nin", "dec"], ["incr", 0, 1], ["nfail"], ["commit"], ["nin", "ctx"], ["set", 1, 2], ["nfail", "falsybase"],
                                        ["incr", 0, 1], ["raise"]], "ctx", 40),
                              tx(mode, [["incr", 0, 4]], "dec", 40)], mode != "locked"))
    for mode in ("fast", "locked", "serializable"):
        # ONE context object `T = cache.transaction(mode)` entered by several tasks at once (`async with T:` in two handlers): each task
        # has its own transaction; what a block remembers is kept per transaction, not on the shared object (defect D51)
        fams.append((f"{mode}: two tasks inside `async with T:` on ONE shared context object: a committing writer against a block that raises",
                     {0: 1}, [tx(mode, [["set", 1, 5], ["incr", 0, 1]], "obj", 40), tx(mode, [["incr", 0, 2], ["set", 2, 6], ["raise"]], "obj", 40)], True))
        fams.append((f"{mode}: the shared context object re-entered by its own task (nested in itself) while another task is inside it with a "
                     f"nested block that fails and is caught",
                     {0: 1}, [tx(mode, [["incr", 0, 1], ["nin", "obj"], ["set", 1, 5], ["nout"], ["get", 1]], "obj", 40),
                              tx(mode, [["nin", "obj"], ["incr", 0, 2], ["nfail"], ["set", 2, 1]], "obj", 40)], mode != "locked"))
        fams.append((f"{mode}: CANCEL anywhere: two tasks inside the shared context object, a decorated call nested in one of them",
                     {0: 1}, [tx(mode, [["incr", 0, 1], ["set", 1, 5]], "obj", 40), tx(mode, [["nin", "dec"], ["incr", 0, 2], ["nout"]], "obj", 40)],
                     mode != "locked", 1))
    for mode in ("fast", "locked", "serializable"):
        # multi-key writes (cache.set_many / cache.delete_many inside a transaction) take their locks through the same `_get_lock_key` as
        # every other write - in serializable mode the ONE global lock -, also when they are the transaction's first write: no other
        # transaction's command falls between the backend commands of such a transaction's commit
        fams.append((f"{mode}: a transaction whose only writes are delete_many + set_many (commit = delete_many, then set_many) against a "
                     f"transaction setting the same two keys",
                     {0: 1, 1: 1}, [tx(mode, [["delm", [0]], ["setm", [[1, 5]]]], "ctx", 40), tx(mode, [["set", 0, 7], ["set", 1, 7]], "dec", 40)], True))
        fams.append((f"{mode}: set_many of two keys against set_many of the same keys in the opposite order (short timeout: a deadlock is "
                     f"broken by LockedError), one of them reading a third key afterwards",
                     {2: 3}, [tx(mode, [["setm", [[0, 5], [1, 5]]], ["get", 2]], "dec", 20), tx(mode, [["setm", [[1, 6], [0, 6]]]], "dec", 20)],
                     mode != "locked"))
        fams.append((f"{mode}: CANCEL anywhere: delete_many of two keys then set_many in a decorated call against a plain writer",
                     {0: 1, 1: 2}, [tx(mode, [["delm", [0, 1]], ["setm", [[0, 3]]]], "dec", 40), plain([["set", 1, 8]])], True, 1))
    for mode in ("fast", "locked", "serializable"):
        # ONE shared context object entered THREE (and four) deep by one task: an exception raised in an inner block while other inner
        # blocks of the same object are still open propagates through all of them - the caller sees it, nothing is committed
        fams.append((f"{mode}: the shared context object entered three deep by its task, the innermost block raises, against an incrementing "
                     f"block on the same object",
                     {0: 1}, [tx(mode, [["set", 1, 5], ["nin", "obj"], ["incr", 0, 1], ["nin", "obj"], ["set", 2, 6], ["raise"], ["nout"], ["nout"]], "obj", 40),
                              tx(mode, [["incr", 0, 2]], "obj", 40)], mode != "locked"))
        fams.append((f"{mode}: the shared context object entered four deep: the innermost block fails and is caught, then the next one raises "
                     f"a falsy exception, against a plain reader",
                     {0: 1}, [tx(mode, [["nin", "obj"], ["nin", "obj"], ["nin", "obj"], ["set", 1, 5], ["nfail"], ["incr", 0, 1], ["raise", "falsy"],
                                        ["nout"], ["nout"]], "obj", 40),
                              plain([["get", 1], ["get", 0]])], True))
        fams.append((f"{mode}: the shared context object entered twice inside a decorated call nested in a block on it; the innermost block "
                     f"raises a non-Exception BaseException",
                     {0: 1}, [tx(mode, [["nin", "dec"], ["nin", "obj"], ["nin", "obj"], ["incr", 0, 1], ["raise", "base"], ["nout"], ["nout"], ["nout"]], "obj", 40),
                              tx(mode, [["incr", 0, 2]], "dec", 40)], mode != "locked"))
    for mode in ("fast", "locked", "serializable"):
        # an ABANDONED block on the shared context object (an async generator with `async with T:` around a yield that was dropped) is
        # finalised from another context at every moment another task is suspended inside ITS block on T: that task's live transaction
        # is not touched - it keeps its locks, and its body, finishing normally, commits exactly its own writes
        fams.append((f"{mode}: a task inside `async with T:` (set, incr, set) while a plain task finalises an abandoned block on T and reads",
                     {0: 1}, [tx(mode, [["set", 1, 5], ["incr", 0, 1], ["set", 2, 6]], "obj", 40),
                              plain([["gc", "obj", mode, 40], ["get", 1]])], True))
        fams.append((f"{mode}: two tasks inside the shared object (one raising) while a decorated call finalises an abandoned block on it "
                     f"in the middle of its own transaction",
                     {0: 1}, [tx(mode, [["incr", 0, 1], ["set", 1, 5]], "obj", 40), tx(mode, [["set", 2, 6], ["raise"]], "obj", 40),
                              tx(mode, [["incr", 0, 2], ["gc", "obj", mode, 40], ["set", 3, 1]], "dec", 40)], mode == "fast"))
        fams.append((f"{mode}: a task that re-enters the shared object nested finalises an abandoned block on it itself, against a task "
                     f"inside the object",
                     {0: 1}, [tx(mode, [["set", 1, 5], ["nin", "obj"], ["gc", "obj", mode, 40], ["incr", 0, 1], ["nout"]], "obj", 40),
                              tx(mode, [["incr", 0, 2], ["set", 2, 6]], "obj", 40)], mode != "locked"))
    fams.append(("locked: a body raising a BaseException that is not an Exception while holding two locks, against a waiting call",
                 {0: 1}, [tx("locked", [["incr", 0, 1], ["set", 1, 2], ["raise", "base"]], "ctx", 40), tx("locked", [["incr", 0, 2]], "dec", 40)], True))
    fams.append(("locked: opposite lock order with a short timeout (deadlock broken by LockedError)",
                 {}, [tx("locked", [["incr", 0, 1], ["incr", 1, 1]], "dec", 20), tx("locked", [["incr", 1, 1], ["incr", 0, 1]], "dec", 20)], True))
    fams.append(("serializable: holder sleeps past a short timeout (lease expires)",
                 {}, [tx("serializable", [["incr", 0, 1], ["sleep", 8], ["incr", 0, 1]], "ctx", 20),
                      tx("serializable", [["incr", 0, 1]], "dec", 20)], True))
    fams.append(("serializable: a late-comer takes over the expired lease of a sleeping holder (beyond the timeout: an increment is lost)",
                 {}, [tx("serializable", [["incr", 0, 1], ["sleep", 8], ["incr", 0, 1]], "ctx", 20),
                      tx("serializable", [["sleep", 4], ["incr", 0, 1]], "dec", 40)], True))
    fams.append(("locked: three calls of one decorated function on one counter",
                 {0: 1}, [tx("locked", [["incr", 0, 1]], "dec", 40), tx("locked", [["incr", 0, 2]], "dec", 40),
                          tx("locked", [["incr", 0, 4]], "dec", 40)], False))
    return fams


def closer(rng):
    """how a nested block ends: its body runs to its end, or (2 in 5) it is left by an exception that the enclosing body catches"""
    r = rng.random()
    return ["nout"] if r < 0.6 else ["nfail"] if r < 0.8 else ["nfail", rng.choice(["base", "falsy", "falsybase"])]


def gen_ops(rng, in_tx: bool, nmax: int, form: str = "ctx"):
    ops = []
    stack = [form]          # forms of the open blocks: commit / rollback need a `Transaction` object (a ctx-form block around them)
    for _ in range(rng.randint(1, nmax)):
        r = rng.random()
        k = rng.choice([0, 0, 0, 1, 1, 2, 3][: 7])
        if r < 0.32:
            ops.append(["incr", k, rng.choice([1, 1, 2, -1, 3])])
        elif r < 0.46:
            ops.append(["set", k, rng.randint(-2, 9)])
        elif r < 0.57:
            ops.append(["get", k])
        elif r < 0.62:
            ops.append(["del", k])
        elif r < 0.65:
            if in_tx:
                ks = rng.sample([0, 1, 2, 3], rng.randint(1, 3))
                ops.append(["setm", [[kk, rng.randint(-2, 9)] for kk in ks]] if rng.random() < 0.6 else ["delm", ks])
            else:
                ops.append(["del", k])
        elif r < 0.70:
            ops.append(["expire", k] if rng.random() < 0.7 else ["expire", k, 7200])
        elif r < 0.75:
            ops.append(["setx", k, rng.randint(-2, 9), rng.randint(0, 1)])
        elif r < 0.80:
            ops.append(["sleep", rng.choice([1, 1, 2, 4, 8])])
        elif r < 0.82:
            r2 = rng.random()
            ops.append(["raise"] if r2 < 0.35 else ["raise", "base"] if r2 < 0.55 else ["raise", "falsy"] if r2 < 0.8 else ["raise", "falsybase"])
        elif r < 0.90:
            if in_tx and ("ctx" in stack or "obj" in stack):
                ops.append(["commit"] if rng.random() < 0.6 else ["rollback"])
        elif in_tx and r < 0.96 and len(stack) < (5 if "obj" in stack else 3):
            ops.append(["nin", rng.choice(["obj", "obj", "obj", "dec"] if "obj" in stack else ["ctx", "dec", "obj"])])
            stack.append(ops[-1][1])
        elif in_tx and len(stack) > 1:
            ops.append(closer(rng))
            stack.pop()
    return ops + [closer(rng) for _ in range(len(stack) - 1)]


def gen_case(rng, ntasks_max: int, style: int):
    n = rng.randint(2, ntasks_max)
    uniform = rng.random() < 0.7
    mode0 = rng.choice(["locked", "serializable", "locked", "serializable", "fast"])
    to0 = rng.choice([20, 40, 40, 400, 400])
    programs = []
    for i in range(n):
        if i > 0 and rng.random() < 0.2:
            programs.append(plain([op for op in gen_ops(rng, False, 4) if op[0] not in ("nin", "nout", "nfail", "commit", "rollback", "setm", "delm")]))
            continue
        mode = mode0 if uniform else rng.choice(["fast", "locked", "serializable"])
        to = to0 if uniform or rng.random() < 0.5 else rng.choice([20, 40, 400])
        form = rng.choice(["dec", "dec", "ctx", "obj", "obj"])
        if style == 1:
            # counter workload: only increments and re-timings (and reads / sleeps) so that the no-lost-increments statement applies
            ops = []
            for _ in range(rng.randint(1, 5)):
                r = rng.random()
                ops.append(["incr", rng.choice([0, 0, 1]), rng.choice([1, 2, 1, -1])] if r < 0.55 else
                           ["expire", rng.choice([0, 0, 1])] if r < 0.70 else
                           ["get", rng.choice([0, 1])] if r < 0.80 else ["sleep", rng.choice([1, 2])] if r < 0.87 else
                           ["commit"] if r < 0.93 else ["rollback"] if r < 0.96 else ["raise"] if r < 0.97 else ["raise", "falsy"] if r < 0.98 else
                           ["raise", "base"] if r < 0.99 else ["raise", "falsybase"])
            if rng.random() < 0.3:
                cut = rng.randint(0, len(ops))     # the nested block ends somewhere in the body, by a return or by a caught exception
                ops = [["nin", rng.choice(["dec", "ctx", "obj"])]] + ops[:cut] + [closer(rng)] + ops[cut:]
            if not handles_ok(ops, form):
                ops = [op for op in ops if op[0] not in ("commit", "rollback")]
        else:
            ops = gen_ops(rng, True, 6, form)
        programs.append(tx(mode, ops, form, to))
    init = {k: rng.randint(0, 5) for k in range(NKEYS) if rng.random() < (0.4 if style != 1 else 0.6)}
    if rng.random() < 0.3:
        # an abandoned block on a shared context object is finalised somewhere, at some moment, by some task
        users = [(p["mode"], p["timeout"]) for p in programs if p["kind"] == "tx" and
                 (p.get("form") == "obj" or any(op[0] == "nin" and op[1] == "obj" for op in p["ops"]))]
        m, t = rng.choice(users) if users else (mode0, to0)
        p = rng.choice(programs)
        p["ops"].insert(rng.randint(0, len(p["ops"])), ["gc", "obj", m, t])
    cancels = rng.choice([0, 0, 0, 1, 1, 2])
    schedule = [rng.randint(0, 3 if not cancels else 6) if rng.random() < 0.8 else 0 for _ in range(rng.randint(5, 80))]
    return {"init": init, "programs": programs, "schedule": schedule, "cancels": cancels}


def corpus_cases():
    d = ROOT / "corpus" / PROP
    for f in sorted(d.glob("*.json")):
        c = json.loads(f.read_text())
        yield f.name, norm_case(c)


def norm_case(c):
    return {"init": {int(k): v for k, v in c["init"].items()}, "programs": c["programs"], "schedule": list(c["schedule"]),
            "cancels": int(c.get("cancels", 0))}


# ---- the check ------------------------------------------------------------------------------------------

def run(chk: Check) -> int:
    proof = proof_stage(PROP, "driver_c05", chk.thorough) if not getattr(chk, "skip_proof", False) else None
    found = 0
    evaluations = 0
    nontrivial = set()
    interesting = {}
    label_hist = {}
    outcome_hist = {}
    samples = []
    exhaustive = []
    MAXFOUND = 3
    model_diffs = []
    mdiff_count = [0]

    def account(batch, origin, results=None):
        nonlocal found, evaluations
        for r in evaluate(batch, results):
            evaluations += 1
            for k in r["stats"]:
                interesting[k] = interesting.get(k, 0) + 1
            if r["stats"]:
                nontrivial.add(json.dumps([r["case"]["init"], r["case"]["programs"], r["res"]["choices"], r["case"].get("cancels", 0)], sort_keys=True))
            for e in r["res"]["trace"]:
                if e[0] == "run":
                    n = e[2][0]
                    label_hist[n] = label_hist.get(n, 0) + 1
                elif e[0] == "cancel":
                    label_hist["(task cancelled)"] = label_hist.get("(task cancelled)", 0) + 1
                else:
                    label_hist["(time passes)"] = label_hist.get("(time passes)", 0) + 1
            for o in r["res"]["outcomes"].values():
                c = canon_outcome(o).split(":")[0] + (":" + canon_outcome(o).split(":")[1] if o[0] == "raised" else "")
                outcome_hist[c] = outcome_hist.get(c, 0) + 1
            if len(samples) < 3 and r["stats"] and len(r["res"]["trace"]) <= 16 and "lock_contention" in r["stats"]:
                samples.append({"case": r["case"], "trace": [list(map(str, e)) for e in r["res"]["trace"]],
                                "outcomes": {str(k): canon_outcome(v) for k, v in r["res"]["outcomes"].items()},
                                "final": {str(k): v for k, v in r["res"]["final"].items()}})
            if r["bad"] and found < MAXFOUND:
                found += 1
                report(chk, r, origin)
            elif r["mdiff"] and not r["bad"]:
                # the model no longer describes the code; keep searching for an input on which the property itself fails
                model_diffs.append((r, origin)) if len(model_diffs) < 1 else None
                mdiff_count[0] += 1

    # 1. corpus
    corpus = list(corpus_cases())
    for name, case in corpus:
        if found >= MAXFOUND:
            break
        account([case], "corpus:" + name)

    # 2. exhaustive schedule enumeration of the small families (the bigger ones only in the thorough tier;
    #    in the quick tier those get random schedules instead)
    per_family_limit = 200000
    for title, init, programs, in_quick, *more in exhaustive_families():
        ncancel = more[0] if more else 0
        if found >= MAXFOUND:
            break
        if not (in_quick or chk.thorough):
            batch = [{"init": init, "programs": programs, "schedule": [chk.rng.randint(0, 2 + 2 * ncancel) for _ in range(40)],
                      "cancels": ncancel} for _ in range(120)]
            account(batch, "sampled-schedules:" + title)
            continue
        count = 0
        complete = True
        stack = [[]]
        while stack:
            if count >= per_family_limit:
                complete = False
                break
            batch_prefixes = [stack.pop() for _ in range(min(len(stack), 64))]
            batch = []
            batch_res = []
            for prefix in batch_prefixes:
                case = {"init": init, "programs": programs, "schedule": prefix, "cancels": ncancel}
                res = exec_case(case)
                br, full = res["branching"], res["choices"]
                batch.append({"init": init, "programs": programs, "schedule": full, "cancels": ncancel})
                batch_res.append(res)
                for i in range(len(br) - 1, len(prefix) - 1, -1):
                    for c in range(1, br[i]):
                        stack.append(full[:i] + [c])
                count += 1
            account(batch, "exhaustive:" + title, batch_res)
            if found >= MAXFOUND:
                break
        exhaustive.append({"family": title, "schedules": count, "complete": complete})

    # 3. sampled programs x sampled schedules
    n = chk.budget(2000, 40000)
    ntasks = 4
    i = 0
    while i < n and found < MAXFOUND:
        batch = [gen_case(chk.rng, ntasks if (i + j) % 3 else 3, (i + j) % 2) for j in range(min(100, n - i))]
        i += len(batch)
        account(batch, "gen")

    if found == 0 and model_diffs:
        report(chk, *model_diffs[0])
    if proof is not None:
        chk.proof_broken(proof, found > 0)
    chk.coverage.update({
        "cases_differing_from_model": mdiff_count[0],
        "evaluations": evaluations,
        "distinct_nontrivial": len(nontrivial),
        "rule": "one evaluation = one (program set, schedule) pair run on the real code and replayed on the model; non-trivial iff the run "
                "reached at least one interesting state (failed set_lock = contention, lock handed over between transactions, LockedError, "
                "a transaction outliving its timeout, overlapping calls of one decorated function, nested block, body raising while holding locks, "
                "another task's command between a commit's delete_many and set_many, a plain task's command inside a transaction's window, "
                "a lost update in fast mode, a counter shared by >= 2 transactions, an `expire` inside a transaction that buffered the backend's "
                "value (= read-modify-write), such a transaction that had to wait for a lock, a counter incremented by one transaction and re-timed by "
                "another, a commit with several TTL groups, a conditional set that consulted the backend, a read-modify-write read issued under the "
                "key's lock, a task cancelled inside its block - with buffered writes / holding locks / while waiting for a lock -, a task outside "
                "any transaction cancelled, a BaseException that is not an Exception leaving a block, an exception object whose truth value is False "
                "(Exception / non-Exception BaseException subclass defining __len__ / __bool__) leaving a decorated call / a context-manager block - "
                "with buffered writes, holding locks, with a nested block -, an inner block (nested context-manager block / decorated call made inside "
                "the transaction) left by an exception that the enclosing body caught, a body that returned and committed after that, "
                "a multi-key write (set_many / delete_many) inside a transaction - as the first write of a locking transaction, and a serializable "
                "transaction committing it with another task released between the commit's backend commands -, "
                "an abandoned block on the shared context object finalised from another context - while another task is suspended inside its own "
                "block on that object, and that task then returning -, "
                "two tasks inside ONE shared context object at once (one failing, the other committing; the object re-entered by its own task), "
                "an explicit tx.commit() / tx.rollback() in the "
                "middle of a body, a lock given back by it and taken again later in the same block, a block ended by an exception after an explicit "
                "commit); distinct = distinct (init, programs, resolved choice sequence, cancellation budget)",
        "exhaustive": all(e["complete"] for e in exhaustive) and bool(exhaustive),
        "exhaustive_families": exhaustive,
        "samples": samples,
        "corpus_cases": len(corpus),
        "step_histogram": label_hist,
        "outcome_histogram": outcome_hist,
        "interesting_states_cases": interesting,
        "trusted_base": TRUSTED,
        "partial": "the model cannot exhibit: preemption inside a backend command or inside task-local code (asyncio A1), a ContextVar leaking "
                   "between tasks (A3), cancellation of a task that is inside a commit (set_many / delete_many issued by __aexit__ or by an explicit "
                   "tx.commit()) or inside the unlocks, or that has not started (cancellation inside the body - before any backend command of it, in a "
                   "lock wait, in a sleep - IS modelled and exercised), KeyboardInterrupt / SystemExit (a user BaseException subclass stands for the "
                   "non-Exception BaseExceptions), exception classes whose __bool__ / __len__ raise (falsy exception objects ARE modelled and "
                   "exercised), more than one transaction block per task, TTL values (expire is modelled as what it does to "
                   "values; another task's command between the set_many commands of the TTL groups of one commit), non-integer values inside the block, "
                   "the pattern / multi-key READ commands (delete_match / get_many / scan issued by a body; set_many and delete_many ARE in the grammar, for "
                   "transactional tasks - so another transaction's delete_match('*') "
                   "removing :tx_lock: keys is not exercised), commands of one body running concurrently with each other (gather inside a block), "
                   "tasks spawned inside a block (they inherit the transaction through the copied context), an inner block's failure caught by the "
                   "body when it is LockedError or a cancellation (caught inner failures are the body's own exceptions of the four kinds), "
                   "a write buffer or a store under capacity pressure (Memory size is 10000 here: no eviction of buffered writes or lock keys), "
                   "a second backend/prefix, orders of the gathered unlocks other than by lock key, more than 4 tasks",
    })
    chk.assumptions.extend(TRUSTED)
    return chk.finish(proof)


def replay(chk: Check, path: str) -> int:
    c = json.loads(Path(path).read_text())
    case = norm_case(c["case"] if "case" in c else c)
    r = evaluate([case])[0]
    for row in describe(r):
        print(f"{row['step']:8s} impl={row.get('impl', ''):70s} model={row['model']}")
    print("outcomes:", {k: canon_outcome(v) for k, v in r["res"]["outcomes"].items()}, "final:", r["res"]["final"])
    for s, m in r["bad"]:
        print(f"property statement {s} violated: {m}")
    if r["mdiff"]:
        print("differs from model:", r["mdiff"])
    if not r["bad"] and not r["mdiff"]:
        print("replay: no disagreement")
        return 0
    print(f"VIOLATION property={PROP} replay={path}")
    return 1
