"""C11 - the in-memory backend respects its capacity and evicts least-recently-used first.

proof: lean/CashewsVerif/Props/C11.lean (capacity bound, store order = recency order w.r.t. a ghost use log,
       victim rule, purge sweeps order-neutral, recently-used keys still held) about the `Mem` model of C01.
tie:   generated histories (8 keys, capacities 1..6, TTLs, time advances, purge task on/off, raw backend and
       Cache facade) run on the real `Memory` under the virtual clock and on the model driver (driver_c01);
       the real purge task is observed on the store (whatever a task other than the harness's does to it at one
       instant, with no command in between, is one `purge` line with the content it left - memhist.py), and
       judged like any command: a key it removes must have been expired;
       two histories in five mix in the rest of Memory's commands (set_lock, is_locked, unlock, set_add, set_remove,
       set_pop, slice_incr, incr_bits, get_bits, get_raw, get_match, delete_match - Model/Lru.lean `XOp`);
       after EVERY command: result, the physically held keys in `OrderedDict` order, and the harness's own use
       log are compared with the model's answer, its store order and its ghost use log.
       Verdicts: the property oracle looks only at the two statements of C11 on the implementation's own
       observations - (P1) never more than `size` entries, (P2) a key that leaves the store without having been
       deleted / cleared / expired had at least `size` distinct other keys used more recently - so an eviction
       policy that differs from the model but satisfies C11 is reported as a broken correspondence
       (no-failing-input-found), not as a failing input.
"""
from __future__ import annotations

import json
from pathlib import Path

from .. import lruhist, memhist
from ..core import ROOT, Check, Driver, HarnessError, ddmin, proof_stage

PROP = "C11"
DRIVER = Driver("driver_c01", "Drivers/C01.lean")
NKEYS = 8
CAPS = [1, 2, 3, 4, 5, 6]
CFGS = ["raw", "facade", "raw_purge", "facade_purge", "facade_secret", "facade_pickle"]
WEIGHTS = {"set": 22, "setnx": 8, "setxx": 5, "setmany": 6, "get": 16, "getmany": 6, "exists": 8, "incr": 10,
           "delete": 4, "delmany": 1, "expire": 7, "getexpire": 4, "clear": 0.4, "adv": 12}

TRUSTED = [
    "Lean 4.33.0 kernel; axioms of every theorem audited to be within {propext, Classical.choice, Quot.sound}",
    "hand-written model lean/CashewsVerif/Model/Mem.lean (+ ghost bookkeeping Model/Lru.lean, proved erasable) of "
    "cashews/backends/memory.py, tied to the code by this run's history correspondence (results, store order, use log)",
    "harness: virtual clock (harness/vtime.py), canonicalisation, observation of the purge task on the store itself "
    "(harness/memhist.py: `ObservedMemory.store` reports every mutation with the task that made it; the background mutations of one "
    "instant not separated by a command are one `purge` line carrying the store content they left), "
    "store snapshots and the Python property oracle (harness/lruhist.py)",
    "the purge sweep is atomic with respect to commands (no suspension point inside Memory.get; asyncio does not preempt): assumed by "
    "the model's single `purge` operation, explicit in Model/Sweep.lean / theorem atomic_sweeps_are_purge_ops; not proved - exercised by "
    "commands landing at the very instant of a purge tick on either side of the purge task's step (interesting states "
    "command_at_the_instant_of_a_sweep_after_it, sweep_at_the_instant_of_a_command_after_it; sweep_split_by_commands stays absent)",
    "the notion of 'use' (docstring of harness/lruhist.py = header of Model/Lru.lean): a failed only-if-absent set on "
    "a live key counts as an existence test, get_expire and purge sweeps do not count",
    "collections.OrderedDict (move_to_end, popitem) is modelled by an association list, not verified",
    "serializer configurations are run but not modelled: C09 covers decode(encode v) = v",
]


def run_case(cfg: str, cap: int, ops: list[str], stats: dict | None = None):
    rec, rstats = lruhist.execute(cfg, cap, ops)
    viol, logs = lruhist.judge(cap, rec, stats)
    answers = DRIVER.ask(lruhist.model_requests(cap, rec))
    diff = lruhist.model_diff(rec, logs, answers)
    return rec, viol, diff, answers, rstats


def run_batch(cases, want_stats=True):
    """run several cases on the implementation, ask the driver once; -> per case what `run_case` returns (+ stats)"""
    pre = []
    reqs: list[str] = []
    for cfg, cap, ops in cases:
        st: dict[str, int] = {}
        rec, rstats = lruhist.execute(cfg, cap, ops)
        viol, logs = lruhist.judge(cap, rec, st if want_stats else None)
        r = lruhist.model_requests(cap, rec)
        pre.append((rec, viol, logs, rstats, st, len(reqs), len(r)))
        reqs += r
    answers = DRIVER.ask(reqs) if reqs else []
    out = []
    for rec, viol, logs, rstats, st, off, n in pre:
        a = answers[off: off + n]
        out.append((rec, viol, lruhist.model_diff(rec, logs, a), a, rstats, st))
    return out


def trace_of(rec, answers):
    out = []
    for i, r in enumerate(rec):
        a = answers[1 + 3 * i: 4 + 3 * i]
        out.append({"line": r["line"], "impl": r["out"], "impl_store": [k for k, _ in r["snap"]], "impl_count": r["count"],
                    "model": a[0], "model_store": a[1], "model_uselog": a[2]})
        if r.get("bg_ops"):
            out[-1]["purge_task_did"] = [f"{o} {k}" for o, k in r["bg_ops"]]
    return out


def report(chk: Check, cfg, cap, ops, origin, viol, diff):
    if viol:
        def fails(o):
            return bool(run_case(cfg, cap, o)[1])
    else:
        def fails(o):
            return run_case(cfg, cap, o)[2] is not None
    small = ddmin(ops, fails) if len(ops) > 1 else ops
    rec, viol2, diff2, answers, _ = run_case(cfg, cap, small)
    again = run_case(cfg, cap, small)
    if (bool(again[1]), again[2]) != (bool(viol2), diff2):
        raise HarnessError("a failing history does not fail the same way when it is run again")
    replay = {
        "config": cfg, "cap": cap, "ops": small,
        "trace": trace_of(rec, answers),
        "property_violations": [{"step": i, "what": t} for i, t in viol2],
        "first_diff_vs_model": None if diff2 is None else {"step": diff2[0], "kind": diff2[1], "what": diff2[2]},
        "origin": origin,
        "replay_cmd": "./check C11 --replay <this file>",
    }
    if viol2:
        i, text = viol2[0]
        chk.violation(f"in-memory backend (size={cap}, config {cfg}) breaks C11 at step {i}: {text}", replay,
                      signature="capacity" if text.startswith("holds") else
                      "purge-removed-live-key" if text.startswith("the purge task") else "victim-rule")
    elif diff2 is not None:
        chk.violation(
            f"correspondence broken ({diff2[1]}): implementation differs from the Mem model at step {diff2[0]}: {diff2[2]} "
            f"(size={cap}, config {cfg}); capacity bound and victim rule still hold on this history",
            dict(replay, broken="correspondence Mem/Lru model <-> cashews/backends/memory.py"), signature=None, no_input=True)
    else:
        raise HarnessError("shrinking lost the failure")


def corpus_cases():
    d = ROOT / "corpus" / PROP
    for f in sorted(d.glob("*.json")):
        c = json.loads(f.read_text())
        yield f.name, c["config"], c["cap"], c["ops"]


def exhaustive(chk: Check, caps, nkeys, depth):
    """all histories up to `depth` over `nkeys` keys (up to key renaming) on the raw backend"""
    res = {"exhaustive": True, "capacities": list(caps), "keys": nkeys, "max_length": depth,
           "alphabet": [l for l, _ in lruhist.dfs_alphabet(nkeys)], "histories": 0, "histories_with_eviction": 0,
           "up_to": "renaming of keys (a key number may appear only after all smaller ones)"}
    stats: dict[str, int] = {}
    for cap in caps:
        d = lruhist.Dfs(cap, nkeys, depth, DRIVER)
        d.stats = stats
        for first in d.alphabet:
            if first[1] > 0:
                continue
            d.run_first(first)
            if d.failure:
                break
        res["histories"] += d.nodes
        res["histories_with_eviction"] += d.evicting
        if d.failure:
            kind, hist, detail = d.failure
            # hand the failing history to the ordinary reporter (shrinks, classifies, writes the replay)
            rec, viol, diff, _, _ = run_case("raw", cap, hist)
            if not viol and diff is None:
                raise HarnessError(f"enumeration found a {kind} failure that a fresh run does not show: {hist} {detail}")
            report(chk, "raw", cap, hist, f"exhaustive:cap={cap}", viol, diff)
            res["failed"] = True
            break
    res["interesting_states"] = stats
    return res


def run(chk: Check) -> int:
    proof = proof_stage(PROP, "driver_c01", chk.thorough) if not getattr(chk, "skip_proof", False) else None
    n = chk.budget(4000, 40000)
    found = 0
    ndiff = 0
    pending = None
    evaluations = 0
    distinct = set()
    hist: dict[str, int] = {}
    interesting: dict[str, int] = {}     # number of CASES that reached the state
    events: dict[str, int] = {}          # number of occurrences
    per_cap: dict[str, int] = {}
    samples = []
    cases = [("corpus:" + name, cfg, cap, ops) for name, cfg, cap, ops in corpus_cases()]
    ncorpus = len(cases)
    for i in range(n):
        cfg = CFGS[i % len(CFGS)]
        cap = CAPS[(i // len(CFGS)) % len(CAPS)]
        maxlen = 40 if i % 3 else 14
        # purge task on: every other history is phase-locked to the purge ticks (see memhist.PHASE_ADVS)
        locked = bool(memhist.CONFIGS[cfg]["purge"]) and (i // (len(CFGS) * len(CAPS))) % 2 == 1
        # two histories in five mix the regular commands with the larger alphabet (lruhist.gen_xhistory): set_lock,
        # is_locked, unlock, set_add, set_remove, set_pop, slice_incr, incr_bits, get_bits, get_raw, get_match, delete_match
        gen = lruhist.gen_xhistory if i % 5 in (1, 3) else (lambda rng, ml, w, **kw: memhist.gen_history(rng, NKEYS, ml, w, **kw))
        cases.append((f"gen:{i}", cfg, cap, gen(
            chk.rng, maxlen, WEIGHTS, advs=memhist.PHASE_ADVS if locked else None,
            ttls=memhist.PHASE_TTLS if locked else None)))
    BATCH = 100
    stop = False
    for b in range(0, len(cases), BATCH):
        chunk = cases[b: b + BATCH]
        results = run_batch([(cfg, cap, ops) for _, cfg, cap, ops in chunk])
        for (origin, cfg, cap, ops), (rec, viol, diff, answers, rstats, st) in zip(chunk, results):
            evaluations += 1
            for r in rec:
                w = r["line"].split()
                name = w[0] + ("_" + w[4] if w[0] == "set" else "")
                hist[name] = hist.get(name, 0) + 1
            for k, v in rstats.items():
                if "expired_unpurged" in k or "sweep" in k or "creates_entry_on_full_store" in k or k == "unattributed_store_change":
                    st.setdefault(k, v)
            for k, v in st.items():
                interesting[k] = interesting.get(k, 0) + 1
                events[k] = events.get(k, 0) + v
            if st.get("evictions"):
                distinct.add((cfg, cap, tuple(ops)))
                per_cap[str(cap)] = per_cap.get(str(cap), 0) + 1
            if len(samples) < 3 and st.get("victim_differs_from_fifo_victim") and len(ops) <= 12:
                samples.append({"config": cfg, "cap": cap, "ops": ops, "impl": [r["out"] for r in rec],
                                "store_after_each": [[k for k, _ in r["snap"]] for r in rec]})
            if viol:
                found += 1
                report(chk, cfg, cap, ops, origin, viol, diff)
                if found >= 2:
                    stop = True
                    break
            elif diff is not None:
                # implementation and model differ but C11 holds on this history: keep searching the rest of the budget
                # for an input on which the property itself fails (DESIGN section 5); report this one only if none turns up
                ndiff += 1
                if pending is None:
                    pending = (cfg, cap, ops, origin, viol, diff)
                if ndiff >= 200:
                    stop = True
                    break
        if stop:
            break
    exh = None
    if found == 0 and pending is not None:
        found += 1
        report(chk, *pending)
    if found == 0:
        # quick: capacities 1 and 2, 3 keys, length <= 4; thorough: 3 keys, length <= 5, capacities 1 and 2
        exh = exhaustive(chk, [1, 2], 3, 5) if chk.thorough else exhaustive(chk, [1, 2], 3, 4)
        if exh.get("failed"):
            found += 1
    if proof is not None:
        chk.proof_broken(proof, found > 0)
    chk.coverage.update({
        "evaluations": evaluations + (exh["histories"] if exh else 0),
        "generated_histories": evaluations - ncorpus,
        "distinct_nontrivial": len(distinct),
        "rule": "generated: histories of 1..40 commands over 8 keys from VERIF_SEED, round-robin over configurations "
                + ",".join(CFGS) + " and capacities 1..6, compared after every command (result, store order, use log); "
                "with the purge task on every other round of histories is phase-locked to the purge ticks (time advances are multiples "
                "of the purge interval or idle yields), so that commands land at the instant of a tick on either side of the purge "
                "task's step; two histories in five mix the regular commands (keys 0..7) with the larger alphabet of Memory - "
                "set_lock, is_locked, unlock (on the regular keys), set_add / set_remove / set_pop (2 set keys), slice_incr (2 window "
                "keys), incr_bits / get_bits (2 bit keys), get_raw, get_match, delete_match, and exists / expire / delete / get_expire / "
                "is_locked on any of the 14 keys - all sharing one store: every command that can create an entry is judged as a "
                "write for the capacity clause, every read of a live entry as a use for the recency clause; "
                "a case is non-trivial iff at least one capacity eviction happened in it; distinct = distinct (config, "
                "capacity, op list); the enumerated histories are counted in `evaluations` and described under `exhaustive_part`",
        "samples": samples,
        "corpus_cases": ncorpus,
        "op_histogram": hist,
        "interesting_states_cases": interesting,
        "interesting_states_occurrences": events,
        "nontrivial_cases_per_capacity": per_cap,
        "exhaustive": bool(exh) and not exh.get("failed", False),
        "exhaustive_part": exh,
        "trusted_base": TRUSTED,
        "partial": "non-dyadic TTLs, more than 14 keys / 40 commands / capacity 6 are not sampled; set_raw is not a program over "
                   "_get/_set/_delete (it writes self.store directly, without trimming) and is outside the model and the histories; the "
                   "payloads of the set / window / bit commands are not compared (C12, C15, C14 own them), their keys are never read by "
                   "value-reading commands; get_match / delete_match only with the pattern '*'; the enumerated part uses the regular "
                   "commands only; inside one set_many / get_match the oracle sees only the state after "
                   "the whole command; an expired entry pushed out by a write is not judged by the oracle (the theorems cover it)",
    })
    chk.assumptions.extend(TRUSTED)
    return chk.finish(proof)


def replay(chk: Check, path: str) -> int:
    c = json.loads(Path(path).read_text())
    rec, viol, diff, answers, _ = run_case(c["config"], c["cap"], c["ops"])
    for t in trace_of(rec, answers):
        print(f"{t['line']:28s} impl={t['impl']:14s} store={t['impl_store']!s:22s} {t['model']:30s} {t['model_store']:18s} {t['model_uselog']}")
    for i, text in viol:
        print(f"property broken at step {i}: {text}")
    if diff is not None:
        print(f"differs from the model at step {diff[0]} ({diff[1]}): {diff[2]}")
    if not viol and diff is None:
        print("replay: no disagreement")
        return 0
    print(f"VIOLATION property={PROP} replay={path}" + ("" if viol else " no-failing-input-found"))
    return 1
