"""C18 - Bloom filter: no false negatives; bit fields are independent saturating counters.

proof: lean/CashewsVerif/Props/C18.lean (field algebra of get/set/incr on Nat for every index/width/increment,
       refinement of the ideal counter array for every history - also for keys with a lifetime: expire / delete /
       passage of time over the lazily purging store refine an eagerly expiring counter array -, get_indexes: k
       distinct indexes < m when a result is returned, bloom: no false negatives for every add sequence, every index
       function and every pair of equivalent call forms, also on a filter key with a deadline while it stays alive).
tie:   the real `Bitarray`, `Memory.get_bits/incr_bits`, the `Cache` facade, `get_indexes`, the `bloom` /
       `dual_bloom` decorators and `params_for` from $VERIF_REPO are run on enumerated and generated inputs and
       compared with (a) the compiled Lean model (lean/Drivers/C18.lean) and (b) the property statement itself
       (closed-form counter arithmetic / ideal counter array; |S| = k, distinct, < m; never False for an added element).
"""
from __future__ import annotations

import json
import os
import subprocess
import sys
from pathlib import Path

from .. import bitsbloom as bb
from .. import vtime
from ..c18_blocks import exhaustive_block
from ..core import ROOT, Check, HarnessError, ddmin, proof_stage

PROP = "C18"

TRUSTED = [
    "Lean 4.33.0 kernel; axioms of every theorem audited to be within {propext, Classical.choice, Quot.sound}",
    "hand-written models lean/CashewsVerif/Model/{Bits,Indexes,Bloom}.lean of cashews/utils/_bitarray.py, cashews/utils/split_hash.py, "
    "cashews/decorators/bloom.py and Memory.get_bits/incr_bits, tied to the code by this run's correspondence",
    "zlib.crc32 (and any other entry of split_hash.algorithms) is uninterpreted: every theorem holds for an arbitrary hash; the harness "
    "feeds the model the real hash values of the probe strings (theorem indexes_depend_only_on_probes licenses the table)",
    "an element is the tuple of a call's bound arguments after defaults; its bloom key is taken from cashews.key.get_cache_key (C08's "
    "subject) applied to the CANONICAL call (every parameter by keyword, defaults filled in) - the decorator is then called in a randomly "
    "chosen equivalent call form and the indexes that reach the backend are compared with the model's; the filter parameters (m, k) come "
    "from params_for (floating point, not modelled; only 0 < k <= m is checked on a grid)",
    "typed elements: the harness tells elements apart by the types and reprs of their bound arguments (1, True and 1.0 are three elements: "
    "the key formatter renders them `1`, `true`, `1.0`) plus the value of a key-context variable the template mentions; elements whose "
    "keys coincide (1 and '1') are different elements that share all their indexes",
    "controls of the Cache facade (invalidate_further, disabling of one command, transaction blocks of the three modes) are opened by the "
    "harness around lookups / adds / expire / exists steps; they are no steps of the model (Model/Bloom.lean, 'controls of the facade'): "
    "inside a transaction block time does not pass and the filter's key is not deleted",
    "copies of bit-field values: the harness reads a bit-field key with `get` and writes what it got to another key with `set` / "
    "`set_many` (plainly or inside a transaction of its own); that `get` answers the array for such a key is the library's behaviour, "
    "the model only says that what is stored under `dst` is a copy (theorem mbits_refine_counters)",
    "virtual clock (harness/vtime.py, 1 tick = 1/8 s, dyadic TTLs); the backend runs with check_interval=0, i.e. without its purge task: a "
    "run-out entry stays physically stored until a command reads it (one sweep of the purge task on a key is what `exists` does to it)",
    "harness: canonicalisation (sorted index sets, truthiness of answers), recording middleware / Memory subclass, probe-limit wrapper "
    "around the hash functions",
    "Python's arbitrary-precision int operators (>>, <<, &, |, ~) agree with Lean's Nat operators (validated by the correspondence itself)",
]

PARTIAL = (
    "termination of get_indexes' re-probing loop is not proved for any hash (model carries fuel; indexes_spec is conditional on a result; "
    "the harness measures the re-probe counts that occur and bounds the real loop with a probe limit); params_for's floating-point formulas "
    "are not modelled (0 < k <= m checked on a capacity x false-positive grid only); crc32 is uninterpreted; the C-accelerated "
    "_bitarray_lib.Bitarray (used when the `bitarray` package is installed) and the xxhash algorithms are not installed here and not run; "
    "dual_bloom is tied to its model (its documentation allows false negatives, the property is about `bloom`) plus the one property-level "
    "statement that holds for it: an element it has recorded in its true filter is never answered False (theorem dual_recorded_never_false); "
    "dual_bloom's two keys are not given deadlines; the purge task of the in-memory backend is not run (its effect on a key = `exists`); "
    "a `delete` of the filter's key inside a transaction (deferred to the commit, which then also drops what was added in the block) and a "
    "rolled-back transaction around adds (the bits stay: bit fields are not buffered) are observed, not judged - transactions are not in "
    "the property's quantifier; unhashable / container arguments, Decimal and bytes elements are not generated; "
    "positional-only parameters, *args / **kwargs predicates and methods (self) are not among the generated signatures; Redis/diskcache "
    "bit-field commands belong to C19"
)

WIDTHS = [1, 2, 3, 4, 5, 6, 7, 8, 9, 10, 11, 12, 13, 15, 16, 3, 5, 7, 0]


# ------------------------------------------------------------------------------------------------
# generators (every random choice comes from chk.rng)
# ------------------------------------------------------------------------------------------------

def gen_by(rng, w: int) -> int:
    t = rng.random()
    if t < 0.35:
        b = rng.randint(0, 20)
    elif t < 0.65:
        b = rng.choice([(1 << w) - 2, (1 << w) - 1, 1 << w, (1 << w) + 1, (1 << w) + 2, 1 << 17, (1 << 17) - 1])
    else:
        b = rng.randint(0, 1 << 17)
    b = max(0, min(b, 1 << 17))
    return b if rng.random() < 0.55 else -b


def gen_incr1(rng) -> dict:
    w = rng.choice(WIDTHS)
    i = rng.randint(0, 63) if rng.random() < 0.6 else rng.randint(0, 7)
    nbits = rng.choice([0, w * (i + 1), w * (i + 2) + 3, rng.randint(1, 1024), 1024])
    a = rng.getrandbits(nbits) if nbits else 0
    if rng.random() < 0.25 and nbits:
        a = (1 << nbits) - 1          # all ones: every neighbour set, field saturated
    t = rng.random()
    if t < 0.8:
        return {"kind": "incr1", "op": "incr", "a": a, "i": i, "w": w, "by": gen_by(rng, w)}
    if t < 0.9:
        return {"kind": "incr1", "op": "set", "a": a, "i": i, "w": w, "v": rng.getrandbits(w + rng.choice([0, 0, 2]))}
    return {"kind": "incr1", "op": "get", "a": a, "i": i, "w": w}


def gen_incr1_small(rng) -> dict:
    """a sample of the space the thorough tier enumerates: index<8, width 1..4, |by|<=20, value<2^12"""
    return {"kind": "incr1", "op": "incr", "a": rng.getrandbits(12), "i": rng.randint(0, 7), "w": rng.randint(1, 4), "by": rng.randint(-20, 20)}


def gen_hist(rng, n: int) -> dict:
    cfg = bb.HIST_CFGS[n % len(bb.HIST_CFGS)]
    w = rng.choice(WIDTHS)
    nkeys = 1 if rng.random() < 0.7 else 2
    pool = [0, 1, 2, 3, 5, 8] if rng.random() < 0.7 else [0, 1, 2, rng.randint(3, 63), rng.randint(3, 63), 63]
    # bit-field keys live in the TTL store: about half of the histories that go through a backend also give keys a
    # deadline (`expire`), let virtual time pass - often exactly up to / just short of / past a deadline, with nothing
    # touching the key in between (no purge task) -, delete keys and probe them with `exists`
    timed = cfg != "bitarray" and rng.random() < 0.55
    # ... and a share of them moves bit-field VALUES between keys with get + set / set_many (also inside a transaction)
    copying = cfg != "bitarray" and rng.random() < 0.4
    if copying:
        nkeys = rng.choice([2, 2, 3])
    ops = []
    now = 0
    deadlines: dict = {}
    in_tx = False
    for _ in range(rng.randint(1, 25)):
        key = rng.randrange(nkeys)
        t = rng.random()
        if cfg == "facade" and rng.random() < 0.12:     # transaction blocks of the facade around bit-field commands
            ops.append(["end"] if in_tx else ["begin", rng.choice(["fast", "fast", "locked", "serializable"])])
            in_tx = not in_tx
        if timed and t < 0.36:
            u = rng.random()
            if u < 0.3:
                ttl = rng.choice([1, 2, 8, 9, 16, 80])
                ops.append(["expire", key, ttl])
                deadlines[key] = now + ttl      # (if the key is live; good enough to aim the clock)
            elif in_tx:
                ops.append(["touch", key])
            elif u < 0.8:
                pending = [d - now for d in deadlines.values() if d > now]
                if pending and rng.random() < 0.7:
                    dt = max(1, rng.choice(pending) + rng.choice([-1, 0, 0, 1, 8]))
                else:
                    dt = rng.choice([1, 7, 8, 9, 100])
                ops.append(["adv", dt])
                now += dt
            elif u < 0.9:
                ops.append(["del", key])
                deadlines.pop(key, None)
            else:
                ops.append(["touch", key])
            continue
        if copying and rng.random() < 0.15:
            # the bit-field VALUE of one key written to another (or the same) key with the value commands
            src, dst = rng.randrange(nkeys), rng.randrange(nkeys)
            how = rng.choice(bb.COPY_HOW)
            ops.append(["copy", src, dst, how, rng.choice([0, 0, 0, 8, 80]) if timed else 0])
            in_tx = False
            continue
        idxs = [rng.choice(pool) for _ in range(rng.choice([0, 1, 1, 2, 3, 4]))]
        if rng.random() < 0.65:
            by = rng.choice([1, 1, 1, -1, 2, -2, 3]) if rng.random() < 0.6 else gen_by(rng, w)
            ops.append(["incr", key, by, idxs])
        else:
            ops.append(["get", key, idxs])
    return {"kind": "hist", "cfg": cfg, "w": w, "ops": ops}


def gen_text(rng, maxlen: int) -> str:
    return "".join(rng.choice(bb.ALPHABET) for _ in range(rng.randint(0, maxlen)))


def gen_idx(rng) -> dict:
    key = gen_text(rng, 10)
    t = rng.random()
    if t < 0.5:
        m = rng.randint(1, 16)
    elif t < 0.7:
        m = rng.randint(17, 64)
    else:
        m = rng.choice([100, 255, 256, 1000, 4093, 65536, 10 ** 6, 2 ** 32, 2 ** 32 + 15])
    if m <= 64:
        u = rng.random()
        k = m if u < 0.3 else m - 1 if u < 0.4 else 0 if u < 0.43 else m + rng.randint(1, 3) if u < 0.48 else rng.randint(1, m)
    else:
        k = rng.randint(1, min(30, m // 2))
    c = {"kind": "idx", "key": key, "k": k, "m": m, "algs": "real" if rng.random() < 0.7 else "multi3"}
    if rng.random() < 0.25:     # a two-call case: the caller changes the set it was given and asks again with the same arguments
        c["mut"] = rng.choice(sorted(bb.MUTATIONS))
    return c


CAPS = [1, 2, 3, 5, 8, 13, 30, 100, 400]
FPS = [0.1, 1, 5, 10, 25, 50, 70, 80]


# values that are equal (and hash-equal) in Python but that the key formatter renders differently - and strings that render
# like one of them: 1 / True / 1.0 / "1", 0 / False / 0.0 / -0.0, 10**20 / 1e20, None / ""
TYPED_POOL = [0, 1, 2, True, False, 0.0, 1.0, 2.0, -0.0, None, -1, -1.0, "1", "true", "", "None", 0.5, 10 ** 20, 1e20, "a"]


def gen_element(rng, sig: str, serial: int, typed: bool = False) -> list:
    """the bound arguments of one call (after defaults); defaulted parameters hold their default most of the time"""
    names, _, defaults = bb.SIGS[sig]
    el = []
    for n in names:
        if n in defaults:
            el.append(defaults[n] if rng.random() < 0.65 else (rng.choice(TYPED_POOL) if typed else gen_text(rng, 3) + "v"))
        elif typed:
            el.append(rng.choice(TYPED_POOL[:12]) if rng.random() < 0.8 else rng.choice(TYPED_POOL))
        elif n == names[0]:
            el.append(gen_text(rng, 6) + str(serial))
        else:
            el.append(gen_text(rng, 3) + str(serial % 3))
    return el


def gen_sig(rng):
    sig = rng.choice(["k", "k", "k_t", "k_t", "k_kwt", "a_b", "k_t_u"])
    name = rng.choice(bb.SIG_NAMES[sig]) if rng.random() < 0.7 else None
    return sig, name


def gen_universe(rng, sig: str, size: int, typed: bool) -> list:
    universe, seen = [], set()
    for _ in range(40 * size):
        if len(universe) >= size:
            break
        e = gen_element(rng, sig, len(universe), typed)
        if bb.tid(e) not in seen:
            seen.add(bb.tid(e))
            universe.append(e)
    return universe


def gen_bloom(rng, n: int, big: int) -> dict:
    cap = rng.choice(CAPS)
    fp = rng.choice(FPS)
    sig, name = gen_sig(rng)
    # element alphabets beyond text: a third of the cases draws the arguments from ints / bools / floats / None and strings
    # that render like them - elements that are equal for Python (1 == True == 1.0) but are different elements of the filter
    typed = rng.random() < 0.35
    nadd = min(rng.choice([0, 1, max(1, cap // 2), cap, cap + 1, 2 * cap, 5 * cap]), big)
    if typed:
        nadd = min(nadd, rng.choice([2, 4, 8, 16]))
    universe = gen_universe(rng, sig, nadd + 12, typed)
    true_set = [e for e in universe if rng.random() < 0.8]
    adds = [rng.choice(universe) for _ in range(nadd)]
    # the key template may also mention a key-context variable: the element is then (arguments, value of the variable)
    ctx = name is not None and rng.random() < 0.15
    tns = ["A", "B", ""]         # (strings only: `{@:get(..)}` hands the raw value to str.join)
    opts = (lambda: [{"tn": rng.choice(tns)}]) if ctx else (lambda: [])
    # every add / query picks one of the element's equivalent call forms (positional / keyword / default omitted) at random
    form = lambda: rng.randrange(12)  # noqa: E731
    # the filter's key lives in the TTL store: a share of the cases rotates the filter (`expire` on its key), lets time
    # pass (up to / past the deadline, nothing touching the key in between), deletes or probes the key
    timed = rng.random() < 0.4
    ttl = rng.choice([2, 8, 16, 80])
    # lookups between the adds (also of elements that are added only later, and of their twins): a lookup must neither
    # change the filter nor be remembered
    p_look = 0.5 if typed or ctx else 0.1
    # the filter's VALUE copied to a backup key (get + set / set_many) and the backup wiped: the live filter must not notice
    backups = rng.random() < 0.25
    # controls of the facade opened around lookups / adds / commands on the filter's key: whatever is open, a lookup leaves
    # the filter intact and an added element is found afterwards
    p_ctl = 0.35 if n % 2 == 0 and rng.random() < 0.5 else 0.0

    def wrap(sts: list) -> list:
        if not (p_ctl and rng.random() < p_ctl):
            return sts
        ctl = rng.choice(["invalidate"] * 4 + ["tx:fast", "tx:fast", "tx:locked", "tx:serializable", "dis:get_bits", "dis:incr_bits"]
                         + ["dis:" + rng.choice(bb.HARMLESS_DISABLED)])
        inner = list(sts)
        for _ in range(rng.choice([0, 0, 1, 2])):
            inner.append(["query", rng.choice(universe), form()] + opts())
        if ctl.startswith("tx:"):       # time does not pass and the filter's key is not deleted inside a transaction block
            inner = [st for st in inner if st[0] not in ("adv", "del")]
            if timed and rng.random() < 0.5:
                inner.insert(rng.randrange(len(inner) + 1), ["expire", ttl])
        return [["in", ctl, inner]] if inner else []

    steps = []
    for e in adds:
        group = [["add", e, form()] + opts()]
        if rng.random() < p_look:
            group.insert(rng.randrange(2), ["query", rng.choice(universe), form()] + opts())
        if backups and rng.random() < 0.2:
            steps.append(["backup", rng.choice(["set", "set_many"])])
        if timed and rng.random() < 0.5:
            u = rng.random()
            if u < 0.35:
                group.append(["expire", ttl])
            elif u < 0.8:
                group.append(["adv", rng.choice([1, ttl - 1, ttl, ttl, ttl + 1])])
            elif u < 0.9:
                group.append(["touch"])
            else:
                group.append(["del"])
        steps += wrap(group)
    queries = []
    for e in adds + universe[-12:]:
        if not any(bb.tid(e) == bb.tid(q) for q in queries):
            queries.append(e)
    rng.shuffle(queries)
    for e in queries[:big]:
        for tn in (tns if ctx else [None]):
            steps += wrap([["query", e, form()] + ([{"tn": tn}] if ctx else [])])
    return {"kind": "bloom", "via": "facade" if n % 2 == 0 else "direct", "capacity": cap, "fp": fp, "chk": rng.random() < 0.5,
            "sig": sig, "name": name, "ctx": ctx, "truthy": rng.choice(["bool", "bool", "int", "str", "none"]),
            "true_set": true_set, "steps": steps}


def gen_dual(rng, n: int) -> dict:
    cap = rng.choice([1, 2, 3, 5, 8, 30])
    capacity = cap if rng.random() < 0.6 else [cap, rng.choice([1, 3, 10])]
    false = rng.choice([1, 5, 20, 50]) if rng.random() < 0.6 else [rng.choice([1, 10]), rng.choice([5, 50])]
    sig, name = gen_sig(rng)
    universe = gen_universe(rng, sig, rng.randint(2, 3 * cap + 6), rng.random() < 0.3)
    true_set = [e for e in universe if rng.random() < 0.5]
    calls = [[rng.choice(universe), rng.randrange(12)] for _ in range(rng.randint(1, 40))]      # [element, call form]
    return {"kind": "dual", "via": "facade" if n % 2 == 0 else "direct", "capacity": capacity, "false": false,
            "no_collisions": rng.random() < 0.5, "sig": sig, "name": name, "true_set": true_set, "calls": calls}


PARAM_CAPS = list(range(1, 65)) + [100, 128, 1000, 4096, 10 ** 4, 10 ** 5, 10 ** 6, 10 ** 7, 10 ** 9]
PARAM_FPS = [0.0001, 0.001, 0.01, 0.1, 0.5, 1, 2, 3, 5, 7.5, 10, 15, 20, 25, 30, 40, 50, 60, 65, 70, 70.7, 71, 75, 80, 90, 99, 99.9]


# ------------------------------------------------------------------------------------------------
# exhaustive bit-field sub-spaces (fast path: no per-case dicts)
# ------------------------------------------------------------------------------------------------

def in_enumerated(chk: Check, c: dict) -> bool:
    """is this generated case a member of the sub-space this tier enumerates (so it is not counted twice)?"""
    if c["kind"] != "incr1" or c["op"] != "incr":
        return False
    if chk.thorough:
        return c["i"] < 8 and 1 <= c["w"] <= 4 and abs(c["by"]) <= 20 and c["a"] < 1 << 12
    return c["i"] < 4 and 1 <= c["w"] <= 3 and abs(c["by"]) <= 4 and c["a"] < 1 << 6


def run_exhaustive(chk: Check):
    """quick: the sub-space index<4, width<=3, |by|<=4, value<2^6 completely; thorough: index<8, width<=4, |by|<=20,
    value<2^12 completely (5.4 million cases, in parallel worker processes)"""
    if chk.thorough:
        blocks = [(i, w, 20, 12) for i in range(8) for w in range(1, 5)]
        desc = "index<8 x width 1..4 x |by|<=20 x value<2^12"
    else:
        blocks = [(i, w, 4, 6) for i in range(4) for w in range(1, 4)]
        desc = "index<4 x width 1..3 x |by|<=4 x value<2^6"
    if chk.thorough:
        nproc = min(8, os.cpu_count() or 1)
        procs = [subprocess.Popen([sys.executable, "-m", "harness.c18_blocks"] + [",".join(map(str, b)) for b in blocks[n::nproc]],
                                  cwd=ROOT, stdout=subprocess.PIPE, stderr=subprocess.PIPE, text=True) for n in range(nproc)]
        results = []
        for p in procs:
            out, err = p.communicate()
            if p.returncode != 0:
                raise HarnessError(f"enumeration worker failed: {err[-400:]}")
            results += [tuple(r) for r in json.loads(out)]
    else:
        results = [exhaustive_block(*b) for b in blocks]
    total = sum(r[0] for r in results)
    nontrivial = sum(r[1] for r in results)
    bads = [r[2] for r in results if r[2] is not None]
    return desc, total, nontrivial, bads


# ------------------------------------------------------------------------------------------------
# shrinking and reporting
# ------------------------------------------------------------------------------------------------

_FIRST_RES: dict = {}      # first evaluation of every case the shrinker tried (a two-call case is only clean the first time when results are remembered)


def still_bad(case: dict, want_spec: bool) -> bool:
    r = bb.evaluate([case])[0]
    _FIRST_RES.setdefault(json.dumps(case, sort_keys=True), r)
    return r.diff_spec is not None if want_spec else r.bad


def shrink(case: dict, want_spec: bool) -> dict:
    kind = case["kind"]
    f = lambda c: still_bad(c, want_spec)  # noqa: E731
    if kind == "incr1":
        cur = dict(case)
        for _ in range(80):
            progressed = False
            cands = []
            a = cur["a"]
            fmask = ((1 << cur["w"]) - 1) << (cur["i"] * cur["w"])
            cands += [dict(cur, a=0), dict(cur, a=a & fmask), dict(cur, a=a & (fmask | fmask << cur["w"] | fmask >> cur["w"]))]
            cands += [dict(cur, a=a & ~(1 << b)) for b in range(a.bit_length()) if a >> b & 1][:80]
            if cur["i"]:
                cands += [dict(cur, i=0), dict(cur, i=cur["i"] // 2), dict(cur, i=cur["i"] - 1)]
            if cur["op"] == "incr" and cur["by"]:
                by = cur["by"]
                cands += [dict(cur, by=by // abs(by)), dict(cur, by=int(by / 2)), dict(cur, by=by - by // abs(by))]
            if cur["op"] == "set" and cur["v"]:
                cands += [dict(cur, v=cur["v"] >> 1), dict(cur, v=cur["v"] & (cur["v"] - 1))]
            for c in cands:
                if c != cur and f(c):
                    cur, progressed = c, True
                    break               # candidates were built from the old `cur`: rebuild them
            if not progressed:
                break
        return cur
    if kind == "hist":
        ops = ddmin(case["ops"], lambda o: f(dict(case, ops=o)))
        cur = dict(case, ops=ops)
        for n, op in enumerate(list(cur["ops"])):
            idxs = op[-1]
            if op[0] in ("incr", "get") and len(idxs) > 1:
                small = ddmin(idxs, lambda l: f(dict(cur, ops=cur["ops"][:n] + [op[:-1] + [l]] + cur["ops"][n + 1:])))
                cur = dict(cur, ops=cur["ops"][:n] + [op[:-1] + [small]] + cur["ops"][n + 1:])
        return cur
    if kind == "idx":
        key = "".join(ddmin(list(case["key"]), lambda l: f(dict(case, key="".join(l))))) if len(case["key"]) > 1 else case["key"]
        cur = dict(case, key=key)
        if cur["key"] and f(dict(cur, key="")):
            cur = dict(cur, key="")
        for _ in range(60):
            k, m = cur["k"], cur["m"]
            cands = [(k // 2, m // 2), (k // 2, m), (k - 1, m - 1), (k, m - 1), (k - 1, m)]
            for k2, m2 in cands:
                if 0 <= k2 and 0 <= m2 and (k2, m2) != (k, m) and (k2 <= m2) == (k <= m) and f(dict(cur, k=k2, m=m2)):
                    cur = dict(cur, k=k2, m=m2)
                    break
            else:
                break
        if cur["algs"] != "real" and f(dict(cur, algs="real")):
            cur = dict(cur, algs="real")
        return cur
    if kind == "bloom":
        cur = dict(case, steps=ddmin(case["steps"], lambda s: f(dict(case, steps=s))))
        for _ in range(3):      # control blocks: drop the block (keep its steps), else shrink its steps
            changed = False
            for n, st in enumerate(list(cur["steps"])):
                if n >= len(cur["steps"]) or cur["steps"][n] is not st or st[0] != "in":
                    continue
                flat = cur["steps"][:n] + st[2] + cur["steps"][n + 1:]
                if f(dict(cur, steps=flat)):
                    cur, changed = dict(cur, steps=flat), True
                    break
                if len(st[2]) > 1:
                    inner = ddmin(st[2], lambda l: bool(l) and f(dict(cur, steps=cur["steps"][:n] + [[st[0], st[1], l]] + cur["steps"][n + 1:])))
                    if len(inner) < len(st[2]):
                        cur, changed = dict(cur, steps=cur["steps"][:n] + [[st[0], st[1], inner]] + cur["steps"][n + 1:]), True
                        break
            if not changed:
                break
        if len(cur["steps"]) > 1:
            cur = dict(cur, steps=ddmin(cur["steps"], lambda s: f(dict(cur, steps=s))))
        used = [st[1] for st, _, _ in bb.flat_steps(cur["steps"]) if st[0] in ("add", "query")]
        return _shrink_elements(cur, used, f)
    if kind == "dual":
        cur = dict(case, calls=ddmin(case["calls"], lambda s: f(dict(case, calls=s))))
        return _shrink_elements(cur, [c[0] if isinstance(c, list) else c for c in cur["calls"]], f)
    return case


def _shrink_elements(cur: dict, used: list, f) -> dict:
    """keep only the elements the remaining steps mention in `true_set`"""
    ids = {bb.tid(e) for e in used}
    keep = [e for e in cur["true_set"] if bb.tid(e) in ids]
    if keep != cur["true_set"] and f(dict(cur, true_set=keep)):
        cur = dict(cur, true_set=keep)
    return cur


SIGNATURES = {"incr1": "bitfield-single-command", "hist": "bitfield-history", "idx": "get_indexes", "bloom": "bloom-false-negative",
              "dual": "dual_bloom-model", "params": "params_for"}


D53 = "D53:tx-expire-snapshot-clobbers-bitfield"


def _without_tx_expire(case: dict):
    """the same case with every transaction block that holds an `expire` of a bit-field key opened up (None if there is none)"""
    if case["kind"] == "bloom":
        steps, hit = [], False
        for st in case["steps"]:
            if st[0] == "in" and st[1].startswith("tx:") and any(i[0] == "expire" for i in st[2]):
                steps += st[2]
                hit = True
            else:
                steps.append(st)
        return dict(case, steps=steps) if hit else None
    if case["kind"] == "hist":
        ops, hit, open_at, seen_expire = [], False, None, False
        for op in case["ops"] + [["end"]]:
            if op[0] in ("begin", "end", "del", "adv", "copy"):     # whatever ends the open block (see bitsbloom._hist_impl)
                if open_at is not None and seen_expire:
                    del ops[open_at]
                    hit = True
                open_at, seen_expire = (len(ops), False) if op[0] == "begin" else (None, False)
            elif op[0] == "expire" and open_at is not None:
                seen_expire = True
            ops.append(op)
        ops.pop()
        return dict(case, ops=ops) if hit else None
    return None


def classify(small: dict) -> str:
    """the stable signature of a property violation.  D53 (proposed_fixes/pending): inside a transaction `expire` of a bit-field
    key snapshots the array into the overlay and the commit writes the snapshot back over the increments made meanwhile - a
    failing case that passes once its transaction blocks with an `expire` are opened up is that defect"""
    alt = _without_tx_expire(small)
    if alt is not None and not bb.evaluate([alt])[0].bad:
        return D53
    return SIGNATURES[small["kind"]]


def report_history_dependent(chk: Check, case: dict, origin: str, seen: set, res0, history: list) -> bool:
    """a case that failed in the run but does not fail (or not in the same way) when evaluated again on its own: the outcome
    depends on what was called before.  That is itself a finding ("the index function is deterministic"; a filter's answer
    is a function of the adds): replay the case after the earlier cases with the same arguments, and report either way."""
    same = lambda a, b: a["kind"] == b["kind"] and (a["kind"] != "idx" or (a["key"], a["k"], a["m"]) == (b["key"], b["k"], b["m"]))  # noqa: E731
    preds = [c for c in history if c is not case and same(c, case)]
    if case["kind"] != "idx":
        preds = []
    group = preds[-6:] + [case]
    res = bb.evaluate(group)[-1]
    ident = "history|" + json.dumps(case, sort_keys=True)
    if ident in seen:
        return False
    seen.add(ident)
    in_run = (res0.diff_spec or res0.diff_model) if res0 is not None else None
    if res.bad and len(group) > 1:
        what = (f"the outcome depends on earlier calls: evaluated on its own the case passes, after {len(group) - 1} earlier call(s) with the same "
                f"arguments: {res.diff_spec or res.diff_model}")
        replay = {"cases": group, "trace": res.trace, "diff_vs_property": res.diff_spec, "diff_vs_model": res.diff_model}
    else:
        what = f"the outcome depends on earlier calls: in the run the case gave `{in_run}`, evaluated again on its own it does not"
        replay = {"case": case, "trace_in_the_run": res0.trace if res0 is not None else None, "diff_in_the_run": in_run,
                  "preceding_cases_with_the_same_arguments": preds[-6:]}
    replay.update({"origin": origin, "replay_cmd": "./check C18 --replay <this file>"})
    if case["kind"] == "idx" or (res0 is not None and res0.diff_spec is not None):
        chk.violation(what, replay, signature=SIGNATURES[case["kind"]] + "-history-dependent")
    else:
        chk.violation("correspondence broken (the property still holds on this case): " + what,
                      dict(replay, broken=f"correspondence Lean model <-> cashews ({case['kind']})"), signature=None, no_input=True)
    return True


def report(chk: Check, case: dict, origin: str, seen: set, res0=None, history: list | None = None) -> bool:
    """shrink one failing case and report it (False if an identical shrunk case was reported already)"""
    first = bb.evaluate([case])[0]
    if case.get("mut"):
        # a self-contained two-call case (the caller changes the result, the same call again).  If the library remembers
        # results, a repetition of the case starts from what the previous repetition left behind: keep the first evaluation
        if not first.bad and res0 is None:
            return report_history_dependent(chk, case, origin, seen, res0, history or [])
        first = res0 if res0 is not None and res0.bad else first
        _FIRST_RES.setdefault(json.dumps(case, sort_keys=True), first)
    else:
        again = bb.evaluate([case])[0]
        if not first.bad or (first.diff_spec, first.diff_model) != (again.diff_spec, again.diff_model):
            return report_history_dependent(chk, case, origin, seen, res0, history or [])
    want_spec = first.diff_spec is not None
    # (a two-call case is reported as generated: its arguments are small already, and every probe of the shrinker would leave
    # its own traces in a library that remembers results - the smaller cases all meet at key '' / k = m = 0)
    small = case if case.get("mut") else shrink(case, want_spec)
    r = (_FIRST_RES.get(json.dumps(small, sort_keys=True)) if small.get("mut") else None) or bb.evaluate([small])[0]
    if not r.bad:
        small, r = case, first
    ident = json.dumps(small, sort_keys=True)
    text = f"{small['kind']}|{r.diff_spec}|{r.diff_model}"
    if ident in seen or text in seen:
        return False
    seen.update((ident, text))
    replay = {"case": small, "trace": r.trace, "diff_vs_property": r.diff_spec, "diff_vs_model": r.diff_model, "origin": origin,
              "replay_cmd": "./check C18 --replay <this file>"}
    if r.diff_spec is not None:
        chk.violation(r.diff_spec, replay, signature=classify(small))
    else:
        chk.violation("correspondence broken (the property still holds on this case): " + r.diff_model,
                      dict(replay, broken=f"correspondence Lean model <-> cashews ({small['kind']})"), signature=None, no_input=True)
    return True


def report_all(chk: Check, bad: list, cases: list | None = None) -> int:
    """`bad` = every failing (origin, case, Res) of the whole run.  Cases on which the implementation contradicts the
    PROPERTY come first (at most three, different kinds of case preferred); a difference from the model alone is
    reported (no-failing-input-found) only when the whole search found no case that contradicts the property."""
    seen: set = set()
    reported = 0
    spec = [b for b in bad if b[2].diff_spec is not None]
    pool = sorted(spec if spec else bad, key=lambda b: 0 if b[1].get("mut") else 1)     # (stable) self-contained two-call cases first
    limit = 3 if spec else 2
    order, kinds = [], set()
    for b in pool:                       # one per kind first
        if b[1]["kind"] not in kinds:
            kinds.add(b[1]["kind"])
            order.append(b)
    order += [b for b in pool if b not in order][:10]
    for origin, case, res0 in order:
        if reported >= limit:
            break
        pos = next((i for i, (_, c) in enumerate(cases or []) if c is case), None)
        history = [c for _, c in (cases or [])[:pos]] if pos is not None else []
        if report(chk, case, origin, seen, res0, history):
            reported += 1
    return reported


def corpus_cases():
    d = ROOT / "corpus" / PROP
    for f in sorted(d.glob("*.json")):
        c = json.loads(f.read_text())
        for n, case in enumerate(c["cases"] if "cases" in c else [c["case"]]):
            yield f"{f.name}#{n}", case


# ------------------------------------------------------------------------------------------------

def run(chk: Check) -> int:
    proof = proof_stage(PROP, "driver_c18", chk.thorough) if not getattr(chk, "skip_proof", False) else None
    rng = chk.rng
    t0 = vtime.REAL_PERF()
    cases: list[tuple[str, dict]] = [("corpus:" + n, c) for n, c in corpus_cases()]
    ncorpus = len(cases)
    counts = {
        "incr1": chk.budget(30000, 300000),
        "incr1_small": chk.budget(30000, 0),      # thorough enumerates this space completely instead
        "hist": chk.budget(3000, 30000),
        "idx": chk.budget(4000, 40000),
        "bloom": chk.budget(300, 1500),
        "dual": chk.budget(150, 600),
    }
    big = chk.budget(150, 500)
    for n in range(counts["incr1"]):
        cases.append((f"gen:incr1:{n}", gen_incr1(rng)))
    for n in range(counts["incr1_small"]):
        cases.append((f"gen:incr1_small:{n}", gen_incr1_small(rng)))
    for n in range(counts["hist"]):
        cases.append((f"gen:hist:{n}", gen_hist(rng, n)))
    for n in range(counts["idx"]):
        cases.append((f"gen:idx:{n}", gen_idx(rng)))
    for n in range(counts["bloom"]):
        cases.append((f"gen:bloom:{n}", gen_bloom(rng, n, big)))
    for n in range(counts["dual"]):
        cases.append((f"gen:dual:{n}", gen_dual(rng, n)))
    for cap in PARAM_CAPS:
        for fp in PARAM_FPS:
            cases.append(("grid:params", {"kind": "params", "capacity": cap, "fp": fp}))

    bad: list = []
    evaluations = 0
    by_kind: dict = {}
    interesting: dict = {}
    distinct = set()
    samples: dict = {}
    reprobe_hist: dict = {}
    max_reprobe: dict = {}
    bloom_added_queries = 0
    CHUNK = {"incr1": 20000, "hist": 2000, "idx": 1000, "bloom": 40, "dual": 100, "params": 5000}
    chunks = []
    for kind, size in CHUNK.items():
        sel = [oc for oc in cases if oc[1]["kind"] == kind]
        chunks += [sel[lo:lo + size] for lo in range(0, len(sel), size)]
    if sum(len(c) for c in chunks) != len(cases):
        raise HarnessError("case of unknown kind")
    phase_s: dict = {}
    for chunk in chunks:
        t1 = vtime.REAL_PERF()
        results = bb.evaluate([c for _, c in chunk])
        k0 = chunk[0][1]["kind"]
        phase_s[k0] = round(phase_s.get(k0, 0) + vtime.REAL_PERF() - t1, 2)
        if os.environ.get("VERIF_DEBUG"):
            print(f"[c18] {k0} chunk of {len(chunk)}: {vtime.REAL_PERF() - t1:.1f}s (total {vtime.REAL_PERF() - t0:.0f}s)", file=sys.stderr, flush=True)
        for (origin, case), r in zip(chunk, results):
            evaluations += 1
            kind = case["kind"]
            by_kind[kind] = by_kind.get(kind, 0) + 1
            for s in r.stats:
                interesting[f"{kind}:{s}"] = interesting.get(f"{kind}:{s}", 0) + 1
            if r.stats - {"params_ok", "params_rejected"} and not in_enumerated(chk, case):
                distinct.add(hash(json.dumps(case, sort_keys=True)))
            if kind == "idx" and "max_reprobes" in r.trace[0]:
                re_ = r.trace[0]["max_reprobes"]
                max_reprobe[case["algs"]] = max(max_reprobe.get(case["algs"], 0), re_)
                b = "0" if re_ == 0 else "1-3" if re_ <= 3 else "4-15" if re_ <= 15 else "16-63" if re_ <= 63 else "64-255" if re_ <= 255 else ">=256"
                reprobe_hist[b] = reprobe_hist.get(b, 0) + 1
            if kind == "bloom":
                bloom_added_queries += sum(1 for st in r.trace[1:] if st["kind"] == "query" and st["impl"] == "T")
            if kind not in samples and r.stats and len(json.dumps(case)) < 260 and not origin.startswith("corpus"):
                samples[kind] = {"case": case, "impl": [t.get("impl") for t in r.trace if isinstance(t, dict) and "impl" in t][:8]}
            if r.bad:
                bad.append((origin, case, r))
    # exhaustive sub-space of the bit-field commands
    t1 = vtime.REAL_PERF()
    ex_desc, ex_total, ex_nontrivial, ex_bad = run_exhaustive(chk)
    phase_s["incr1_exhaustive"] = round(vtime.REAL_PERF() - t1, 2)
    evaluations += ex_total
    by_kind["incr1_exhaustive"] = ex_total
    for case in ex_bad[:3]:
        bad.append(("exhaustive", case, bb.evaluate([case])[0]))
    found = report_all(chk, bad, cases) if bad else 0
    if proof is not None:
        chk.proof_broken(proof, any(b[2].diff_spec is not None for b in bad))
    chk.coverage.update({
        "evaluations": evaluations,
        "distinct_nontrivial": len(distinct) + ex_nontrivial,
        "rule": "a case is non-trivial iff it reached an interesting state: bit fields - the counter is clipped at 2^w-1 or at 0, or other "
                "fields are non-zero while one is written (counted separately for widths that are not powers of two), an index repeated "
                "in one command, a never-written field read, two keys interleaved, a deadline set / kept by an increment / passed, an "
                "increment or read on a run-out entry nothing has touched since its deadline (still physically stored), a live array deleted; "
                "get_indexes - at least one re-probe, k = m, k > m (assertion), the same call again after the caller changed the set it was given; bloom - a query for an added element (also beyond capacity, "
                "also in another call form than the one it was added through), a false positive observed, the decorator refusing its "
                "parameters, an add / query on a run-out unpurged filter key, a filter deadline set / passed; dual_bloom - an answer given "
                "from the filters alone, a call for an element recorded as true (also in another call form); bloom also - a lookup of an element "
                "that has an equal-but-differently-rendered twin (1 / True / 1.0) in the same filter, a query of an added element whose twin "
                "was looked up before, a step inside an invalidate_further / disabling / transaction block, a query of an added element "
                "inside such a block and after a lookup inside one; bit fields also - a command / an expire inside a transaction block; "
                "bit fields also - a bit-field VALUE copied to another key / to itself with get + set / set_many (also inside a transaction, also from "
                "a run-out unpurged entry), an increment of a key that was copied from or to, a read of its copy partner afterwards; bloom "
                "also - the filter's value copied to a backup key and the backup wiped; params_for cases are never counted. "
                "distinct = distinct canonical case (JSON) among generated ones + the enumerated non-trivial ones",
        "exhaustive": True,
        "exhaustive_subspaces": [
            f"Bitarray.incr on every ({ex_desc}): {ex_total} cases, each compared with the Lean model and with the closed-form counter arithmetic",
            f"params_for on the whole {len(PARAM_CAPS)} x {len(PARAM_FPS)} capacity x false-positive grid (0 < k <= m or documented refusal)",
        ],
        "generated": counts,
        "cases_by_kind": by_kind,
        "corpus_cases": ncorpus,
        "failing_cases": len(bad),
        "interesting_states_cases": dict(sorted(interesting.items())),
        "get_indexes_max_reprobes_per_bucket": max_reprobe,
        "get_indexes_reprobe_histogram": reprobe_hist,
        "bloom_queries_answered_true": bloom_added_queries,
        "samples": list(samples.values())[:6],
        "trusted_base": TRUSTED,
        "partial": PARTIAL,
        "phase_wall_s": phase_s,
        "correspondence_wall_s": round(vtime.REAL_PERF() - t0, 2),
    })
    chk.assumptions.extend(TRUSTED)
    return chk.finish(proof)


def replay(chk: Check, path: str) -> int:
    c = json.loads(Path(path).read_text())
    cases = c["cases"] if "cases" in c else [c["case"]]
    bad = 0
    for case, r in zip(cases, bb.evaluate(cases)):
        print(json.dumps(case, ensure_ascii=False)[:600])
        for t in r.trace:
            print("   ", json.dumps(t, ensure_ascii=False, default=str)[:400])
        if r.diff_spec:
            print("  PROPERTY:", r.diff_spec)
        if r.diff_model:
            print("  MODEL:", r.diff_model)
        bad += r.bad
    if not bad:
        print("replay: no disagreement")
        return 0
    print(f"VIOLATION property={PROP} replay={path}")
    return 1
