"""C02 - a cached call returns only a fresh real result for the same arguments; the iterator decorator replays
one complete run; every TTL spelling denotes the same number of seconds.

proof: lean/CashewsVerif/Props/C02.lean (invariants of the simple-cache / iterator state machines over the ideal
       TTL map, for every history, script, condition and TTL function; duration-string parser against the unit
       table regenerated from cashews/ttl.py by harness/ttlgen.py on every run).
tie:   generated call histories (argument tuples - among them tuples that are equal but different arguments:
       1 / True / 1.0 ... - x every call form x time advances x scripts x conditions x TTL spellings x, for the iterator,
       consumers that drain / stop early / are cancelled) run on the real `Cache('mem://')` through `cache.cache` / `cache.iterator` under the virtual
       clock and on the model driver; compared per call:  impl == model (correspondence)  and  impl satisfies the
       property statement (spec oracle in harness/decorhist.py).  TTL parser: enumerated table impl / model / meaning.
       Scripted failures come from a family of exception classes x payload shapes (plain, message built in __init__,
       two positional / keyword-only constructor arguments, re-ordered args, attributes + note, `from cause`, own
       __reduce__); whatever exception a caller receives is compared with what the execution raised by a complete,
       identity-independent observation (type, args, str(), attributes, notes, cause) - `decorhist.observe`.
"""
from __future__ import annotations

import itertools
import json
from pathlib import Path

from .. import decorhist as dh
from .. import ttlgen
from ..core import ROOT, Check, Driver, HarnessError, ddmin, lake, proof_stage
from ..decorhist import tohex

PROP = "C02"
DRIVER = Driver("driver_c02", "Drivers/C02.lean")

TRUSTED = [
    "Lean 4.33.0 kernel; axioms of every theorem audited to be within {propext, Classical.choice, Quot.sound}",
    "hand-written models lean/CashewsVerif/Model/Decor/{Simple,Iterator}.lean and Model/Ttl.lean of cashews/decorators/cache/"
    "{simple,iterator}.py, cashews/ttl.py, cache_condition.py, wrapper/time_condition.py, tied to the code by this run's correspondence",
    "the decorator models are written over the ideal TTL map (Spec/TtlMap.lean), which C01 proves the in-memory backend refines",
    "the wrapped function is a script of outcomes with durations (hypothesis-free: theorems quantify over every script)",
    "key derivation from the bound arguments is C08's subject: here every call form of the same bound arguments is checked to hit the same entry, "
    "and argument tuples that are == / hash-equal but render to different keys (1 / True / 1.0, 0 / False / 0.0, 2 / 2.0) are different bound "
    "arguments (identity of a bound argument = its type and value, which is what the key formatter renders)",
    "harness: virtual clock (harness/vtime.py), canonicalisation of results, the Python spec oracle (harness/decorhist.py), "
    "the AST reader of _STR_TO_DELTA (harness/ttlgen.py)",
    "a caller of the basic decorator may be cancelled while the function is running (the harness holds the function at its first await until the "
    "caller's task is cancelled, then lets it go on): under thunder protection the call completes, without it the execution is cut short before "
    "it computed anything and counts as no execution",
    "a result-dependent ttl callable of the harness behaves like a user's: an exception is what isinstance(result, Exception) says, any object it "
    "does not know is an ordinary answer; what it is handed after an execution is compared with the outcome of that execution",
    "sequential calls only (single-flight / concurrency is C07); a stream is drained, or its consumer stops after n elements (aclose / dropped and "
    "finalised by the event loop / cancelled between two items) or is cancelled while the generator works on a given step; every dropped stream "
    "is finalised before the next call starts; no time passes during a replay",
    "an exception is observed through type, args, str(), instance attributes, notes and __cause__ (type and args); __traceback__ and "
    "__context__ are not compared; the model's payload id of an exception stands for exactly this observation",
    "with secret= (pickling serializer) only exception shapes that pickle itself rebuilds faithfully are scripted (plain class, plain class "
    "with attributes and a note, a class with its own __reduce__): what pickle does to a value is C09/C10's subject",
]

PARTIAL = ("not modelled / not sampled: ttl=None and ttl=0 ('no ttl'; theorems treat 0 as such), non-dyadic TTLs, non-ASCII duration strings "
           "(str.isdigit/lower/strip are modelled on ASCII), a condition callable that returns an exception instance for a normal result, "
           "a function that *returns* an exception instance (basic decorator; generators may yield them), items that the CONSUMER mutates before the "
           "generator is resumed, nested mutable items (the in-memory backend keeps a shallow copy), yielded exception objects whose class "
           "copy.copy / pickle do not rebuild (shapes 1-4, 6) or that are falsy, consumers that let time pass while reading a replay or leave a stream suspended while "
           "other calls are made (interleaved consumers are C07's kind of history), callers that JOIN an in-flight call and cancellation in the middle "
           "of a slow function (the function is held before it does any work), "
           "equal-but-different arguments beyond int / bool / float (IntEnum members, Decimal), "
           "the legacy marker value True, tags=, lock=, upper=; exceptions that are not `Exception`s (CancelledError, KeyboardInterrupt), "
           "__traceback__ / __context__ of a replayed exception, exception classes that do not survive pickling under secret=; "
           "exception shape 8 (an instance that is falsy: the pinned tree returns it instead of raising it - finding reported in "
           "proposed_fixes/C02_falsy_exception_returned.diff, shape not drawn until repaired or registered)")

SIMPLE_CONDS = ["all", "nn", "we:", "we:1", "we:0+2", "oe:", "oe:1", "tc:0", "tc:1", "tc:8",
                "fn:TTTFFF", "fn:TFTXFX", "fn:yyyyyy", "fn:zTyXyT", "fn:TTFXXX", "fn:FFFFFF", "fn:XXXXXX",
                # time_condition= together with condition=: both have to accept
                "tc:0&nn", "tc:1&nn", "tc:1&we:1", "tc:0&oe:", "tc:1&fn:TFTXFX", "tc:8&all"]
ITER_CONDS = ["all", "nn", "we:", "we:1", "oe:", "fn:TTTFFF", "fn:TFTXFX", "fn:yyyXXX", "fn:yzyXyX", "fn:TTTXXX", "fn:XXXXXX"]


SIGS = ["ab", "ab", "ab", "kw", "kw", "va", "vk"]
KEYTPLS = {"ab": [None, None, "{a}:{b}", "k-{a}-{b}"], "kw": [None, None, "{a}:{b}", "k-{a}-{b}"],
           "va": [None, None, "{a}:{__args__}", "k-{a}-{__args__}"], "vk": [None, None, "{a}:{__kwargs__}", "k-{a}-{__kwargs__}"]}


def ttl_choices(rng):
    """(driver spelling, representative ticks) - every spelling family of the property"""
    fam = rng.randrange(8)
    if fam == 0:
        s = rng.choice([1, 2])
        return f"i{s}", 8 * s
    if fam == 1:
        t = rng.choice([1, 3, 4, 8, 12, 16])
        return f"f{t}", t
    if fam == 2:
        t = rng.choice([2, 4, 8, 12, 24])
        return f"d{t}", t
    if fam == 3:
        text, secs = rng.choice([("1", 1), ("2", 2), ("1s", 1), ("2s", 2), (" 1S ", 1), ("1m", 60), ("1m2s", 62), ("0h1s", 1), ("0d0h0m3s", 3)])
        return "s" + tohex(text), 8 * secs
    if fam == 4:   # callable returning a constant, any inner spelling
        inner, t = rng.choice([("i1", 8), ("f4", 4), ("d12", 12), ("s" + tohex("2s"), 16)])
        return f"ck:{inner}", t
    if fam == 5:   # callable of the arguments
        ps = [rng.choice(["i1", "f4", "f8", "d12", "i2", "s" + tohex("1s"), "f2"]) for _ in range(4)]
        return "ck:" + ",".join(ps), 8
    if fam == 6:   # callable of the result
        ps = [rng.choice(["i1", "f4", "f8", "d12", "i2", "f2"]) for _ in range(4)]
        return "cr:" + ",".join(ps), 8
    t = rng.choice([4, 8])
    return f"f{t}", t


def exc_kind(rng, config) -> str:
    """an exception outcome: class x payload shape (plain class, message built in __init__, several / keyword-only
    constructor arguments, re-ordered args, attributes + note, `from cause`, own __reduce__); under the pickling
    configuration only shapes that pickle itself rebuilds faithfully"""
    c = rng.randrange(3)
    shape = rng.choice(dh.PICKLE_FAITHFUL) if config == "secret" else rng.choice([0, 0] + dh.GENERATED_SHAPES)
    return f"e{c}" if shape == 0 else f"e{c}p{shape}"


def advances(rng, t):
    return rng.choice([1, 1, t - 1 if t > 1 else 1, t, t, t + 1, max(1, t // 2), 2 * t, 4, 8])


def key_palette(rng, nkeys, sig="ab"):
    """the bound-argument tuples (key ids into dh.ARGS) one case calls its function with, and a preferred call form.
    2 in 5 cases draw them from ONE equality class - tuples that are == / hash-equal but are different arguments
    (1 / True / 1.0, 0 / False / 0.0, 2 / 2.0): every pair of them, in both orders, has to be kept apart; such cases
    mostly stick to one call form (whatever confuses equal values does so for one spelling of the call)."""
    if sig in ("va", "vk"):
        # functions with *rest / **opts: tuples that differ only in the overflow, in the call form that has no keyword (va)
        n = 8       # (the two colliding tuples of the known finding at the end of ARGS_VA are not drawn)
        return rng.sample(range(n), min(n, max(2, nkeys))), 0, (0.8 if sig == "va" else 0.4)
    r = rng.random()
    if r < 0.4:
        cls = rng.choice(dh.EQ_CLASSES + [dh.EQ_CLASSES[0]])
        keys = rng.sample(cls, min(len(cls), max(2, nkeys)))
        return keys, rng.randrange(6), 0.7
    if r < 0.5:
        return rng.sample(range(len(dh.ARGS)), min(len(dh.ARGS), max(2, nkeys))), rng.randrange(6), 0.5
    return list(range(nkeys)), 0, 0.0


def draw_call(rng, palette):
    keys, form, stick = palette
    return ["call", rng.choice(keys), form if rng.random() < stick else rng.randrange(6)]


def gen_simple(rng, iterish=False) -> dict:
    ttl, t = ttl_choices(rng)
    cond = rng.choice(SIMPLE_CONDS)
    nops = rng.randint(2, 14)
    nkeys = rng.choice([1, 2, 2, 4])
    sig = rng.choice(SIGS)
    palette = key_palette(rng, nkeys, sig)
    lost = rng.choice([0.0, 0.0, 0.0, 0.25, 0.5])      # how often a caller of this case is cancelled while the function runs
    ops = []
    for _ in range(nops):
        if rng.random() < 0.62:
            op = draw_call(rng, palette)
            if rng.random() < lost:
                op.append("lost")
            ops.append(op)
        else:
            ops.append(["adv", advances(rng, t)])
    config = rng.choice(["plain", "plain", "secret"])
    script = []
    for _ in range(sum(1 for o in ops if o[0] == "call")):
        k = rng.choice(["v", "v", "v", "n", "n", f"f{rng.randrange(4)}", exc_kind(rng, config), exc_kind(rng, config)])
        d = rng.choice([0, 0, 0, 1, 2, max(1, t - 1), t, 9])
        script.append(f"{k}:{d}" if d else k)
    return {"kind": "simple", "config": config, "sig": sig,
            "keytpl": rng.choice(KEYTPLS[sig]), "prefix": rng.choice(["", "", "p"]),
            "protected": rng.random() < 0.3, "cond": cond, "condv": rng.randrange(4), "ttl": ttl, "ttlv": rng.randrange(2),
            "script": script, "ops": ops}


def consumer(rng):
    """a consumer that does not read the stream to its end: stops after n elements (closing it, dropping it, or being
    cancelled between two items) or is cancelled while the generator works on step n"""
    if rng.random() < 0.6:
        return ["take", rng.choice([1, 2, 2, 3, 3, 4]), rng.randrange(3)]
    return ["cancel", rng.choice([0, 1, 2, 2, 3, 4])]


def gen_iter(rng) -> dict:
    ttl, t = ttl_choices(rng)
    if ttl.startswith("cr:"):
        ttl = "ck:" + ttl[3:]
    cond = rng.choice(ITER_CONDS)
    nops = rng.randint(2, 12)
    nkeys = rng.choice([1, 1, 2, 3])
    sig = rng.choice(SIGS)
    palette = key_palette(rng, nkeys, sig)
    early = rng.choice([0.0, 0.0, 0.3, 0.6])       # how often a consumer of this case stops before the end
    ops = []
    for _ in range(nops):
        if rng.random() < 0.62:
            op = draw_call(rng, palette)
            if rng.random() < early:
                op.append(consumer(rng))
            ops.append(op)
        else:
            ops.append(["adv", advances(rng, t)])
    config = rng.choice(["plain", "plain", "secret"])
    odd = rng.random() < 0.5
    runs = []
    for _ in range(sum(1 for o in ops if o[0] == "call")):
        n = rng.choice([0, 1, 2, 2, 3, 3, 4])
        steps = []
        for j in range(n):
            k = rng.choice(["v", "v", "v", "n", f"f{rng.randrange(4)}", f"f{rng.randrange(4)}"])
            if odd and rng.random() < 0.5:
                # "whatever the items are": odd constants, an exception INSTANCE yielded as a value, one dict object that the
                # generator keeps updating and yields again
                shape = rng.choice(dh.EOBJ_SHAPES)
                k = rng.choice([f"f{rng.randrange(4, len(dh.CONSTS))}", f"y{rng.randrange(3)}" + (f"p{shape}" if shape else ""), "m", "m"])
            d = rng.choice([0, 0, 0, 0, 1, 2, max(1, t // 2), max(1, t - 1), t])
            steps.append(f"{k}:{d}" if d else k)
        if rng.random() < 0.25:
            d = rng.choice([0, 0, 1, max(1, t - 1), t, t + 1])
            k = exc_kind(rng, config)
            steps.append(f"{k}:{d}" if d else k)
        fd = rng.choice([0, 0, 0, 1, max(1, t - 1), t, t + 1])
        runs.append((",".join(steps) or "-") + f"/{fd}")
    return {"kind": "iter", "config": config, "sig": sig,
            "keytpl": rng.choice(KEYTPLS[sig][:3]), "cond": cond, "condv": rng.randrange(4), "ttl": ttl,
            "ttlv": rng.randrange(2), "script": runs, "ops": ops}


# ----------------------------------------------------------------------------------------------
def run_case(case, model=True):
    trace, log = dh.execute(case)
    answers = DRIVER.ask(dh.model_lines(case))[2:] if model else None
    return trace, log, answers


def first_model_diff(trace, answers):
    if answers is None or (trace and trace[0].get("crash")):
        return None
    for i, (t, a) in enumerate(zip(trace, answers)):
        want = "ok" if t["impl"] == "ok" else "model=" + t["impl"]
        if a != want:
            return i
    return None


def judge(case, model=True):
    """(oracle verdict, first impl/model difference, trace, log, answers)"""
    trace, log, answers = run_case(case, model)
    return dh.oracle(case, trace, log), first_model_diff(trace, answers), trace, log, answers


def shrink(case, pred):
    """ddmin over the ops (the script is consumed in order, so any sub-history is a valid case), then
    drop script entries that are no longer reached"""
    def with_ops(ops):
        c = dict(case)
        c["ops"] = ops
        return c
    ops = ddmin(case["ops"], lambda o: pred(with_ops(o)))
    small = with_ops(ops)
    # executions that only serve to reach a later script entry: drop script entries one by one, re-minimising the ops
    progress = True
    while progress and len(small["script"]) > 1:
        progress = False
        for i in range(len(small["script"])):
            cand = dict(small)
            cand["script"] = small["script"][:i] + small["script"][i + 1:]
            if pred(cand):
                cand["ops"] = ddmin(cand["ops"], lambda o, c=cand: pred({**c, "ops": o}))
                small = cand
                progress = True
                break
    # a call that executed and the script entry it consumed, together (the later executions keep their behaviour)
    progress = True
    while progress:
        progress = False
        trace = dh.execute(small)[0]
        if trace and trace[0].get("crash"):
            break
        n = 0
        for i, t in enumerate(trace):
            if "key" not in t or not t.get("execs"):
                continue
            cand = dict(small)
            cand["ops"] = small["ops"][:i] + small["ops"][i + 1:]
            cand["script"] = small["script"][:n] + small["script"][n + 1:]
            n += 1
            if pred(cand):
                small, progress = cand, True
                break
    # consumers: drain where stopping early plays no part, else the plainest way of stopping, as early as possible
    for i, op in enumerate(small["ops"]):
        if len(op) > 3 and op[3]:
            options = [op[:3]]
            if op[3] == "lost":         # a caller of the basic decorator that is cancelled: try a caller that stays
                pass
            elif op[3][0] == "take":
                options += [op[:3] + [["take", n, how]] for n in range(1, op[3][1] + 1) for how in range(0, op[3][2] + 1)]
            else:
                options += [op[:3] + [["cancel", n]] for n in range(0, op[3][1])]
            for o in options:
                if o == op:
                    break
                cand = dict(small)
                cand["ops"] = small["ops"][:i] + [o] + small["ops"][i + 1:]
                if pred(cand):
                    small = cand
                    break
    ncalls = sum(1 for o in small["ops"] if o[0] == "call")
    full = small["script"]
    small = dict(small)
    small["script"] = full[:ncalls]
    if not pred(small):
        small["script"] = full
    return small


B2_SIGNATURE = "C02:iterator-chunk-key-is-a-marker-key"
B1_SIGNATURE = "D52:condition-dropped-by-time-condition"


def side_finding(case):
    """cases that can only fail through one of the adjudicated candidate defects, which have signatures of their own"""
    if "&" in case["cond"]:
        return "B1"
    if case["kind"] == "iter" and case["sig"] == "va" and {o[1] for o in case["ops"] if o[0] == "call"} >= set(dh.VA_COLLIDING):
        return "B2"
    return None


def signature_of(case, trace, idx, msg) -> str:
    if side_finding(case) == "B2":
        # candidate defect (2) of round 4: "<key>:<i>" of one call is the marker key of another call
        return B2_SIGNATURE
    if "&" in case["cond"] and ("rejected" in msg or "executed although" in msg or "started although" in msg):
        # condition= together with time_condition=: the decorator's condition is replaced by the time condition
        # (candidate defect (1) of round 4; repaired by proposed_fixes/D52_C02_time_condition_keeps_condition.diff)
        return B1_SIGNATURE
    if "not the exception that was raised" in msg:
        return "replayed-exception-differs-from-raised"
    if "returned:" in msg or "yielded:" in msg:
        return "exception-returned-instead-of-raised"
    if "compare equal to but are not the arguments" in msg:
        return "answered-with-result-of-equal-but-different-arguments"
    if "are not the arguments" in msg:
        return "answered-with-result-of-other-arguments"
    if "the ttl callable was handed" in msg:
        return "ttl-callable-not-given-the-result"
    if "a run that never ended" in msg:
        return "iter-replays-interrupted-run"
    if "but the replay RAISED it" in msg:
        return "iter-replay-raises-a-yielded-exception-object"
    if "the replay shows the object in a later state" in msg:
        return "iter-replay-shows-a-later-state-of-a-mutable-item"
    if case["kind"] == "iter":
        if "raised" in msg:
            return "decorator-raises"
        if "ttl is" in msg or "empty replay" in msg:
            return "iter-stale-or-empty-replay"
        if "rejected" in msg:
            return "iter-replays-rejected-run"
        return "iter-replay-is-not-one-run"
    if "raised" in msg:
        return "decorator-raises"
    if "executed although" in msg:
        return "simple-executes-despite-stored"
    if "rejected" in msg:
        return "simple-replays-rejected"
    return "simple-serves-not-fresh-real"


def report(chk: Check, case, origin, model=True):
    verdict, dm, *_ = judge(case, model)
    if verdict is not None:
        small = shrink(case, lambda c: judge(c, False)[0] is not None)
        verdict, dm, trace, log, answers = judge(small, model)
        idx, msg = verdict
        replay = {"case": small, "trace": [{"op": t["line"], "impl": t["impl"], "model": (answers[i] if answers and not t.get("crash") else None),
                                            "now_ticks": t["now"]} for i, t in enumerate(trace)],
                  "executions": log, "failing_step": idx, "origin": origin, "as_python": describe_case(small),
                  "replay_cmd": "./check C02 --replay <this file>"}
        what = "basic cache decorator" if small["kind"] == "simple" else "iterator decorator"
        chk.violation(f"{what} contradicts the property at step {idx} `{trace[idx]['line']}` (virtual t={trace[idx]['now']} ticks): {msg} "
                      f"[condition {small['cond']}, ttl {describe_ttl(small['ttl'])}]",
                      replay, signature=signature_of(small, trace, idx, msg))
        return True
    if dm is not None:
        small = shrink(case, lambda c: judge(c, True)[1] is not None)
        verdict, dm, trace, log, answers = judge(small, True)
        replay = {"case": small, "trace": [{"op": t["line"], "impl": t["impl"], "model": answers[i], "now_ticks": t["now"]}
                                           for i, t in enumerate(trace)],
                  "executions": log, "failing_step": dm, "origin": origin, "as_python": describe_case(small),
                  "broken": "correspondence of Model/Decor/%s.lean with cashews/decorators/cache/%s.py" % (
                      ("Simple", "simple") if small["kind"] == "simple" else ("Iterator", "iterator")),
                  "replay_cmd": "./check C02 --replay <this file>"}
        chk.violation(f"correspondence broken: implementation differs from the model at step {dm} `{trace[dm]['line']}`: impl {trace[dm]['impl']}, "
                      f"{answers[dm]} - but the observed behaviour still satisfies the property statement", replay, signature=None, no_input=True)
        return True
    return False


def describe_case(case) -> list[str]:
    """the case as the Python a reader would write (for replay files)"""
    simple = case["kind"] == "simple"
    cond = case["cond"]
    names = {"all": "None", "nn": "NOT_NONE"}
    if cond in names:
        ctext = "condition=" + names[cond]
    elif cond[:3] in ("we:", "oe:"):
        ctext = "condition=%s(%s)" % ("with_exceptions" if cond[0] == "w" else "only_exceptions",
                                      ", ".join("E" + x for x in cond[3:].split("+") if x))
    elif "&" in cond:
        inner = cond.split("&", 1)[1]
        itext = names.get(inner) or ("%s(%s)" % ("with_exceptions" if inner[0] == "w" else "only_exceptions", ", ".join("E" + x for x in inner[3:].split("+") if x))
                                     if inner[:3] in ("we:", "oe:") else "<callable: %s>" % " ".join(inner[3:]))
        ctext = f"time_condition={int(cond.split('&')[0][3:]) / 8}, condition={itext}"
    elif cond.startswith("tc:"):
        ctext = f"time_condition={int(cond[3:]) / 8}"
    else:
        ctext = ("condition=<callable answering, for a payload / None / a falsy value / E0 / E1 / E2: %s>  "
                 "(T=True F=False y=truthy non-bool z=falsy non-bool X=the exception itself)" % " ".join(cond[3:]))
    out = ["cache.setup('mem://'%s)" % (", secret=..." if case["config"] == "secret" else ""),
           "@cache.%s(ttl=%s, key=%r, %s%s)" % ("cache" if simple else "iterator", describe_ttl(case["ttl"]), case.get("keytpl"), ctext,
                                             (", prefix=%r, protected=%r" % (case.get("prefix", ""), case.get("protected", False))) if simple else ""),
           "async def f(%s): ..." % dh.SIG_TEXT[case["sig"]]]
    for n, b in enumerate(case["script"]):
        if simple:
            k, d = dh.parse_beh(b)
            what = {"v": f"returns 'v{n}'", "n": "returns None"}.get(k) or (f"returns {dh.CONSTS[int(k[1:])]!r}" if k[0] == "f" else "raises " + dh.expected_exc_text(f"x{k[1:]}.{n}"))
            out.append(f"  execution {n}: takes {d / 8} s, {what}")
        else:
            steps, fd = dh.parse_run(b)
            parts = []
            for i, (k, d) in enumerate(steps):
                what = ({"v": f"yield 'v{n}.{i}'", "n": "yield None", "m": f"row['run'], row['i'] = {n}, {i}; yield row  (the same dict object every time)"}.get(k)
                        or (f"yield {dh.CONSTS[int(k[1:])]!r}" if k[0] == "f" else
                            "yield the exception object " + dh.expected_exc_text(f"x{k[1:]}.{n}") if k[0] == "y" else
                            "raise " + dh.expected_exc_text(f"x{k[1:]}.{n}")))
                parts.append((f"<{d / 8} s> " if d else "") + what)
            out.append(f"  run {n}: " + "; ".join(parts) + (f"; <{fd / 8} s>" if fd else "") + ("" if parts else " (yields nothing)"))
    for op in case["ops"]:
        if op[0] == "adv":
            out.append(f"<{op[1] / 8} s pass>")
        else:
            fs = dh.call_forms(case["sig"], op[1])
            args, kwargs = fs[op[2] % len(fs)]
            call = ", ".join([repr(x) for x in args] + [f"{k}={v!r}" for k, v in kwargs.items()])
            mode = op[3] if len(op) > 3 and op[3] and not simple else None
            if simple and len(op) > 3 and op[3] == "lost":
                out.append(f"await f({call})   # the caller's task is cancelled while the function is running" +
                           (" (thunder protection: the call itself goes on)" if case.get("protected") else " (no thunder protection: so is the function)"))
            elif mode is None:
                out.append(("await f(%s)" if simple else "[x async for x in f(%s)]") % call)
            elif mode[0] == "take":
                how = ["break out of the loop and `await stream.aclose()`", "break out of the loop and drop the stream (the event loop finalises it)",
                       "the consumer's task is cancelled while it handles that item (the stream goes with its frame)"][mode[2]]
                out.append(f"async for x in f({call}): ...   # the consumer receives {mode[1]} element(s), then: {how}")
            else:
                out.append(f"async for x in f({call}): ...   # the consumer's task is cancelled while the generator works on its step {mode[1]} "
                           f"(after {mode[1]} item(s)); on a replay nothing suspends and it reads everything")
    return out


def describe_ttl(ttl: str) -> str:
    def one(p):
        return repr(dh.plain_py(p))
    if ttl[:3] in ("ck:", "cr:"):
        return ("callable of the key -> " if ttl.startswith("ck:") else "callable of the result kind -> ") + "/".join(one(p) for p in ttl[3:].split(","))
    return one(ttl)


# ----------------------------------------------------------------------------------------------
# interesting states
def eq_pair(k_first, k_second) -> str:
    """'int->bool' ...: types of the first component in which two ==-equal argument tuples differ, in call order"""
    for x, y in zip(dh.ARGS[k_first], dh.ARGS[k_second]):
        if type(x) is not type(y):
            return f"{type(x).__name__}->{type(y).__name__}"
    return "same"


def interesting(case, trace, log) -> set[str]:
    out = set()
    if trace and trace[0].get("crash"):
        return out
    ttl, cond = case["ttl"], case["cond"]
    if case["kind"] == "simple":
        by_n = {x["n"]: x for x in log}
        first_form = {}
        lost_execs = set()
        seen = 0
        for t, op in zip(trace, case["ops"]):
            if "key" not in t:
                continue
            got, how = t["impl"].rsplit(" ", 1)
            k, now = t["key"], t["now"]
            if how == "cut":
                out.add("caller-cancelled-without-protection:execution-cut-short")
                continue
            if how == "run":
                x = log[seen]
                seen += 1
                first_form[x["n"]] = op[2]
                if got == "lost":
                    out.add("caller-cancelled-under-thunder-protection:call-completes")
                    lost_execs.add(x["n"])
                for y in log[:seen - 1]:
                    if y["n"] in lost_execs and y["key"] == k and dh.cond_accepts_spec(cond, y["kind"], y["dur"]):
                        out.add("re-executed-after-ttl-of-a-result-whose-caller-was-cancelled")
                if case["sig"] in ("va", "vk"):
                    alpha = dh.alphabet(case["sig"])
                    for y in log[:seen - 1]:
                        if (y["key"] != k and alpha[y["key"]][0] == alpha[k][0] and "t" in y and dh.cond_accepts_spec(cond, y["kind"], y["dur"])):
                            tt = dh.ttl_ticks_spec(ttl, y["key"], y["kind"])
                            if tt == 0 or now - y["t"] < tt:
                                out.add("executed-beside-fresh-result-differing-only-in-the-variadic-overflow:" + case["sig"] +
                                        (":same-call-form" if first_form.get(y["n"]) == op[2] else ""))
                if ttl.startswith("cr:") and x["kind"].startswith("e") and dh.cond_accepts_spec(cond, x["kind"], x["dur"]):
                    ps = ttl[3:].split(",")
                    if dh.plain_ticks_spec(ps[3]) != dh.plain_ticks_spec(ps[0]):
                        out.add("exception-stored-with-a-ttl-of-its-own")
                if "&" in cond:
                    tc, inner = cond.split("&", 1)
                    slow = x["dur"] > int(tc[3:])
                    inner_ok = dh.cond_accepts_spec(inner, x["kind"], x["dur"])
                    out.add("time-condition-and-condition:" + ("both-accept" if slow and inner_ok else "slow-but-condition-rejects" if slow
                                                             else "fast-but-condition-accepts" if inner_ok else "both-reject"))
                acc = dh.cond_accepts_spec(cond, x["kind"], x["dur"])
                if not acc:
                    out.add("rejected-result-not-stored" if not x["kind"].startswith("e") else "unselected-exception-not-stored")
                elif x["kind"].startswith("e"):
                    out.add("selected-exception-stored")
                for y in log[:seen - 1]:
                    if y["key"] == k and "t" in y and dh.cond_accepts_spec(cond, y["kind"], y["dur"]):
                        tt = dh.ttl_ticks_spec(ttl, k, y["kind"])
                        if now - y["t"] == tt:
                            out.add("re-executed-exactly-at-deadline")
                if cond.startswith("fn:") and cond[3:][dh.KIND_IDX[x["kind"]]] in "yX" and not x["kind"].startswith("e"):
                    out.add("truthy-non-bool-condition")
                for y in log[:seen - 1]:
                    # a fresh stored result for EQUAL BUT DIFFERENT arguments (1 / True / 1.0 ...) exists: this call must not see it
                    if y["key"] != k and y["key"] in dh.eq_class_of(case["sig"], k) and "t" in y and dh.cond_accepts_spec(cond, y["kind"], y["dur"]):
                        tt = dh.ttl_ticks_spec(ttl, y["key"], y["kind"])
                        if tt == 0 or now - y["t"] < tt:
                            same_form = first_form.get(y["n"]) == op[2]
                            out.add("executed-beside-fresh-result-of-equal-but-different-arguments" + (":same-call-form" if same_form else ""))
                            if same_form:
                                out.add("equal-but-different:" + eq_pair(y["key"], k))
            else:
                src = [y for y in log[:seen] if y["key"] == k and y.get("res") == got]
                if src:
                    y = src[-1]
                    if y["n"] in lost_execs:
                        out.add("hit-on-result-of-a-call-whose-caller-was-cancelled")
                    if ttl.startswith("cr:") and y["kind"].startswith("e"):
                        ps = ttl[3:].split(",")
                        if dh.plain_ticks_spec(ps[3]) > dh.plain_ticks_spec(ps[0]) and now - y["t"] >= dh.plain_ticks_spec(ps[0]):
                            out.add("exception-replayed-beyond-the-ttl-of-an-ordinary-answer")
                    tt = dh.ttl_ticks_spec(ttl, k, y["kind"])
                    if now - y["t"] == tt - 1:
                        out.add("hit-one-tick-before-deadline")
                    if first_form.get(y["n"]) is not None and first_form[y["n"]] != op[2]:
                        out.add("hit-through-another-call-form")
                    if y["kind"] == "n":
                        out.add("None-served-from-store")
                    if y["kind"] == "f":
                        out.add("falsy-served-from-store")
                    if y["kind"].startswith("e"):
                        out.add("exception-replayed-from-store")
                        shape = dh.exc_of_kind(y["kind"])[1]
                        if shape:
                            out.add("replayed-exception-shape:" + dh.SHAPES[shape][0])
                    if y["dur"] > 0:
                        out.add("freshness-counted-from-return-of-slow-execution")
        if ttl.startswith("cr:") and len({x["kind"][0] for x in log}) > 1:
            out.add("ttl-depends-on-result")
        if ttl.startswith("ck:") and len({x["key"] for x in log}) > 1:
            out.add("ttl-depends-on-arguments")
    else:
        seen = 0
        tt_of = lambda k: dh.ttl_ticks_spec(ttl, k, "n")  # noqa: E731
        forms_of = {}
        for t, op in zip(trace, case["ops"]):
            if "key" not in t:
                continue
            got, how = t["impl"].rsplit(" ", 1)
            k, now = t["key"], t["now"]
            items = [] if got == "-" else got.split(",")
            mode = t.get("mode")
            if how == "run":
                x = log[seen]
                seen += 1
                forms_of[x["n"]] = op[2]
                kinds = x["kinds"]
                for y in log[:seen - 1]:
                    if y["key"] == k and not y["complete"] and now - y["start"] < tt_of(k):
                        yacc = all(dh.cond_accepts_spec(cond, kd, 0, item=True) for kd in y["kinds"])
                        if y["ended"] == "abandoned" and len(y["outs"]) >= 2 and yacc:
                            out.add("run-again-within-ttl-of-a-run-abandoned-after-2+-accepted-items")
                        if y["ended"] == "cancelled" and len(y["outs"]) >= 1 and yacc:
                            out.add("run-again-within-ttl-of-a-run-cancelled-after-1+-accepted-items")
                    if (y["key"] != k and y["key"] in dh.eq_class_of(case["sig"], k) and y["complete"] and y["outs"]
                            and now - y["start"] < tt_of(y["key"]) and forms_of.get(y["n"]) == op[2]
                            and all(dh.cond_accepts_spec(cond, kd, 0, item=True) for kd in y["kinds"])):
                        out.add("run-beside-cached-run-of-equal-but-different-arguments:same-call-form")
                        out.add("equal-but-different:" + eq_pair(y["key"], k))
                if x["ended"] == "abandoned":
                    out.add("run-abandoned:" + ["aclose", "dropped-and-finalised", "consumer-cancelled-between-items"][mode[2]])
                    if len(x["outs"]) == len(dh.parse_run(case["script"][x["n"]])[0]):
                        out.add("run-abandoned-after-its-last-item")
                if x["ended"] == "cancelled":
                    out.add("run-cancelled-in-final-stretch" if len(x["outs"]) == len(dh.parse_run(case["script"][x["n"]])[0])
                            else "run-cancelled-between-items")
                if mode and x["complete"]:
                    out.add("early-consumer-but-run-ended-first")
                if not x["complete"]:
                    continue            # the states below are about runs that ended by themselves
                acc = [dh.cond_accepts_spec(cond, kd, 0, item=True) for kd in kinds]
                dur = x.get("end", x["start"]) - x["start"]
                if acc and not all(acc) and any(acc[: len(acc) - 1]):
                    out.add("run-with-rejected-item-after-accepted-ones")
                if all(acc) and kinds and dur == tt_of(k):
                    out.add("run-lasting-exactly-ttl")
                if all(acc) and kinds and dur > tt_of(k):
                    out.add("run-longer-than-ttl")
                if kinds and kinds[-1].startswith("e") and all(acc):
                    out.add("run-ending-in-selected-exception")
                if not kinds:
                    out.add("empty-run")
                for y in log[:seen - 1]:
                    # an earlier run of the same key that wrote more chunks, some of which can still be alive when this run is stored
                    yacc = [dh.cond_accepts_spec(cond, kd, 0, item=True) for kd in y["kinds"]]
                    ychunks = next((j for j, a in enumerate(yacc) if not a), len(yacc))
                    if y["key"] == k and ychunks > len(kinds) and all(acc) and kinds and dur < tt_of(k):
                        if y.get("end", 0) + tt_of(k) > x.get("end", 0):
                            out.add("shorter-run-stored-while-chunks-of-a-longer-run-may-be-alive")
                            if not y["complete"]:
                                out.add("shorter-run-stored-over-chunks-left-by-an-interrupted-run")
            else:
                if mode and mode[0] == "take":
                    out.add("consumer-stops-early-on-a-replay")
                if any(it.startswith("y") for it in items[:-1]):
                    out.add("replay-yields-an-exception-object-and-goes-on")
                if any(it.startswith("y") for it in items[-1:]):
                    out.add("replay-ends-with-a-yielded-exception-object")
                for it in items:
                    if it.startswith("f") and int(it[1:]) >= 4:
                        out.add("replay-with-odd-item:" + type(dh.CONSTS[int(it[1:])]).__name__)
                for y in log[:seen]:
                    if y["key"] == k and y["complete"] and y["outs"] == items and len(y.get("mutable_positions", ())) >= 2:
                        out.add("replay-of-a-run-that-re-yielded-one-mutable-object")
                if any(it == "n" or it.startswith("f") for it in items[:-1]):
                    out.add("replay-with-falsy-non-last-item")
                if items and items[-1].startswith("x"):
                    out.add("replay-ending-in-exception")
                    shape = dh.exc_of_kind(dh.kind_of(items[-1]))[1]
                    if shape:
                        out.add("replay-ending-in-exception-shape:" + dh.SHAPES[shape][0])
                src = [y for y in log[:seen] if y["key"] == k and y["complete"] and y["outs"][:len(items)] == items]
                if src and now - src[-1]["start"] == tt_of(k) - 1:
                    out.add("replay-one-tick-before-marker-deadline")
                if src and any(len(y["outs"]) > len(items) and y["n"] < src[-1]["n"] for y in log[:seen] if y["key"] == k):
                    out.add("replay-of-shorter-run-after-longer-run")
    return out


# ----------------------------------------------------------------------------------------------
# TTL spellings: enumerated table  impl / model / meaning
UNITS = "dhms"
NUMS_Q = [0, 1, 2, 10, 59]
NUMS_T = [0, 1, 2, 7, 10, 59, 100]


def ttl_strings(thorough: bool, rng):
    """(string, well-formed?) - every sequence of up to 2 (quick) / 3 (thorough) <n><unit> segments, case and
    blank variants, the README form, bare numbers, and malformed strings"""
    nums = NUMS_T if thorough else NUMS_Q
    out = []
    for ln in range(1, (3 if thorough else 2) + 1):
        for us in itertools.product(UNITS, repeat=ln):
            for ns in itertools.product(nums, repeat=ln):
                out.append("".join(f"{n}{u}" for n, u in zip(ns, us)))
    base = out[:: max(1, len(out) // 300)]
    for s in base:
        out += [s.upper(), " " + s, s + "  ", "\t" + s.upper() + "\n", s.capitalize()]
    for _ in range(2000 if thorough else 300):   # the property's own example shape, random numbers
        d, h, m, s = (rng.choice([0, 1, 2, 3, 23, 50, 365, 1000]) for _ in range(4))
        out.append(f"{d}d{h}h{m}m{s}s")
    out += ["1d2h3m50s", "0", "1", "7", "10", "86400", "007", " 5 ", "5 "]
    malformed = ["", " ", "h", "s", "1w", "1 h", "1h 2m", "h1", "1hh", "1.5h", "-1s", "1h30", "0h5", "0s0", "1d2", "abc", "1_0s", "+1s",
                 "1µ", "1H2", "ms", "1ms", "1sm"]
    return [(s, True) for s in out] + [(s, False) for s in malformed]


def check_ttl_table(chk: Check, model: bool) -> dict:
    """ttl_to_seconds on every spelling vs the model (driver `ttl` lines) vs what the spelling means"""
    from cashews.ttl import ttl_to_seconds
    from datetime import timedelta
    strings = ttl_strings(chk.thorough, chk.rng)
    lines, impls, specs, labels = [], [], [], []
    for s, wf in strings:
        if not s.isascii():
            continue
        try:
            impl = ttl_to_seconds(s)
            impl = "E" if impl is None else str(8 * impl)
        except ValueError:
            impl = "E"
        spec = dh.str_secs_spec(s)
        lines.append("ttl s" + tohex(s))
        impls.append(impl)
        specs.append(None if spec is None else str(8 * spec))
        labels.append(repr(s))
    # all spellings of n seconds (and of eighths for float / timedelta), plain and through a callable
    for n in [1, 2, 3, 10, 60, 90, 3600, 86400, 93830]:
        forms = [(f"i{n}", n), (f"f{8 * n}", float(n)), (f"d{8 * n}", timedelta(seconds=n)), ("s" + tohex(str(n)), str(n)),
                 ("s" + tohex(f"{n}s"), f"{n}s")]
        for code, py in forms:
            lines.append("ttl " + code)
            impls.append(str(round(8 * ttl_to_seconds(py))))
            specs.append(str(8 * n))
            labels.append(repr(py))
            for variant in (0, 1):
                fn = dh.ttl_py("ck:" + code, variant, lambda a, k: 0)
                got = ttl_to_seconds(fn, 1, b=0, result="r", with_callable=True)
                lines.append(f"ttl ck:{code} 0 0")
                impls.append(str(round(8 * got)))
                specs.append(str(8 * n))
                labels.append(f"callable{'(result=)' if variant == 0 else '()'} -> {py!r}")
    for t in [1, 3, 4, 12, 20]:
        for code, py in [(f"f{t}", t / 8), (f"d{t}", timedelta(seconds=t / 8))]:
            lines.append("ttl " + code)
            impls.append(str(round(8 * ttl_to_seconds(py))))
            specs.append(str(t))
            labels.append(repr(py))
    answers = DRIVER.ask(lines) if model else [None] * len(lines)
    bad_spec = [(labels[i], impls[i], specs[i]) for i in range(len(lines)) if specs[i] is not None and impls[i] != specs[i]]
    bad_model = [(labels[i], impls[i], answers[i]) for i in range(len(lines)) if answers[i] is not None and answers[i] != "model=" + impls[i]]
    return {"n": len(lines), "bad_spec": bad_spec, "bad_model": bad_model}


# ----------------------------------------------------------------------------------------------
def corpus_cases():
    d = ROOT / "corpus" / PROP
    for f in sorted(d.glob("*.json")):
        yield f.name, json.loads(f.read_text())


def run(chk: Check) -> int:
    gen = ttlgen.regenerate()
    proof = proof_stage(PROP, "driver_c02", chk.thorough) if not getattr(chk, "skip_proof", False) else None
    model = True
    if proof is not None and not proof["ok"]:
        # the proofs do not check (for instance because the regenerated unit table changed); the model itself is
        # still executable: build the driver alone so that the search below has all three of impl / model / meaning
        ok, _ = lake("build", "driver_c02")
        model = ok
    try:
        DRIVER.ask(["ttl i1"])
    except HarnessError:
        if proof is None or proof["ok"]:
            raise
        model = False

    found = 0
    # 1. TTL spellings (enumerated)
    tbl = check_ttl_table(chk, model)
    if tbl["bad_spec"]:
        label, impl, spec = tbl["bad_spec"][0]
        small = min(tbl["bad_spec"], key=lambda x: len(x[0]))
        chk.violation(f"ttl_to_seconds({small[0]}) = {small[1]} eighths of a second, but the spelling denotes {small[2]} "
                      f"({len(tbl['bad_spec'])} of {tbl['n']} enumerated spellings disagree with their meaning)",
                      {"input": small[0], "impl_ticks": small[1], "meaning_ticks": small[2], "all": tbl["bad_spec"][:40],
                       "unit_table_read_from_source": gen["units"]}, signature="ttl-spelling-mis-scaled")
        found += 1
    elif tbl["bad_model"]:
        small = min(tbl["bad_model"], key=lambda x: len(x[0]))
        chk.violation(f"correspondence broken: ttl_to_seconds({small[0]}) = {small[1]} but {small[2]}; every well-formed spelling still has its meaning",
                      {"input": small[0], "all": tbl["bad_model"][:40], "broken": "correspondence of Model/Ttl.lean with cashews/ttl.py"},
                      signature=None, no_input=True)
        found += 1

    # 2. call histories
    n_simple = chk.budget(6000, 60000)
    n_iter = chk.budget(5000, 45000)
    cases = [("corpus:" + name, c) for name, c in corpus_cases()]
    ncorpus = len(cases)
    for i in range(max(n_simple, n_iter)):
        if i < n_simple:
            cases.append((f"gen-simple:{i}", gen_simple(chk.rng)))
        if i < n_iter:
            cases.append((f"gen-iter:{i}", gen_iter(chk.rng)))
    evaluations = 0
    distinct = set()
    states: dict[str, int] = {}
    hist = {"simple": 0, "iter": 0, "calls": 0, "advances": 0, "executions": 0, "hits": 0}
    fams: dict[str, int] = {}
    conds: dict[str, int] = {}
    samples = []
    batch_cases, batch_lines = [], []
    b1_reported: list = []

    def flush():
        nonlocal found, evaluations
        if not batch_cases:
            return
        answers = DRIVER.ask(batch_lines) if model else None
        pos = 0
        for origin, case, trace, log in batch_cases:
            nlines = 2 + len(case["ops"])
            ans = answers[pos + 2: pos + nlines] if answers else None
            pos += nlines
            evaluations += 1
            hist[case["kind"]] += 1
            for t in trace:
                if "key" in t:
                    hist["calls"] += 1
                    hist["hits" if t["impl"].endswith("hit") else "executions"] += 1
                else:
                    hist["advances"] += 1
            fam = case["ttl"][:2] if case["ttl"][:3] in ("ck:", "cr:") else {"i": "int", "f": "float", "d": "timedelta", "s": "str"}[case["ttl"][0]]
            fams[fam] = fams.get(fam, 0) + 1
            ckey = case["cond"].split(":")[0]
            conds[ckey] = conds.get(ckey, 0) + 1
            st = interesting(case, trace, log)
            for s in st:
                states[s] = states.get(s, 0) + 1
            if st:
                distinct.add(json.dumps(case, sort_keys=True))
                if len(samples) < 4 and len(case["ops"]) <= 7 and (len(samples) % 2 == 0) == (case["kind"] == "simple"):
                    samples.append({"case": case, "impl": [t["impl"] for t in trace], "states": sorted(st)})
            if found < 3 and (dh.oracle(case, trace, log) is not None or first_model_diff(trace, ans) is not None):
                side = side_finding(case)
                if side and side in b1_reported:
                    continue        # a candidate defect with a signature of its own is reported once, not three times
                if report(chk, case, origin, model):
                    if side:
                        b1_reported.append(side)
                    else:
                        found += 1
        batch_cases.clear()
        batch_lines.clear()

    for origin, case in cases:
        trace, log = dh.execute(case)
        batch_cases.append((origin, case, trace, log))
        batch_lines.extend(dh.model_lines(case))
        if len(batch_cases) >= 400:
            flush()
            if found >= 3:
                break
    flush()

    if proof is not None:
        chk.proof_broken(proof, found > 0 or bool(b1_reported))
    chk.coverage.update({
        "evaluations": evaluations + tbl["n"],
        "distinct_nontrivial": len(distinct),
        "rule": "call histories of 2..14 ops (calls over up to 6 of the bound-argument tuples of decorhist.ARGS - 2 in 5 cases all from one class of "
                "tuples that are == but different arguments: 1/True/1.0, 0/False/0.0, 2/2.0, mostly in one call form, both orders - in every "
                "positional/keyword call form of four signatures (f(a, b=0), f(a, *, b=0), f(a, *rest), f(a, **opts): for the variadic ones 8 tuples "
                "that differ in the overflow), time advances around the ttl; callers of the basic decorator that are cancelled while the function "
                "runs (with and without thunder protection); iterator calls read by a consumer that drains the "
                "stream, stops after 1..4 elements (aclose / drop / cancelled between items) or is cancelled while the generator works on step "
                "0..4) x scripted outcomes with durations (generator items: payloads, None, 4 falsy and 5 odd constants - tuple, bytes, 0.0, a look-alike "
                "of the RaiseException wrapper, a dict -, exception INSTANCES yielded as values (3 classes x 3 shapes), one dict object "
                "that the run keeps updating and yields again) (failures: 3 exception classes x %d payload "
                "shapes, compared by complete observation) x 23 (simple; 6 of them time_condition= together with condition=) / 11 (iterator) conditions x " % len(dh.GENERATED_SHAPES) +
                "all TTL spelling families x plain/signed+pickled mem:// x key templates, generated from VERIF_SEED; a case is "
                "non-trivial iff it reached at least one state listed under interesting_states_cases; distinct = distinct case dicts",
        "samples": samples,
        "argument_alphabet": [repr(t) for t in dh.ARGS],
        "argument_alphabet_variadic": {"f(a, *rest)": [repr(t) for t in dh.ARGS_VA], "f(a, **opts)": [repr(t) for t in dh.ARGS_VK]},
        "equal_but_different_classes": [[repr(dh.ARGS[i]) for i in ids] for ids in dh.EQ_CLASSES],
        "corpus_cases": ncorpus,
        "history_cases": evaluations,
        "op_histogram": hist,
        "ttl_spelling_families": fams,
        "condition_families": conds,
        "interesting_states_cases": states,
        "exception_payload_shapes": {str(k): dh.SHAPES[k][0] for k in dh.GENERATED_SHAPES},
        "exception_payload_shapes_under_pickling": dh.PICKLE_FAITHFUL,
        "exception_payload_shapes_pending": {str(k): dh.SHAPES[k][0] for k in sorted(dh.PENDING_SHAPES)},
        "ttl_table": {"spellings_checked": tbl["n"], "exhaustive": True,
                      "rule": "every string of <= %d <n><unit> segments over units d,h,m,s and n in %s, case/blank variants, the README shape "
                              "with random numbers, bare numbers, malformed strings; int/float/timedelta/'n'/'ns'/callable spellings of 9 durations"
                              % (3 if chk.thorough else 2, NUMS_T if chk.thorough else NUMS_Q)},
        "exhaustive": False,
        "unit_table_regenerated": {"units": gen["units"], "file_rewritten": gen["rewritten"]},
        "model_driver_available": model,
        "trusted_base": TRUSTED,
        "partial": PARTIAL,
    })
    chk.assumptions.extend(TRUSTED)
    return chk.finish(proof)


def replay(chk: Check, path: str) -> int:
    c = json.loads(Path(path).read_text())
    if "case" not in c and "kind" not in c:
        if "input" in c:
            from cashews.ttl import ttl_to_seconds
            import ast
            s = ast.literal_eval(c["input"]) if c["input"].startswith(("'", '"')) else c["input"]
            try:
                got = ttl_to_seconds(s)
            except ValueError:
                got = "ValueError"
            want = dh.str_secs_spec(s) if isinstance(s, str) else None
            print(f"ttl_to_seconds({s!r}) = {got}; the spelling denotes {want} seconds")
            if want is not None and got != want:
                print(f"VIOLATION property={PROP} replay={path}")
                return 1
            print("replay: no disagreement")
            return 0
        print("replay: nothing to run in this file (it names a broken proof obligation or correspondence)")
        print(json.dumps({k: c[k] for k in ("what", "broken") if k in c}, indent=1))
        return 0
    case = c.get("case", c)
    verdict, dm, trace, log, answers = judge(case)
    for i, t in enumerate(trace):
        print(f"t={t['now']:5d}  {t['line']:10s} impl={t['impl']:34s} {answers[i]}")
    if verdict is None and dm is None:
        print("replay: no disagreement")
        return 0
    if verdict is not None:
        print(f"property violated at step {verdict[0]}: {verdict[1]}")
    else:
        print(f"implementation differs from the model at step {dm}")
    print(f"VIOLATION property={PROP} replay={path}")
    return 1
