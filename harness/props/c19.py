"""C19 - Redis backend translates commands faithfully and degrades safely when down.

DECIDED RELATIVE TO TWO MODELS: `redis` (redis-py) is not installed here and no server can be reached, so the real
`backend.py` / `client.py` run on the stub package harness/stubs/redis (our reading of the redis-py calls cashews makes)
whose server is the Lean model lean/CashewsVerif/Model/RedisSrv.lean (our reading of the Redis documentation).

proof: lean/CashewsVerif/Props/C19.lean.
tie:   generated command histories (virtual-time advances, connection switched off/on at every client-call position,
       suppress on/off, raw backend and Cache facade) run on the real backend; compared per command:
       wire trace emitted by backend.py == the model's translation;  result == model;  result == reference (TtlMapMs) when
       no connection fault hit the command;  degrade clauses of the property when one did;  server keyspace == model == reference.
       Decorators stacked on a down backend are run on the real code against the property's own clause (body's own result).
       Lock wait loops (harness/redislock.py): a HOLDER keeps the lock while a WAITER is inside the wait loop of lock() /
       @locked / @cache(lock=True) / a LOCKED transaction, the outage begins at every client-call position of the waiter's loop,
       suppress on/off: the waiter must come back (own result or the documented error) after at most one more SET NX attempt -
       compared with `lockRun` / `txLockRun` of Model/RedisLock.lean as well.
"""
from __future__ import annotations

import asyncio
import json
from pathlib import Path

from .. import redisstub as rs  # must precede any import of cashews
from .. import redishist as rh
from .. import redislock as rl
from .. import vtime
from ..core import ROOT, Check, HarnessError, ddmin, proof_stage
from ..vtime import CLOCK

PROP = "C19"
BIG = 10 ** 9


def _restore_datetime(iso: str):
    return vtime._RealDatetime.fromisoformat(iso)


# harness/vtime.py replaces `datetime.datetime` by a subclass; instances made by its now() are of the original class, which
# pickle then refuses ("not the same object as datetime.datetime").  Give the original class an explicit reducer.
import copyreg  # noqa: E402

copyreg.pickle(vtime._RealDatetime, lambda d: (_restore_datetime, (d.isoformat(),)))

TRUSTED = [
    "Lean 4.33.0 kernel; axioms of every theorem audited to be within {propext, Classical.choice, Quot.sound}",
    "harness/stubs/redis: a stand-in for redis-py (NOT installed here) - our reading of the argument order of the command methods, "
    "px/nx/xx, the bitfield builder, MULTI/EXEC pipelines, from_pool, response callbacks; cannot be validated in this sandbox",
    "lean/CashewsVerif/Model/RedisSrv.lean: model of the Redis server - our reading of the Redis documentation for the ~25 commands "
    "used and of the three Lua scripts (pinned to the SHA1 of their text, recomputed from backend.py every run); no real server is reachable",
    "hand-written models RedisBackend.lean / SafeClient.lean of backend.py / client.py, tied to the code by this run's wire-trace and result correspondence",
    "hand-written model RedisLock.lean of the wait loops of _BackendInterface.lock() and LockTransactionBackend._lock_updates (small-step, the rest "
    "of the system as an arbitrary `env`), tied to the code by the lock-wait stage (waiter's wire trace and outcome, holder's calls replayed as env)",
    "harness: virtual clock, persistent line-protocol driver, canonicalisation; the serializer is run, not modelled (a non-int value is "
    "identified with the bytes the real serializer produces; C09 covers decode(encode v) = v)",
]
PARTIAL = (
    "Decided relative to two models (stub of redis-py, Lean model of the server), neither validated against the real thing. Not exhibited: "
    "non-dyadic / sub-millisecond TTLs, non-canonical numerals such as b'007' and text read from bit-array keys, glob specials other than '*', "
    "SCAN cursors under concurrent modification, partial application of a pipeline, server restarts (script cache loss), 64-bit overflow, "
    "get_size / set_raw / get_raw / is_locked(wait=...), real sockets and timeouts. Lock wait loops: one waiter and one parked holder (the holder "
    "makes no calls while the waiter waits); outages begin at a client-call position of the waiter, not inside asyncio.sleep(check_interval) with "
    "other traffic; the transaction's wait loop has no liveness ping - on a down server with suppression on it waits its whole timeout and raises "
    "LockedError (bounded; accepted as that loop's documented error). Round 4: glob specials ([ ] ? \\) in scan patterns are not exhibited "
    "(the server model's glob knows '*' only; D60 observed on a foreign fake); set_add shortening a set's ttl on Redis is reported as finding D68 "
    "(the C19 reference models Redis' behaviour as a declared difference); slice_incr with repeated `end` instants is outside the alphabet."
)

KNOWN_SIGS = {
    "D27": "D27:incr_bits-down-typeerror",
    "D28": "D28:negative-int-not-read-back",
    "D29": "D29:pipeline-unsuppressed-raw-redis-error",
    "D30": "D30:iterator-truncated-replay-on-fault",
    "D61": "D61:bloom-unknown-answer-reads-as-member",
    "D62": "D62:circuit-breaker-typeerror-when-count-unknown",
    "D64": "D64:safe-pipeline-lets-oserror-through",
    "D65": "D65:lock-body-error-becomes-runtimeerror",
    "D67": "D67:redis-set-lock-without-lease-typeerror",
}


# ------------------------------------------------------------------------------------------------ judging one run

def classify(step, cfg) -> str | None:
    op, impl = step["op"], step["impl"]
    ref = step["spec"] if step["spec"] != "~" else step["model"]
    if op[0] == "incrbits" and impl == "RAISEOTHER" and "TypeError" in step["detail"]:
        return KNOWN_SIGS["D27"]
    if op[0] in ("setmany", "setadd") and not cfg.get("suppress", True) and impl == "RAISEOTHER" and "redis.exceptions" in step["detail"]:
        return KNOWN_SIGS["D29"]
    if op[0] in ("setmany", "setadd") and cfg.get("suppress", True) and impl == "RAISEOTHER" and cfg.get("fault", "conn") != "conn":
        return KNOWN_SIGS["D64"]
    if op[0] == "setlock" and op[3] is None and impl == "RAISEOTHER" and "TypeError" in step["detail"]:
        return KNOWN_SIGS["D67"]
    if op[0] in ("get", "getmany") and "=" in impl and "=" in ref:
        a, b = impl.split("=", 1)[1].split(","), ref.split("=", 1)[1].split(",")
        if len(a) == len(b) and all(x == y or (x == "-" and y.startswith("i:-")) for x, y in zip(a, b)):
            return KNOWN_SIGS["D28"]
    if op[0] == "getmatch" and impl.startswith("ps=") and ref.startswith("ps="):
        a = [x for x in impl[3:].split(",") if x]
        b = [x for x in ref[3:].split(",") if x]
        if a == [x for x in b if "=i:-" not in x] and a != b:
            return KNOWN_SIGS["D28"]
    return None


def judge(steps, cfg, faulted: bool | None = None) -> list[dict]:
    """every way a run can disagree.  kind 'property' = the implementation contradicts the property statement on this case;
    kind 'correspondence' = it differs from the model while the statement still holds.
    Fault flags are the implementation's own (calls that really failed at the stub).  Once the wire traces diverge the model
    is no longer in step with the implementation: in a fault-free run the reference (which never depends on the model)
    keeps judging the results; in a run with connection faults judging stops there."""
    sup = bool(cfg.get("suppress", True))
    facade = bool(cfg.get("facade"))
    if faulted is None:
        faulted = any(s["failed"] or s["anydown"] for s in steps)
    out = []
    diverged = False
    for i, s in enumerate(steps):
        op, impl, model, spec = s["op"], s["impl"], s["model"], s["spec"]
        if impl.startswith("?"):
            out.append({"i": i, "kind": "property", "what": f"result of an unexpected type/shape: {impl}", "sig": None})
            continue
        probs = []
        kc = facade and op[0] == "keyscount" and impl == "n=0"          # the facade sums `count or 0`
        same_as_model = impl == model or (kc and model == "N")
        failed, alldown = s["failed"] > 0, (s["calls"] > 0 and s["failed"] == s["calls"])
        # (b) the property itself
        if not failed:
            if spec != "~" and not (impl == spec or (kc and spec == "N")):
                probs.append(("property", f"`{s['line']}` -> impl {impl} {s['detail']}, reference {spec}"))
        elif sup:
            if op[0] == "ping":
                if impl != "RAISE":
                    probs.append(("property", f"ping did not raise while the server was down: {impl}"))
            elif impl.startswith("RAISE"):
                probs.append(("property", f"`{s['line']}` raised with suppression on while the server was down: {impl} {s['detail']}"))
            elif alldown and impl != s["fv"] and not (kc and s["fv"] == "N"):
                probs.append(("property", f"`{s['line']}` with the server down answered {impl}, failure value is {s['fv']}"))
        else:
            if impl != "RAISE":
                probs.append(("property", f"`{s['line']}` with suppression off and a failed call did not raise CacheBackendInteractionError: {impl} {s['detail']}"))
        # (a) the model
        if not probs and not diverged:
            if s["impl_wire"] != s["model_wire"]:
                probs.append(("correspondence", f"wire trace of `{s['line']}` differs: impl {show_wire(s['impl_wire'])} model {show_wire(s['model_wire'])}"))
            elif not same_as_model:
                if classify(s, cfg) == KNOWN_SIGS["D28"]:
                    # (a command hit by a connection fault has no reference value; the defect shows against the model)
                    probs.append(("property", f"`{s['line']}` -> impl {impl}, expected {model}: a negative integer was not read back"))
                else:
                    probs.append(("correspondence", f"`{s['line']}` -> impl {impl} {s['detail']}, model {model}"))
            else:
                d_stub, d_model, d_spec = rh.split_dump(s["dump"])
                if d_stub != d_model:
                    probs.append(("correspondence", f"server keyspace after `{s['line']}` differs from the model's: {d_stub} vs {d_model}"))
                elif d_model != d_spec:
                    probs.append(("model-vs-reference", f"model keyspace after `{s['line']}` differs from the reference's: {d_model} vs {d_spec}"))
        for kind, what in probs:
            out.append({"i": i, "kind": kind, "what": what, "sig": classify(s, cfg) if kind == "property" else None})
        if s["impl_wire"] != s["model_wire"] or (probs and probs[0][0] != "property"):
            diverged = True
            if faulted:
                break
    return out


def show_wire(w) -> str:
    def tok(t):
        if t == "~":
            return "None"
        b = bytes.fromhex(t)
        return b.decode("ascii") if all(32 < c < 127 for c in b) and b else "x:" + t

    def one(c):
        return " ".join(tok(t) for t in c.split(",") if t)
    return "[" + " | ".join(("MULTI " + " ; ".join(one(c) for c in r[2:].split(";")) + " EXEC") if r.startswith("M:") else one(r) for r in w) + "]"


def stats_of(steps) -> set[str]:
    st = set()
    seen_fail = False
    prev_keys = None
    for s in steps:
        op = s["op"]
        if s["failed"] and s["ok"]:
            st.add("fault_mid_command")
        if s["alldown"]:
            st.add("command_with_every_call_failed")
        if seen_fail and s["ok"]:
            st.add("server_back_after_down")
        if s["failed"]:
            seen_fail = True
        if any("~" in w for w in s["impl_wire"]):
            st.add("evalsha_with_unloaded_script")
        if sum(1 for w in s["impl_wire"] if w.startswith("5343414e")) > 1:
            st.add("paged_scan")
        if op[0] in ("get", "getmany", "getmatch") and "i:-" in s["model"]:
            st.add("negative_int_read")
        if not s["failed"] and s["calls"] and s["ok"] < s["calls"]:
            st.add("error_reply")
        d = rh.split_dump(s["dump"])[0]
        keys = {e.split(":")[0] for e in d[d.index("[") + 1:-1].split(" ") if e}
        if op[0] == "adv" and prev_keys is not None and keys != prev_keys:
            st.add("expiry_during_advance")
        if op[0] == "incr" and s["model"] == "n=1" and op[3]:
            st.add("incr_ttl_armed")
        if op[0] == "unlock" and s["model"] == "n=0":
            st.add("unlock_refused")
        if op[0] == "sliceincr" and s["impl"].startswith("n=") and int(s["impl"][2:]) >= op[4] + 0 and op[4] > 0:
            st.add("window_full")
        prev_keys = keys
    return st


# ------------------------------------------------------------------------------------------------ running cases

class Ctx:
    def __init__(self, chk: Check):
        self.chk = chk
        self.drv = rs.PersistentDriver("driver_c19", "Drivers/C19.lean")
        self.evaluations = 0
        self.distinct: set = set()
        self.interesting: dict[str, int] = {}
        self.op_hist: dict[str, int] = {}
        self.samples: list = []
        self.reported_sigs: set = set()
        self.found = 0
        self.fault_variants = 0
        self.pending_corr = None     # first correspondence-only disagreement: reported at the end unless a failing input turns up
        self.pending_lock_corr = None

    def run(self, cfg, ops, faults):
        if cfg.get("facade") and any(op[0] == "delmany" and not op[1] for op in ops):
            raise HarnessError("facade histories must not contain an empty delete_many (the facade makes no backend call for it)")
        steps = rh.run_case(self.drv, cfg, ops, faults)
        return steps, judge(steps, cfg)

    def account(self, cfg, ops, faults, steps):
        self.evaluations += 1
        st = stats_of(steps)
        for k in st:
            self.interesting[k] = self.interesting.get(k, 0) + 1
        for s in steps:
            self.op_hist[s["op"][0]] = self.op_hist.get(s["op"][0], 0) + 1
        if st:
            self.distinct.add((json.dumps(cfg, sort_keys=True), json.dumps(ops), json.dumps(faults)))
        if len(self.samples) < 4 and st and 3 <= len(ops) <= 9 and (faults or len(self.samples) < 2):
            self.samples.append({"config": cfg, "faults_down_call_intervals": faults, "ops": ops,
                                 "impl": [s["impl"] for s in steps], "wire": [show_wire(s["impl_wire"]) for s in steps]})

    def handle(self, cfg, ops, faults, steps, problems, origin) -> bool:
        """report the problems of one case; True if a fresh (not known) violation was reported"""
        fresh = False
        done = set()
        if not any(p["kind"] == "property" for p in problems):
            # the implementation differs from the model but the property held on this case: keep searching for a failing input
            if self.pending_corr is None:
                self.pending_corr = (cfg, ops, faults, problems[0], origin)
            return False
        for p in [q for q in problems if q["kind"] == "property"]:
            key = (p["kind"], p["sig"])
            if key in done:
                continue
            done.add(key)
            if p["sig"] is not None and p["sig"] in self.reported_sigs:
                continue
            known = any(f.get("status") == "known" and f.get("signature") == p["sig"] for f in self.chk.known) if p["sig"] else False
            if known:
                self.reported_sigs.add(p["sig"])
                self.chk.violation(p["what"], replay_dict(cfg, ops, faults, steps, p, origin), signature=p["sig"])
                continue
            # fresh: shrink
            target = (p["kind"], p["sig"])

            def fails(sub):
                _, pr = self.run(cfg, sub, faults)
                return any((q["kind"], q["sig"]) == target for q in pr)

            small = ddmin(ops, fails) if len(ops) > 1 else ops
            steps2, pr2 = self.run(cfg, small, faults)
            p2 = next((q for q in pr2 if (q["kind"], q["sig"]) == target), None)
            if p2 is None:
                # not reproducible: a harness problem, not a verdict
                raise HarnessError(f"disagreement not reproducible on re-run: {p['what']}")
            if p["sig"]:
                self.reported_sigs.add(p["sig"])
            self.chk.violation(
                ("" if p2["kind"] == "property" else "correspondence broken (backend.py/client.py vs the Lean model; the property clause itself held): ")
                + p2["what"] + f" (config {cfg}, faults {faults})",
                replay_dict(cfg, small, faults, steps2, p2, origin), signature=p2["sig"], no_input=(p2["kind"] != "property"))
            self.found += 1
            fresh = True
        return fresh


def _report_correspondence(self):
    cfg, ops, faults, p, origin = self.pending_corr
    target = p["kind"]

    def fails(sub):
        _, pr = self.run(cfg, sub, faults)
        return bool(pr) and not any(q["kind"] == "property" for q in pr) and any(q["kind"] == target for q in pr)

    small = ddmin(ops, fails) if len(ops) > 1 else ops
    steps2, pr2 = self.run(cfg, small, faults)
    p2 = next((q for q in pr2 if q["kind"] == target), None)
    if p2 is None:
        raise HarnessError(f"disagreement not reproducible on re-run: {p['what']}")
    what = ("model differs from the reference although the theorem says it cannot: " if target == "model-vs-reference" else
            "correspondence broken (backend.py/client.py vs the Lean model; no input contradicting the property statement was found in this run): ")
    self.chk.violation(what + p2["what"] + f" (config {cfg}, faults {faults})",
                       dict(replay_dict(cfg, small, faults, steps2, p2, origin),
                            broken="correspondence Model/RedisBackend.lean + SafeClient.lean <-> cashews/backends/redis/{backend,client}.py"),
                       signature=None, no_input=True)
    self.found += 1


Ctx.report_correspondence = _report_correspondence


def replay_dict(cfg, ops, faults, steps, p, origin):
    return {
        "config": cfg, "faults": faults, "ops": ops, "origin": origin, "first_problem_step": p["i"], "kind": p["kind"],
        "trace": [{"line": s["line"], "impl": s["impl"], "detail": s["detail"], "model": s["model"], "reference": s["spec"],
                   "impl_wire": show_wire(s["impl_wire"]), "model_wire": show_wire(s["model_wire"])} for s in steps],
        "replay_cmd": "./check C19 --replay <this file>",
    }


def fault_variants(rng, steps, thorough: bool, exhaustive: bool):
    """connection-down intervals over client-call indices, derived from the fault-free run"""
    total = sum(s["calls"] for s in steps)
    if total == 0:
        return []
    bounds = []
    c = 0
    for s in steps:
        bounds.append(c)
        c += s["calls"]
    out = []
    if exhaustive:
        for a in range(total + 1):
            out.append([[a, BIG]])
            for b in range(a + 1, min(total, a + 4) + 1):
                out.append([[a, b]])
        return out
    if thorough:
        for a in range(total):
            out.append([[a, BIG]])
    k = 6 if thorough else 3
    for _ in range(k):
        a = rng.randint(0, max(0, total - 1))
        mode = rng.random()
        if mode < 0.35:
            out.append([[a, BIG]])
        elif mode < 0.8:
            out.append([[a, a + rng.choice([1, 1, 2, 3, 5])]])
        else:
            a2 = a + rng.randint(2, 6)
            out.append([[a, a + 1], [a2, a2 + rng.choice([1, 2])]])
    return out


def corpus_cases():
    d = ROOT / "corpus" / PROP
    for f in sorted(d.glob("*.json")):
        c = json.loads(f.read_text())
        if c.get("kind", "history") == "history":
            yield f.name, c["config"], c["ops"], c.get("faults", [])


def check_shas(chk: Check, ctx: Ctx) -> bool:
    """the script models are pinned to the SHA1 of the Lua texts: recompute them from the repository"""
    pinned = dict(p.split("=") for p in ctx.drv.ask("shas").split(" "))
    now = rs.script_shas(rs.REPO)
    if pinned != now:
        changed = sorted(k for k in set(pinned) | set(now) if pinned.get(k) != now.get(k))
        chk.violation(
            f"Lua script text in cashews/backends/redis/backend.py changed ({', '.join(changed)}): the Lean script models are pinned to the SHA1 "
            f"of the old text and no longer describe what the server would run",
            {"broken": "pinning of Model/RedisSrv.lean script models to backend.py", "pinned": pinned, "in_repo": now},
            signature=None, no_input=True)
        return False
    return True


# ------------------------------------------------------------------------------------------------ decorators on a down backend

DECOS = ["cache", "early", "soft", "hit", "failover", "dynamic", "locked", "rate_limit", "slice_rate_limit", "circuit_breaker",
         "bloom", "dual_bloom", "iterator", "stack", "bloom_nocheck",
         # the same decorators over a function that RAISES its own exception: that exception is "its own result"
         "cache!fail", "early!fail", "soft!fail", "hit!fail", "failover!fail", "locked!fail", "rate_limit!fail", "circuit_breaker!fail"]
BOOLEAN_DECOS = ("bloom", "dual_bloom", "bloom_nocheck")


class OwnError(Exception):
    """what a decorated function of the harness raises itself"""


def decorate(cache, name, body, gen_body):
    name = name.split("!")[0]
    if name == "bloom_nocheck":
        return cache.bloom(capacity=10, false_positives=10, check_false_positive=False)(body)
    if name == "cache":
        return cache(ttl=2)(body)
    if name == "early":
        return cache.early(ttl=2, early_ttl=1)(body)
    if name == "soft":
        return cache.soft(ttl=2, soft_ttl=1)(body)
    if name == "hit":
        return cache.hit(ttl=2, cache_hits=2, update_after=1)(body)
    if name == "failover":
        return cache.failover(ttl=2)(body)
    if name == "dynamic":
        return cache.dynamic()(body)
    if name == "locked":
        return cache.locked(ttl=1)(body)
    if name == "rate_limit":
        return cache.rate_limit(limit=1, period=1, ttl=1)(body)
    if name == "slice_rate_limit":
        return cache.slice_rate_limit(limit=1, period=1)(body)
    if name == "circuit_breaker":
        return cache.circuit_breaker(ttl=1, errors_rate=1, period=1)(body)
    if name == "bloom":
        return cache.bloom(capacity=10, false_positives=10)(body)
    if name == "dual_bloom":
        return cache.dual_bloom(capacity=10, false=10)(body)
    if name == "iterator":
        return cache.iterator(ttl=2)(gen_body)
    if name == "stack":
        f = cache.locked(ttl=1)(body)
        f = cache.dynamic()(f)
        f = cache.early(ttl=1, early_ttl=0.5)(f)
        f = cache.rate_limit(ttl=1, limit=1, period=1)(f)
        f = cache.circuit_breaker(ttl=1, errors_rate=1, period=1)(f)
        f = cache.hit(ttl=1, cache_hits=1)(f)
        f = cache.failover(1)(f)
        return cache(ttl=1)(f)
    raise HarnessError(name)


def run_decorated(drv, name: str, suppress: bool, faults: list, ncalls: int, adv: int):
    """-> list of per-invocation records"""

    async def go():
        from cashews import Cache
        from cashews.exceptions import CacheBackendInteractionError, LockedError, RateLimitError
        from cashews.exceptions import CircuitBreakerOpen

        if drv.ask(f"reset {1 if suppress else 0}") != "ok":
            raise HarnessError("driver refused reset")
        server = rs.LeanServer(drv)
        server.down = lambda n: any(a <= n < b for a, b in faults)
        server.spin_limit = 64      # a lock wait loop (`sleep(0)` + set_lock + ping) must see time pass
        server.max_calls = 20000
        rs.unregister()
        rs.register(server, "redis://verif:6379")
        cache = Cache()
        cache.setup("redis://verif:6379", suppress=suppress)
        await cache.init()
        made = []
        boolean = name in BOOLEAN_DECOS
        failing = name.endswith("!fail")

        async def body(x):
            v = (len(made) % 2 == 0) if boolean else f"val{len(made)}"
            made.append(v)
            if failing:
                raise OwnError(v)
            return v

        async def gen_body(x):
            v = f"val{len(made)}"
            made.append(v)
            yield v
            yield v + "b"

        f = decorate(cache, name, body, gen_body)
        recs = []
        for _ in range(ncalls):
            c0, f0, m0 = server.calls, server.failed_calls, len(made)
            try:
                if name == "iterator":
                    r = [x async for x in f("x")]
                    r = r[0] if len(r) == 2 and r[1] == r[0] + "b" else ("?items", r)
                else:
                    r = await f("x")
                exc = None
            except (RateLimitError, CircuitBreakerOpen, LockedError) as e:
                r, exc = None, "own:" + type(e).__name__
            except OwnError as e:
                r, exc = str(e), "ownerr"
            except CacheBackendInteractionError:
                r, exc = None, "CacheBackendInteractionError"
            except rs.LivelockGuard as e:
                recs.append({"result": None, "exc": f"other:never returned ({e})", "calls": server.calls - c0,
                             "failed": server.failed_calls - f0, "body_runs": len(made) - m0, "fresh": None, "made": list(made)})
                break
            except Exception as e:  # noqa: BLE001
                r, exc = None, f"other:{type(e).__name__}: {e}"
            for _ in range(4):
                await asyncio.sleep(0)     # background refresh tasks
            recs.append({"result": r, "exc": exc, "calls": server.calls - c0, "failed": server.failed_calls - f0,
                         "body_runs": len(made) - m0, "fresh": made[-1] if len(made) > m0 else None, "made": list(made)})
            CLOCK.advance(adv)
        try:
            await cache.close()
        except Exception:  # noqa: BLE001
            pass
        return recs

    try:
        return vtime.run(go)
    finally:
        rs.unregister()


def judge_decorated(name, suppress, recs) -> tuple[str, str | None] | None:
    """-> (what, signature) for the first invocation that contradicts 'every decorated function still returns its own result'"""
    for i, r in enumerate(recs):
        alldown = r["calls"] > 0 and r["failed"] == r["calls"]
        allup = r["failed"] == 0
        if r["exc"] and r["exc"].startswith("other:"):
            d27 = name in BOOLEAN_DECOS + ("stack",) and "TypeError: 'NoneType' object is not iterable" in r["exc"] and r["failed"]
            d62 = name == "circuit_breaker!fail" and "TypeError" in r["exc"] and r["failed"]
            return (f"invocation {i} of the {name}-decorated function raised {r['exc']}" + (" instead of the function's own exception" if d62 else ""),
                    KNOWN_SIGS["D27"] if d27 else KNOWN_SIGS["D62"] if d62 else None)
        if r["exc"] == "ownerr":
            # the function's own exception came out: that is its own result (the body ran for it)
            if r["result"] not in r["made"]:
                return f"invocation {i} of the {name}-decorated function raised an exception the body never raised", None
            continue
        if name.endswith("!fail") and r["exc"] is None:
            return f"invocation {i} of the {name}-decorated function returned {r['result']!r} although the function raises", None
        if name == "bloom_nocheck" and suppress and alldown and r["exc"] is None and r["body_runs"] == 0 and r["result"] is True:
            return (f"invocation {i} of the bloom-decorated function (check_false_positive=False) answered True with the server down "
                    f"(nothing is known about the key: the empty answer of get_bits was read as 'every bit is set'; the function was not called)"), KNOWN_SIGS["D61"]
        if suppress:
            if r["exc"] == "CacheBackendInteractionError":
                return f"invocation {i} of the {name}-decorated function raised CacheBackendInteractionError with suppression on", None
            if alldown:
                if r["exc"]:
                    return f"invocation {i} of the {name}-decorated function raised {r['exc']} while the server was down", None
                if r["body_runs"] != 1 or r["result"] != r["fresh"]:
                    return (f"invocation {i} of the {name}-decorated function with the server down returned {r['result']!r} "
                            f"(body ran {r['body_runs']}x, its result {r['fresh']!r})"), None
        if r["exc"] is None and isinstance(r["result"], tuple) and r["result"][:1] == ("?items",):
            return (f"invocation {i} of the iterator-decorated function yielded {r['result'][1]!r}: not a run of the function "
                    f"({r['failed']} of {r['calls']} backend calls failed)"), (KNOWN_SIGS["D30"] if any(q["failed"] for q in recs[:i + 1]) else None)
        own = r["result"] in r["made"] or (name in BOOLEAN_DECOS and r["result"] in (True, False) and not alldown)
        if r["exc"] is None and not own:
            return f"invocation {i} of the {name}-decorated function returned {r['result']!r}, never produced by the body", None
    return None


def decorator_stage(chk: Check, ctx: Ctx) -> tuple[int, int]:
    n = 0
    nontrivial = 0
    plans = [[[0, BIG]]] + [[[a, BIG]] for a in (1, 2, 3, 4, 5, 8)] + [[[a, a + 2]] for a in (0, 1, 3)]
    if chk.thorough:
        plans += [[[a, BIG]] for a in range(4, 30)] + [[[a, a + w]] for a in range(0, 12) for w in (1, 3)]
    for name in DECOS:
        for suppress in (True, False):
            for faults in plans if suppress else plans[:3]:
                for adv in (0, 4, 16):
                    recs = run_decorated(ctx.drv, name, suppress, faults, 3, adv)
                    n += 1
                    if any(r["failed"] for r in recs):
                        nontrivial += 1
                    res = judge_decorated(name, suppress, recs)
                    if res:
                        why, ksig = res
                        sig = ksig or f"decorator:{name}:{'suppress' if suppress else 'raise'}"
                        if sig in ctx.reported_sigs:
                            continue
                        ctx.reported_sigs.add(sig)
                        known = ksig is not None and any(f.get("status") == "known" and f.get("signature") == ksig for f in chk.known)
                        chk.violation(why + f" (faults {faults}, advance {adv} ticks between invocations)",
                                      {"kind": "decorated", "decorator": name, "suppress": suppress, "faults": faults, "adv": adv,
                                       "invocations": recs, "replay_cmd": "./check C19 --replay <this file>"},
                                      signature=ksig)
                        if not known:
                            ctx.found += 1
    return n, nontrivial


# ------------------------------------------------------------------------------------------------ waiting for a lock when the server goes down

def corpus_lock_cases():
    for f in sorted((ROOT / "corpus" / PROP).glob("*.json")):
        c = json.loads(f.read_text())
        if c.get("kind") == "lock_body_error":
            rec = rl.run_body_error(ctx.drv, c["case"])
            print(rec)
            p = rl.judge_body_error(c["case"], rec)
            if p:
                print(f"VIOLATION property={PROP} replay={path}\n  ({p['what']})")
                return 1
            print("replay: no disagreement")
            return 0
        if c.get("kind") == "lockwait":
            yield f.name, c["case"]


def lockwait_replay(case, rec, p, origin):
    return {"kind": "lockwait", "case": case, "origin": origin, "problem": p["kind"],
            "scenario": "HOLDER takes the lock and stays in its body; WAITER enters the wait loop; the server goes down at the waiter's "
                        "client call #case.outage[0] (0 = its first SET NX, 1 = its first PING, …) for case.outage[1] calls (null = for good)",
            "record": {k: (([show_wire([e]) for e in v[:16]] + ([f"… {len(v) - 16} more calls"] if len(v) > 16 else []))
                           if k.endswith("_wire") else v) for k, v in rec.items()},
            "replay_cmd": "./check C19 --replay <this file>"}


def lock_stage(chk: Check, ctx: Ctx) -> dict:
    """a holder keeps the lock while a waiter is inside the wait loop; the outage begins at every call position of that loop"""
    stats = {"runs": 0, "nontrivial": 0, "outcomes": {}, "model_outcomes": {}, "exhaustive_grid": None}
    cases = [(f"corpus:{n}", c) for n, c in corpus_lock_cases()] + [("grid", c) for c in rl.lock_cases(chk.thorough)]
    stats["exhaustive_grid"] = (f"{len(rl.VARIANTS)} variants x suppress on/off x outage start at waiter call 0..{12 if chk.thorough else 7} x "
                                f"outage length (for good / 40 calls{' / 1 / 2' if chk.thorough else ''}) + check_interval 1 tick + wait=False")
    seen_sigs = set()
    for origin, case in cases:
        rec = rl.run_lockwait(ctx.drv, case)
        stats["runs"] += 1
        if rec["waiter_calls_while_down"]:
            stats["nontrivial"] += 1
        k = f"{case['variant']}:{rec['waiter'].split(':')[0]}"
        stats["outcomes"][k] = stats["outcomes"].get(k, 0) + 1
        stats["model_outcomes"][str(rec["model"])] = stats["model_outcomes"].get(str(rec["model"]), 0) + 1
        probs = rl.judge_lockwait(case, rec)
        if not probs:
            continue
        props = [p for p in probs if p["kind"] == "property"]
        if not props:
            if ctx.pending_lock_corr is None:
                ctx.pending_lock_corr = (case, rec, probs[0], origin)
            continue
        p = props[0]
        sig = (case["variant"], p["sig"] or p["what"][:40])
        if sig in seen_sigs or len(seen_sigs) >= 3:
            continue
        seen_sigs.add(sig)
        chk.violation(p["what"], lockwait_replay(case, rec, p, origin), signature=None)
        ctx.found += 1
    # the protected block raises: its exception comes out unchanged, however the caller got into the block
    stats["body_error_runs"] = 0
    for case in rl.body_error_cases():
        rec = rl.run_body_error(ctx.drv, case)
        stats["runs"] += 1
        stats["body_error_runs"] += 1
        p = rl.judge_body_error(case, rec)
        if p is None or (p["sig"] or p["what"]) in seen_sigs:
            continue
        seen_sigs.add(p["sig"] or p["what"])
        known = p["sig"] is not None and any(f.get("status") == "known" and f.get("signature") == p["sig"] for f in chk.known)
        chk.violation(p["what"], {"kind": "lock_body_error", "case": case, "record": rec, "replay_cmd": "./check C19 --replay <this file>"},
                      signature=p["sig"])
        if not known:
            ctx.found += 1
    return stats


# ------------------------------------------------------------------------------------------------ Redis vs the in-memory reference backend

async def _w_set_add_ttl(cache):
    await cache.set_add("S:w", "a", expire=100)
    e1 = await cache.get_expire("S:w")
    await cache.set_add("S:w", "b", expire=1)
    return [e1, await cache.get_expire("S:w")]


CROSS_WITNESSES = [
    ("D68:redis-set-add-shortens-ttl", _w_set_add_ttl,
     "set_add('S:w','a',expire=100); set_add('S:w','b',expire=1); get_expire('S:w')",
     "a later set_add with a shorter ttl SHORTENS the life of the whole set (SADD + unconditional PEXPIRE); the in-memory backend - C01's "
     "reference TTL map - never shortens it"),
]


def cross_backend_stage(chk: Check, ctx: Ctx) -> int:
    """fixed scripts on the Redis backend (stub, server up) and on mem://: where the two backends are KNOWN to differ"""

    def run_on(fn, redis_backend: bool):
        async def go():
            from cashews import Cache

            cache = Cache()
            if redis_backend:
                if ctx.drv.ask("reset 1") != "ok":
                    raise HarnessError("driver refused reset")
                server = rs.LeanServer(ctx.drv)
                rs.unregister()
                rs.register(server, "redis://verif:6379")
                cache.setup("redis://verif:6379", suppress=True)
            else:
                cache.setup("mem://")
            await cache.init()
            try:
                return await fn(cache)
            finally:
                try:
                    await cache.close()
                except Exception:  # noqa: BLE001
                    pass
        try:
            return vtime.run(go)
        finally:
            rs.unregister()

    n = 0
    for sig, fn, script, why in CROSS_WITNESSES:
        on_redis, on_mem = run_on(fn, True), run_on(fn, False)
        n += 2
        if on_redis != on_mem:
            # (not counted in ctx.found: a recorded difference between the backends must not silence the correspondence report)
            chk.violation(f"Redis backend differs from the reference (in-memory) backend: {script} -> redis {on_redis}, memory {on_mem}: {why}",
                          {"kind": "cross_backend", "signature": sig, "script": script, "redis": on_redis, "memory": on_mem}, signature=sig)
    return n


# ------------------------------------------------------------------------------------------------ entry points

CFGS = [{"suppress": True, "facade": False}, {"suppress": True, "facade": True}, {"suppress": False, "facade": False},
        {"suppress": True, "facade": False, "fault": "os"}, {"suppress": False, "facade": True},
        {"suppress": True, "facade": True, "fault": "timeout"}, {"suppress": False, "facade": False, "fault": "os"}]
# ("fault": how an unreachable server shows at the client - redis.ConnectionError (default), OSError, asyncio.TimeoutError;
#  client.py promises the same treatment for all of them)


def run(chk: Check) -> int:
    proof = proof_stage(PROP, "driver_c19", chk.thorough) if not getattr(chk, "skip_proof", False) else None
    ctx = Ctx(chk)
    try:
        pinned_ok = check_shas(chk, ctx)
        ncorpus = 0
        exhaustive_cases = 0
        # corpus first
        for name, cfg, ops, faults in corpus_cases():
            ncorpus += 1
            steps, probs = ctx.run(cfg, ops, faults)
            ctx.account(cfg, ops, faults, steps)
            if probs:
                ctx.handle(cfg, ops, faults, steps, probs, "corpus:" + name)
        # generated histories
        n = chk.budget(400, 1500)
        for i in range(n):
            if ctx.found >= 3:
                break
            cfg = CFGS[i % len(CFGS)]
            ops = rh.gen_history(chk.rng, 30 if i % 3 else 8)
            if cfg.get("facade"):
                ops = [op for op in ops if not (op[0] == "delmany" and not op[1])] or [["ping"]]
            steps, probs = ctx.run(cfg, ops, [])
            ctx.account(cfg, ops, [], steps)
            if probs and ctx.handle(cfg, ops, [], steps, probs, f"gen:{i}"):
                continue
            small = len(ops) <= 5 and i % 3 == 0
            variants = fault_variants(chk.rng, steps, chk.thorough, exhaustive=small)
            if small:
                exhaustive_cases += 1
            for faults in variants:
                steps2, probs2 = ctx.run(cfg, ops, faults)
                ctx.account(cfg, ops, faults, steps2)
                ctx.fault_variants += 1
                if probs2 and ctx.handle(cfg, ops, faults, steps2, probs2, f"gen:{i}+faults"):
                    break
        ndeco, ndeco_nt = decorator_stage(chk, ctx)
        lock = lock_stage(chk, ctx)
        ncross = cross_backend_stage(chk, ctx)
        if ctx.pending_corr is not None and ctx.found == 0:
            ctx.report_correspondence()
        elif ctx.pending_lock_corr is not None and ctx.found == 0:
            case, rec, p, origin = ctx.pending_lock_corr
            chk.violation("correspondence broken (interface.py lock() / transaction.py _lock_updates vs Model/RedisLock.lean; the waiter came back "
                          "as the property demands): " + p["what"],
                          dict(lockwait_replay(case, rec, p, origin),
                               broken="correspondence Model/RedisLock.lean <-> cashews/backends/interface.py lock(), cashews/backends/transaction.py _lock_updates"),
                          signature=None, no_input=True)
            ctx.found += 1
        if proof is not None:
            chk.proof_broken(proof, ctx.found > 0)
        chk.coverage.update({
            "evaluations": ctx.evaluations + ndeco + lock["runs"] + ncross,
            "cross_backend_witness_runs": ncross,
            "distinct_nontrivial": len(ctx.distinct) + ndeco_nt + lock["nontrivial"],
            "rule": "histories of 1..30 commands (27 command kinds over string/lock/set/sorted-set/bit-array keys, ms TTLs as multiples of 125 ms, "
                    "virtual-time advances) generated from VERIF_SEED, round-robin over suppress on/off x raw backend/Cache facade; every history is run "
                    "fault-free and then with the connection down over intervals of client-call indices (thorough: down from EVERY call position, "
                    "quick: sampled; histories of <= 5 commands: every start position x every length 1..4 and 'forever'). A case is non-trivial iff "
                    "it reached an interesting state (list in interesting_states_cases); distinct = distinct (config, ops, fault intervals). "
                    "Decorator runs (14 decorators/stacks x suppress x fault plans x advances) count as non-trivial when at least one call failed. "
                    "Lock-wait runs (two tasks on the virtual loop: a holder inside its body, a waiter inside the wait loop of lock() / @locked / "
                    "@cache(lock=True) / a LOCKED transaction; the outage begins at EVERY client-call position 0..N of the waiter's loop, for good or "
                    "for a number of calls; suppress on/off; check_interval 0 and 1 tick; wait=False) are an exhaustive grid (lock_wait_grid) and "
                    "count as non-trivial when the waiter made at least one call while the server was down.",
            "samples": ctx.samples,
            "corpus_cases": ncorpus,
            "history_runs": ctx.evaluations,
            "fault_variant_runs": ctx.fault_variants,
            "histories_with_exhaustive_fault_positions": exhaustive_cases,
            "decorator_runs": ndeco,
            "lock_wait_runs": lock["runs"],
            "lock_body_error_runs": lock["body_error_runs"],
            "lock_wait_grid": lock["exhaustive_grid"],
            "lock_wait_outcomes": lock["outcomes"],
            "lock_wait_model_outcomes": lock["model_outcomes"],
            "op_histogram": ctx.op_hist,
            "interesting_states_cases": ctx.interesting,
            "driver_requests": ctx.drv.requests,
            "script_shas_match_repo": pinned_ok,
            "trusted_base": TRUSTED,
            "partial": PARTIAL,
        })
        chk.assumptions.extend(TRUSTED)
        return chk.finish(proof)
    finally:
        ctx.drv.close()


def replay(chk: Check, path: str) -> int:
    c = json.loads(Path(path).read_text())
    ctx = Ctx(chk)
    try:
        if c.get("kind") == "decorated":
            recs = run_decorated(ctx.drv, c["decorator"], c["suppress"], c["faults"], len(c.get("invocations", [1, 2, 3])), c["adv"])
            for r in recs:
                print(r)
            res = judge_decorated(c["decorator"], c["suppress"], recs)
            if res and not (res[1] and any(f.get("status") == "known" and f.get("signature") == res[1] for f in chk.known)):
                print(f"VIOLATION property={PROP} replay={path}\n  ({res[0]})")
                return 1
            print("replay: no disagreement")
            return 0
        if c.get("kind") == "lockwait":
            rec = rl.run_lockwait(ctx.drv, c["case"])
            for k, v in rec.items():
                print(f"  {k}: {show_wire(v[:16]) + (f' … {len(v) - 16} more calls' if len(v) > 16 else '') if k.endswith('_wire') else v}")
            probs = rl.judge_lockwait(c["case"], rec)
            for p in probs:
                print("  " + p["kind"] + ": " + p["what"])
            if probs:
                print(f"VIOLATION property={PROP} replay={path}")
                return 1
            print("replay: no disagreement")
            return 0
        if "ops" not in c:
            print("replay file carries no input (broken proof / pinning); nothing to run")
            return 0
        steps, probs = ctx.run(c["config"], c["ops"], c.get("faults", []))
        for s in steps:
            print(f"{s['line'][:60]:60s} impl={s['impl']:16s} model={s['model']:16s} ref={s['spec']:16s} wire={show_wire(s['impl_wire'])}")
        probs = [p for p in probs if not (p["sig"] and any(f.get("status") == "known" and f.get("signature") == p["sig"] for f in chk.known))]
        if not probs:
            print("replay: no disagreement")
            return 0
        for p in probs:
            print("  " + p["kind"] + ": " + p["what"])
        print(f"VIOLATION property={PROP} replay={path}")
        return 1
    finally:
        ctx.drv.close()
