"""C08 - cache keys are canonical per bound arguments and separate different arguments.

proof: lean/CashewsVerif/Props/C08.lean (key depends only on the bound arguments; omitted defaults,
       positional-vs-keyword forms and reordered keyword arguments keep the key; separated templates are injective on ':'-free field texts;
       generated templates are separated; per-type injectivity of the rendering incl. UTF-8 decoding and hex,
       and the exact shape of the bytes collisions).
tie:   real functions with every signature shape of <= 4 parameters are built with exec; for each, automatic
       and explicit templates, bound tuples from the typed alphabet and every equivalent call form are run
       through cashews.key.get_cache_key / get_cache_key_template (and through @cache on a recording
       Cache('mem://')) and through the compiled Lean model; compared: template string, key (or TypeError),
       and the four inspect bindings.  The property itself (same key for all forms of one bound tuple;
       different keys for tuples that differ in a mentioned parameter inside the stated domain) is evaluated
       on the implementation's own keys.
text:  a `str` is rendered as itself, whatever its code points (`str_text_is_identity`): a dedicated stream places
       families of different strings that look-alike notions identify (canonical / compatibility equivalence, case,
       white space at the ends, zero-width and control characters, lossy re-encodings, non-BMP, homoglyphs) - and
       their UTF-8 bytes - as arguments, *args items, tuple items, dict values, **kwargs values, defaults and
       key-context values; all pairs inside a family are separation pairs.
"""
from __future__ import annotations

import copy
import inspect
import itertools
import json
from pathlib import Path

from .. import keycases as kc
from .. import vtime
from ..core import ROOT, Check, Driver, HarnessError, ddmin, proof_stage

PROP = "C08"
DRIVER = Driver("driver_c08", "Drivers/C08.lean")
BYTES_SIG = "C08:bytes-undecodable-hex-collision"
TEMPLATE_NAME_SIG = "C08:parameter-named-template"      # repaired by proposed_fixes/D56_C08_parameter_named_template.diff
SET_ORDER_SIG = "D50:set-argument-order"                 # repaired by proposed_fixes/D50_set_argument_order.diff
NOSELF_REUSE_SIG = "C08:noself-decorator-reuse"         # repaired by proposed_fixes/D57_C08_noself_decorator_reuse.diff
SPEC_KINDS = ("canon", "sep", "facade", "flight", "ambient")
BINDS = {"b": "bind", "p": "bind_partial", "d": "bind+apply_defaults", "q": "bind_partial+apply_defaults"}

TRUSTED = [
    "Lean 4.33.0 kernel; axioms of every theorem audited to be within {propext, Classical.choice, Quot.sound}",
    "hand-written model lean/CashewsVerif/Model/Key.lean of cashews/key.py, cashews/formatter.py (plain {name} fields, "
    "value types str/int/bool/None/bytes/tuple/dict/set), the template noself derives, the single-flight key of thunder_protection, "
    "cashews/key_context.py and of inspect.Signature.bind/bind_partial/"
    "apply_defaults, tied to the code by this run's input correspondence (keys, template strings and all four bindings compared)",
    "CPython: str.format / string.Formatter parsing of the template text, str(int), bytes.decode/hex, sorted() on str keys "
    "(their models are compared with the real thing on every value of the run, not proved about CPython)",
    "harness: exec-built functions, token encoding of values, canonical (type-tagged) equality of bound tuples",
]

PARTIAL = (
    "not modelled: positional-only parameters, format specs / conversions / attribute and index lookups in template fields "
    "({a.b}, {a:hash}, {a!r}), the registered format functions, list/set/Exception/other value types, dicts with non-str keys "
    "(a TypeError while rendering an unmentioned argument also flips the formatter to its slow path), braces inside literals. "
    "Insertion order of a dict passed as an argument: proved for the rendered text of a top-level dict only, nested dicts and the lift to "
    "whole calls rest on the correspondence (call forms with flipped dict orders are generated). "
    "Separation is only claimed (and only checked) for templates whose consecutive fields are separated by a literal containing ':', "
    "for field texts without ':', for values of one structural type, and not under the deprecated key_context(rewrite=True) when a "
    "context name shadows a field; bytes are excluded from the proved per-type injectivity because the code's rendering of bytes is "
    "not injective (known finding " + BYTES_SIG + "). "
    "Text: strings are sequences of Unicode scalar values in the model and in the token syntax (UTF-8), so a Python str holding a lone "
    "surrogate is not exercised; the look-alike families are a fixed list (canonical / compatibility equivalence, case, white space, "
    "zero-width and control characters, lossy re-encodings, length, non-BMP, homoglyphs) plus random strings over a code-point palette for the "
    "rendering of single values - a renderer that merges two strings outside these classes is only met by chance. Inside containers "
    "(tuple items beyond a 1-tuple, dict and **kwargs values) the field text contains ':', so a merging renderer there is reported as a broken "
    "correspondence with the model, not as a violated separation. "
    "Receivers: a function whose first parameter is called self / cls and an object with __str__ passed for it stand for methods; real bound "
    "methods, classmethod objects and class bodies are not built. Overlap: pairs of calls (the second one started while the first one is parked "
    "inside the function body) through cache / early / soft with the default protected=True on the in-memory backend; lock=True, more than "
    "two overlapping calls, calls overlapping a recalculation of early / soft and overlap across event loops are not exercised. Sets: the "
    "permutation invariance of a set's text is proved for a top-level set (like for dicts); sets of at most 3 small elements are generated, "
    "frozensets are not (the repaired formatter renders them like sets). "
    "Context: where the line is - a user-written key_context (no rewrite) reaches a key only through fields the call does not bind ({site}, {@}): proved "
    "and checked, also with a context value under every parameter name; a user-written key_context(rewrite=True) is the deprecated, explicit request to "
    "override fields: modelled and compared, separation not claimed where a context name shadows a field; a key context opened by the library itself "
    "(invalidate's rewrite context around delete_match) must never surround user code: calls are made inside the body of an enclosing function with the "
    "same parameter names under invalidate (two forms), cache, early, soft, hit, failover, locked, circuit_breaker, rate_limit, slice_rate_limit and "
    "disabling, and must read the key they have outside it. Not exercised as enclosing contexts: cache.transaction() and cache.invalidate_further() "
    "(reads do not reach the backend's get there), iterator / bloom / dynamic decorators, contrib middlewares. "
    "Wrapping options: time_condition=, lock=True, upper=True, protected=False (and combinations) and the cache decorator stacked on locked / rate_limit / "
    "slice_rate_limit / circuit_breaker / invalidate are exercised through cache(ttl=..) only (early / soft / hit / failover take the same facade path "
    "_wrap_on but their key prefixes and read patterns are not modelled); the stage is judged by the existing oracles (canonicity, separation, facade) and "
    "the model's template - the wrappers themselves are not modelled in Lean; through noself a wrapper that hides the signature makes the decorator refuse "
    "the explicit template (WrongKeyError), which is counted, not judged."
)


# ----------------------------------------------------------------------------------------------
# evaluation of one batch of cases

def parse_answer(ans: str) -> dict | None:
    if not ans.startswith("key="):
        return None
    try:
        return dict(p.split("=", 1) for p in ans.split(" "))
    except ValueError:
        return None


def model_key(hexkey: str) -> str:
    return "E:TypeError" if hexkey == "E" else "K:" + bytes.fromhex(hexkey).decode("utf-8")


DECORATED = ("decorator", "noself")


def run_impl(case) -> dict:
    if case["via"] in DECORATED:
        try:
            out = vtime.run(kc.run_decorated, case)
        except kc.InsideError as exc:
            raise HarnessError(str(exc)) from exc
        if case.get("flight") and not out.get("decor_error"):
            try:
                out["flight"] = vtime.run(kc.run_flight, case)
            except kc.FlightStuck as exc:
                raise HarnessError(str(exc)) from exc
        return out
    return kc.run_direct(case)


def ask_model(cases) -> list[dict]:
    lines, spans = [], []
    for case in cases:
        cl = kc.case_lines(case)
        spans.append((len(lines), len(cl)))
        lines += cl
    answers = DRIVER.ask(lines) if lines else []
    out = []
    for (start, n), case in zip(spans, cases):
        a = answers[start:start + n]
        if a[0] != "ok" or not a[1].startswith("tmpl=") or a[2] != "ok":
            raise HarnessError(f"model driver rejected a case header: {a[:3]} for {kc.case_lines(case)[:3]}")
        calls = [parse_answer(x) for x in a[3:]]
        if any(c is None for c in calls):
            raise HarnessError(f"model driver could not parse a call line: {a[3:]}")
        head = dict(p.split("=", 1) for p in a[1].split(" "))
        out.append({"tmpl": bytes.fromhex(head["tmpl"]).decode("utf-8"), "sep": head["sep"] == "1", "calls": calls})
    return out


def non_ascii_text(tok: str) -> bool:
    """a value (token syntax) with a str / key / valid-UTF-8 bytes leaf outside ASCII"""
    for t in tok.split():
        kind, _, h = t.partition(":")
        if kind in ("s", "k", "y") and h:
            raw = bytes.fromhex(h)
            if raw.isascii():
                continue
            if kind != "y":
                return True
            try:
                raw.decode("utf-8")
                return True
            except UnicodeDecodeError:
                pass
    return False


def set_orders(call) -> list:
    """the set arguments of a call with their element order (two forms of one call that differ here hold equal sets
    that iterate differently)"""
    vals = list(call["args"]) + [v for _, v in call["kwargs"]]
    return sorted(v for v in vals if any(t.startswith("e:") for t in v.split()))


def differ_in_set_order(c1, c2) -> bool:
    """both calls pass the same set arguments, at least one of them with its elements in another order"""
    a, b = set_orders(c1), set_orders(c2)
    return a != b and sorted(kc.canon(kc.dec(v)) for v in a) == sorted(kc.canon(kc.dec(v)) for v in b)


def explained_by_bytes(v1, v2) -> bool:
    """v1 != v2 differ only in bytes leaves of which at least one side is not valid UTF-8 (rendered as hex)"""
    if isinstance(v1, bytes) and isinstance(v2, bytes):
        if v1 == v2:
            return True

        def undecodable(b):
            try:
                b.decode()
                return False
            except UnicodeDecodeError:
                return True

        return undecodable(v1) or undecodable(v2)
    if isinstance(v1, tuple) and isinstance(v2, tuple) and len(v1) == len(v2):
        return all(explained_by_bytes(a, b) for a, b in zip(v1, v2))
    if isinstance(v1, dict) and isinstance(v2, dict) and sorted(v1) == sorted(v2):
        return all(explained_by_bytes(v1[k], v2[k]) for k in v1)
    return kc.canon(v1) == kc.canon(v2)


_TEXT: dict = {}


def text_of(v) -> str:
    c = kc.canon(v)
    if c not in _TEXT:
        _TEXT[c] = kc.text_of(v)
    return _TEXT[c]


def group_bounds(case):
    """bound arguments (Python's own bind + apply_defaults) of the first call of every group, as
    {field name: value}; None for an unbindable group"""
    func = kc.build_func(case)
    psig = inspect.signature(func)
    kinds = {n: k for k, n, _ in case["sig"]}
    out = []
    for g in case["groups"]:
        forms = []
        for c in g["calls"]:
            args, kwargs = kc.call_values(case, c)
            try:
                ba = psig.bind(*args, **kwargs)
            except TypeError:
                forms.append(None)
                continue
            ba.apply_defaults()
            forms.append({kc.param_key(kinds[n], n): v for n, v in ba.arguments.items()})
        canon = {None if b is None else kc.canon(b) for b in forms}
        if len(canon) != 1:
            raise HarnessError(f"calls of one group do not have the same bound arguments: {[pretty_call(c) for c in g['calls']]}")
        out.append(forms[0])
    return out


def evaluate(case, impl, model, stats=None) -> list[dict]:
    """all disagreements of one case: kinds tmpl / inspect / model (correspondence), canon / sep / facade (the property)"""
    fails = []
    stats = stats if stats is not None else {}

    def bump(k, n=1):
        stats[k] = stats.get(k, 0) + n

    tmpl_items = case["tmpl"].get("items")
    if impl.get("decor_error"):
        # the decorator refused the template (WrongKeyError for a field that is no parameter): nothing was keyed
        bump("decorator_refused_template")
        return fails
    if impl["tmpl"] != model["tmpl"]:
        fails.append({"kind": "tmpl", "detail": f"template: impl {impl['tmpl']!a} model {model['tmpl']!a}"})
    flat = [(gi, ci, c) for gi, g in enumerate(case["groups"]) for ci, c in enumerate(g["calls"])]
    if len(flat) != len(impl["calls"]) or len(flat) != len(model["calls"]):
        raise HarnessError("call count mismatch between case, implementation run and model run")
    keys = {}
    for (gi, ci, c), ic, mc in zip(flat, impl["calls"], model["calls"]):
        mk = model_key(mc["key"])
        keys[(gi, ci)] = ic["key"]
        if ic["key"] != mk:
            fails.append({"kind": "model", "at": [gi, ci], "detail": f"key: impl {ic['key']!a} model {mk!a} for call {pretty_call(c)}"})
        if case["via"] not in DECORATED:
            for f in "bpdq":
                if ic[f] != mc[f]:
                    fails.append({"kind": "inspect", "at": [gi, ci],
                                  "detail": f"binding {BINDS[f]}: python {ic[f]} model {mc[f]} for call {pretty_call(c)}"})
        else:
            direct = ic.get("direct")
            if case.get("inside"):
                bump("calls_inside_an_enclosing_decorated_function")
                here = ic.get("direct_here")
                if direct is not None and (direct != ic["key"] or (here is not None and here != direct)):
                    fails.append({"kind": "ambient", "at": [gi, ci],
                                  "detail": f"{pretty_call(c)} made inside the body of {enclosing_text(case)} read the key {ic['key']!a} "
                                            f"(get_cache_key there: {here!a}); the same call outside it has the key {direct!a}"})
            elif direct is not None and direct != ic["key"]:
                fails.append({"kind": "facade", "at": [gi, ci],
                              "detail": f"decorated call read {ic['key']!a} but get_cache_key gives {direct!a}"})
            if any(k != ic["gets"][0] for k in ic["gets"] + ic["sets"]) if ic["gets"] else False:
                fails.append({"kind": "facade", "at": [gi, ci], "detail": f"one call used several keys: {ic['gets']!a} {ic['sets']!a}"})
        # interesting states of this call
        if mc["path"] == "S":
            bump("formatter_slow_path")
        if not c["args"] and mc["q"] != "E" and mc["q"] != mc["p"]:
            bump("keyword_only_call_defaults_applied")
        if not c["args"] and mc["p"] == "E":
            bump("raw_kwargs_fallback")
        if mc["key"] == "E":
            bump("unbindable_positional_call_typeerror")
        if any(x == "n" for x in c["args"]) or any(v == "n" for _, v in c["kwargs"]):
            bump("toplevel_none_argument")
        if case.get("opts") or case.get("stack"):
            bump("calls_through_wrapping_options")
        if any(non_ascii_text(x) for x in c["args"]) or any(non_ascii_text(v) for _, v in c["kwargs"]):
            bump("calls_with_non_ascii_text")
    bounds = group_bounds(case)
    # --- the property, part 1: every form of one call has the same key
    for gi, g in enumerate(case["groups"]):
        if bounds[gi] is None:
            continue
        ks = [keys[(gi, ci)] for ci in range(len(g["calls"]))]
        if len(g["calls"]) > 1:
            bump("call_form_pairs_compared", len(g["calls"]) - 1)
        bad = [ci for ci, k in enumerate(ks) if k != ks[0] or not k.startswith("K:")]
        if bad and not ks[bad[0]].startswith("K:"):
            ci = bad[0]
            named = any(n == "template" for _, n, _ in case["sig"]) and ks[ci] == "E:TypeError"
            fails.append({"kind": "canon", "at": [gi, 0, ci], "signature": TEMPLATE_NAME_SIG if named else None,
                          "detail": f"a call that binds gets no key: {pretty_call(g['calls'][ci])} -> {ks[ci]!a}"})
        elif bad:
            ci = bad[0]
            fails.append({"kind": "canon", "at": [gi, 0, ci],
                          "signature": SET_ORDER_SIG if differ_in_set_order(g["calls"][0], g["calls"][ci]) else None,
                          "detail": f"same bound arguments, different keys: {pretty_call(g['calls'][0])} -> {ks[0]!a} but {pretty_call(g['calls'][ci])} -> {ks[ci]!a}"})
    # --- the property, part 2: different bound arguments (in the stated domain) have different keys
    fields = [t for k, t in (tmpl_items or []) if k == "F"]
    if tmpl_items is None:
        fields = [kc.param_key(k, n) for k, n, _ in case["sig"] if kc.param_key(k, n) not in case["tmpl"]["auto"]]
    separated = True if tmpl_items is None else kc.is_separated(tmpl_items)
    if separated != model["sep"]:
        fails.append({"kind": "tmpl", "detail": f"template {impl['tmpl']!a}: harness says separated={separated}, model says {model['sep']} "
                                                "(generated templates are proved separated)"})
    pkeys = {kc.param_key(k, n) for k, n, _ in case["sig"]}
    ctx = case.get("ctx")
    masked = bool(ctx and ctx["rewrite"] and any(n in fields for n, _ in ctx["vals"]))
    if separated and fields and all(f in pkeys for f in fields) and not masked:
        for i in range(len(bounds)):
            for j in range(i + 1, len(bounds)):
                bi, bj = bounds[i], bounds[j]
                if bi is None or bj is None:
                    continue
                texts_ok = all(text_of(b[f]) != "" and ":" not in text_of(b[f]) for b in (bi, bj) for f in fields)
                diff = [f for f in fields if kc.canon(bi[f]) != kc.canon(bj[f])]
                typed = [f for f in diff if kc.deep_type(bi[f]) == kc.deep_type(bj[f])]
                if not (texts_ok and typed):
                    continue
                bump("separation_pairs_checked")
                if any(any(kc.canon(bj[f]) == kc.canon(w) for w in kc.text_variants(bi[f])) for f in typed):
                    bump("separation_pairs_lookalike_text")
                ki, kj = keys[(i, 0)], keys[(j, 0)]
                if ki == kj and ki.startswith("K:"):
                    by_bytes = all(explained_by_bytes(bi[f], bj[f]) for f in diff)
                    fails.append({"kind": "sep", "at": [i, j], "signature": BYTES_SIG if by_bytes else None,
                                  "detail": f"bound arguments differ in {typed} but share the key {ki!a}: "
                                            f"{pretty_call(case['groups'][i]['calls'][0])} / {pretty_call(case['groups'][j]['calls'][0])}"})
    # --- the property at the facade: a decorated call never returns another tuple's result
    if case["via"] in DECORATED:
        writer = {}
        for (gi, ci, c), ic in zip(flat, impl["calls"]):
            exp = kc.expected_result(case, c)
            if exp is None:
                continue
            if ic["gets"]:
                writer.setdefault(ic["gets"][0], gi)
            if ic["result"].startswith("R:SIB:"):
                fails.append({"kind": "facade", "at": [gi, ci], "signature": NOSELF_REUSE_SIG,
                              "detail": f"decorated call {pretty_call(c)} returned {ic['result']!a}, the result of another function decorated "
                                        f"with the same noself(cache)(ttl=..) object (key read: {ic['key']!a})"})
            elif ic["result"] != exp:
                other = writer.get(ic["gets"][0]) if ic["gets"] else None
                sig = None
                if other is not None and other != gi and bounds[other] and bounds[gi]:
                    diff = [f for f in bounds[gi] if kc.canon(bounds[gi][f]) != kc.canon(bounds[other].get(f))]
                    if diff and all(explained_by_bytes(bounds[gi][f], bounds[other].get(f)) for f in diff):
                        sig = BYTES_SIG
                # outside the separation domain a shared key is not a violation of the statement
                in_domain = any(f["kind"] == "sep" and set(f["at"]) == {gi, other} for f in fails) if other is not None else True
                if in_domain:
                    fails.append({"kind": "facade", "at": [gi, ci], "signature": sig,
                                  "detail": f"decorated call {pretty_call(c)} returned {ic['result']!a}, its own result is {exp!a}"})
            bump("decorated_calls")
            if ic["ran"] == 0:
                bump("decorated_cache_hits")
    # --- the same under overlap (single flight): a call that starts while another call is still executing the function
    # gets its own result whenever the two cache keys differ; the model: the decorator's single-flight key is the cache
    # key without its prefix (`flight_key_shared_iff_cache_key_shared`), so two calls share one execution iff they
    # share the cache key
    idx = {(gi, ci): k for k, (gi, ci, _) in enumerate(flat)}
    for fl in impl.get("flight") or []:
        a, b = tuple(fl["a"]), tuple(fl["b"])
        ca, cb = case["groups"][a[0]]["calls"][a[1]], case["groups"][b[0]]["calls"][b[1]]
        ka, kb = keys[a], keys[b]
        ea, eb = kc.expected_result(case, ca), kc.expected_result(case, cb)
        if ea is None or eb is None or not (ka.startswith("K:") and kb.startswith("K:")):
            continue
        bump("overlapping_call_pairs")
        if ka != kb:
            bump("overlapping_pairs_with_different_keys")
            if fl["second_reached_body_while_first_parked"]:
                bump("overlapping_pairs_both_inside_the_function")
            if fl["ra"] != ea or fl["rb"] != eb:
                fails.append({"kind": "flight", "at": [a[0], a[1], b[0], b[1]],
                              "detail": f"{pretty_call(cb)} (cache key {kb!a}) was started while {pretty_call(ca)} (cache key {ka!a}) was "
                                        f"still executing and returned {fl['rb']!a}, its own result is {eb!a} (first call returned "
                                        f"{fl['ra']!a}; the function ran {fl['ran']} time(s))"})
                continue
        mka, mkb = model["calls"][idx[a]]["key"], model["calls"][idx[b]]["key"]
        joined_model = mka == mkb
        joined_impl = fl["ran"] == 1
        if joined_impl:
            bump("overlapping_pairs_joined_into_one_execution")
        if joined_model != joined_impl:
            fails.append({"kind": "flightmodel", "at": [a[0], a[1], b[0], b[1]],
                          "detail": f"overlapping calls {pretty_call(ca)} / {pretty_call(cb)}: the function ran {fl['ran']} time(s), the model's "
                                    f"single-flight keys are {'equal' if joined_model else 'different'}"})
    return fails


def add_direct_keys(case, impl):
    """for decorated cases: what get_cache_key itself says for the same calls with the decorator's template"""
    if case["via"] not in DECORATED or impl.get("decor_error"):
        return
    from cashews.key import get_cache_key

    func = kc.build_func(case)
    i = 0
    with kc._Ctx(case.get("ctx")):
        for g in case["groups"]:
            for c in g["calls"]:
                args, kwargs = kc.call_values(case, c)
                try:
                    impl["calls"][i]["direct"] = "K:" + get_cache_key(func, impl["tmpl"], args, kwargs)
                except Exception as exc:  # noqa: BLE001
                    impl["calls"][i]["direct"] = "E:" + type(exc).__name__
                i += 1


def check_cases(cases, stats=None, judge=True):
    impls = []
    for c in cases:
        im = run_impl(c)
        add_direct_keys(c, im)
        impls.append(im)
    models = ask_model(cases)
    return [(c, im, mo, evaluate(c, im, mo, stats) if judge else None) for c, im, mo in zip(cases, impls, models)]


# ----------------------------------------------------------------------------------------------
# shrinking

def restrict(case, fail) -> dict:
    """keep only the calls a failure talks about"""
    c = copy.deepcopy(case)
    at = fail.get("at")
    if fail["kind"] in ("model", "inspect", "ambient") and at:
        g = c["groups"][at[0]]
        c["groups"] = [{"calls": [g["calls"][at[1]]]}]
    elif fail["kind"] == "canon":
        g = c["groups"][at[0]]
        c["groups"] = [{"calls": [g["calls"][at[1]], g["calls"][at[2]]]}]
    elif fail["kind"] == "sep":
        c["groups"] = [{"calls": [c["groups"][at[0]]["calls"][0]]}, {"calls": [c["groups"][at[1]]["calls"][0]]}]
    elif fail["kind"] in ("flight", "flightmodel"):
        ga, gb = c["groups"][at[0]], c["groups"][at[2]]
        if at[0] == at[2]:
            c["groups"] = [{"calls": [ga["calls"][at[1]], ga["calls"][at[3]]]}]
        else:
            c["groups"] = [{"calls": [ga["calls"][at[1]]]}, {"calls": [gb["calls"][at[3]]]}]
    elif fail["kind"] == "tmpl":
        c["groups"] = []
    return c


def without_params(case, keep: list[int]) -> dict:
    c = copy.deepcopy(case)
    sig = case["sig"]
    kept = [sig[i] for i in keep]
    kept_names = {n for _, n, _ in kept}
    pos_names = [n for k, n, _ in sig if k == "p"]
    has_vp = any(k == "s" for k, _, _ in kept) or not any(k == "s" for k, _, _ in sig)
    has_vk = any(k == "w" for k, _, _ in kept) or not any(k == "w" for k, _, _ in sig)
    param_names = {n for k, n, _ in kept if k in "pk"}
    all_pk = {n for k, n, _ in sig if k in "pk"}
    c["sig"] = kept
    for g in c["groups"]:
        for call in g["calls"]:
            args = []
            for i, a in enumerate(call["args"]):
                if i < len(pos_names):
                    if pos_names[i] in kept_names:
                        args.append(a)
                elif has_vp:
                    args.append(a)
            call["args"] = args
            call["kwargs"] = [[n, v] for n, v in call["kwargs"] if n in param_names or (n not in all_pk and has_vk)]
    if "items" in c["tmpl"]:
        pk = {kc.param_key(k, n) for k, n, _ in kept}
        allpk = {kc.param_key(k, n) for k, n, _ in sig}
        c["tmpl"]["items"] = [it for it in c["tmpl"]["items"] if it[0] == "L" or it[1] in pk or it[1] not in allpk]
    else:
        c["tmpl"]["auto"] = [x for x in c["tmpl"]["auto"] if x in {kc.param_key(k, n) for k, n, _ in kept}]
    return c


def still_fails(case, kind) -> bool:
    try:
        (_, _, _, fails), = check_cases([case])
    except HarnessError:
        return False
    except Exception:  # noqa: BLE001 - a reduced case may be outside what the harness can build
        return False
    return any(f["kind"] == kind for f in fails)


def shrink(case, fail) -> dict:
    kind = fail["kind"]
    c = restrict(case, fail)
    if not still_fails(c, kind):
        c = copy.deepcopy(case)
    if c.get("ctx"):
        d = copy.deepcopy(c)
        d["ctx"] = None
        if still_fails(d, kind):
            c = d
    if c["via"] == "default":
        d = copy.deepcopy(c)
        d["via"] = "direct"
        if still_fails(d, kind):
            c = d
    for flag in ("flight", "recv", "reuse", "inside", "stack", "opts"):
        if c.get(flag) and not (flag == "flight" and kind in ("flight", "flightmodel")):
            d = copy.deepcopy(c)
            del d[flag]
            if still_fails(d, kind):
                c = d
    idx = list(range(len(c["sig"])))
    if len(idx) >= 2:
        base = c
        keep = ddmin(idx, lambda sub: still_fails(without_params(base, sorted(sub)), kind))
        if len(keep) < len(idx):
            d = without_params(base, sorted(keep))
            if still_fails(d, kind):
                c = d
    if len(c["sig"]) == 1:
        d = without_params(c, [])
        if still_fails(d, kind):
            c = d
    for i, (k, n, dflt) in enumerate(c["sig"]):
        if dflt is not None:
            d = copy.deepcopy(c)
            d["sig"][i][2] = None
            if still_fails(d, kind):
                c = d
    try:
        c = shrink_text(c, kind)
    except (ValueError, UnicodeError):
        pass
    return c


def _subst_tokens(case, mapping: dict) -> dict:
    """replace whole value tokens ('s:<hex>' / 'y:<hex>') everywhere a value can stand"""
    def sub(v):
        return " ".join(mapping.get(t, t) for t in v.split())

    c = copy.deepcopy(case)
    for prm in c["sig"]:
        if prm[2] is not None:
            prm[2] = sub(prm[2])
    if c.get("ctx"):
        c["ctx"]["vals"] = [[n, sub(v)] for n, v in c["ctx"]["vals"]]
    for g in c["groups"]:
        for call in g["calls"]:
            call["args"] = [sub(x) for x in call["args"]]
            call["kwargs"] = [[n, sub(v)] for n, v in call["kwargs"]]
    return c


def shrink_text(case, kind) -> dict:
    """shorten the strings (and valid-UTF-8 bytes) of a failing case: first two different ones together (their common
    prefix and suffix go), then every one alone (delta debugging on its code points)"""
    def txt(t):
        return bytes.fromhex(t[2:]).decode("utf-8")

    def tok(t, text):
        return t[:2] + kc.hx(text)

    def texts(c):
        seen = []
        vals = [v for g in c["groups"] for call in g["calls"] for v in call["args"] + [x for _, x in call["kwargs"]]]
        for v in vals:
            for t in v.split():
                if t[:2] in ("s:", "y:") and t not in seen:
                    try:
                        if len(txt(t)) >= 2:
                            seen.append(t)
                    except UnicodeDecodeError:
                        pass
        return seen

    c = case
    budget = [60]

    def attempt(mapping):
        if budget[0] <= 0 or all(k == v for k, v in mapping.items()):
            return None
        budget[0] -= 1
        d = _subst_tokens(c, mapping)
        return d if still_fails(d, kind) else None

    for ta, tb in itertools.combinations(texts(c), 2):
        if ta[:2] != tb[:2]:
            continue
        a, b = txt(ta), txt(tb)
        pre = 0
        while pre < min(len(a), len(b)) and a[pre] == b[pre]:
            pre += 1
        suf = 0
        while suf < min(len(a), len(b)) - pre and a[len(a) - 1 - suf] == b[len(b) - 1 - suf]:
            suf += 1
        for cp, cs in ((pre, suf), (pre, 0), (0, suf)):
            na, nb = a[cp:len(a) - cs], b[cp:len(b) - cs]
            if (cp or cs) and na and nb:
                d = attempt({ta: tok(ta, na), tb: tok(tb, nb)})
                if d is not None:
                    c = d
                    break
    for t in texts(c):
        s0 = txt(t)
        keep = ddmin(list(range(len(s0))), lambda sub: attempt({t: tok(t, "".join(s0[i] for i in sorted(sub)))}) is not None)
        if len(keep) < len(s0):
            d = attempt({t: tok(t, "".join(s0[i] for i in sorted(keep)))})
            if d is not None:
                c = d
    return c


def enclosing_text(case) -> str:
    okw = kc.outer_values(case)
    return f"outer({', '.join(f'{n}={v!a}' for n, v in okw.items())}) [cache.{case['inside']}]"


def pretty_call(c) -> str:
    # ascii(): look-alike strings ('caf\xe9' / 'cafe\u0301') must be told apart in a report
    a = [ascii(kc.dec(x)) for x in c["args"]] + [f"{n}={kc.dec(v)!a}" for n, v in c["kwargs"]]
    return "f(" + ", ".join(a) + ")"


def pretty_sig(case) -> str:
    params, ns = kc.sig_source(case["sig"])
    for k, v in ns.items():
        params = params.replace(k, ascii(v))
    ctx = case.get("ctx")
    extra = ""
    if ctx:
        extra = " under key_context(" + ", ".join(([("rewrite=True")] if ctx["rewrite"] else []) + [f"{n}={kc.dec(v)!a}" for n, v in ctx["vals"]]) + ")"
    how = {"noself": " through noself(cache)(ttl=..)", "decorator": " through cache(ttl=..)"}.get(case["via"], "")
    if case.get("flight") and how:
        how = how.replace("cache(", {"cache": "cache(", "early": "cache.early(", "soft": "cache.soft("}[case["flight"]])
    if case.get("opts") and how:
        how = how.replace("ttl=..", "ttl=.., " + ", ".join(f"{k}={v}" for k, v in case["opts"].items()))
    if case.get("stack") and how:
        how += f" on top of cache.{case['stack']}(..)"
    if case.get("inside"):
        how += f", called inside the body of {enclosing_text(case)}"
    if case.get("reuse"):
        how += ", after the same decorator object was applied to a function sib with the same signature"
    if case.get("recv") == "obj":
        how += ", first argument passed as an object with that __str__"
    return f"def {case['names']['name']}({params})" + extra + how


def report(chk: Check, case, fail, origin):
    small = shrink(case, fail)
    (_, impl, model, fails), = check_cases([small])
    same = [f for f in fails if f["kind"] == fail["kind"]] or [fail]
    f = same[0]
    replay = {
        "case": small,
        "python": {"signature": pretty_sig(small),
                   "template": impl.get("tmpl"),
                   "calls": [[pretty_call(c) for c in g["calls"]] for g in small["groups"]]},
        "impl": impl, "model": model, "failures": fails, "origin": origin,
        "replay_cmd": "./check C08 --replay <this file>",
    }
    kind = f["kind"]
    if kind in SPEC_KINDS:
        what = {"canon": "a call that binds gets no key" if "gets no key" in f["detail"] else "two forms of the same call get different cache keys",
                "sep": "two calls with different bound arguments get the same cache key",
                "facade": "a @cache-decorated call used another key / returned another call's result",
                "flight": "a decorated call overlapping a call with a different cache key received that call's result",
                "ambient": "the key of a call depends on the cashews context it is made in, not only on the function, the template and "
                           "the bound arguments"}[kind]
        chk.violation(f"{what}: {pretty_sig(small)}, template {impl.get('tmpl')!a}: {f['detail']}", replay, signature=f.get("signature"))
    else:
        what = {"model": "get_cache_key differs from the model Key.cacheKey",
                "inspect": "inspect.Signature binding differs from the model Key.bind",
                "flightmodel": "which overlapping calls share one execution differs from the model (single-flight key = cache key without prefix)",
                "tmpl": "generated key template differs from the model Key.autoTemplate"}[kind]
        chk.violation(f"correspondence broken ({what}) but the property holds on this case: {pretty_sig(small)}: {f['detail']}",
                      dict(replay, broken=what), signature=None, no_input=True)


# ----------------------------------------------------------------------------------------------
# generation

def gen_ctx(rng, sig):
    named = [n for k, n, _ in sig if k in "pk"]
    if named and rng.random() < 0.3:
        # a context that holds a value for every parameter of the function (what a key context built from an enclosing call
        # with the same parameter names looks like): without rewrite the call's own values win
        vals = [[n, kc.enc(kc.gen_value(rng))] for n in named + rng.sample(["x", "site"], rng.randint(0, 2))]
        return {"rewrite": rng.random() < 0.2, "vals": vals}
    names = ["x", "site"] + named[:1]
    vals = [[n, kc.enc(kc.gen_value(rng))] for n in rng.sample(names, rng.randint(1, len(names)))]
    return {"rewrite": rng.random() < 0.3, "vals": vals}


def gen_cases_for_sig(rng, sig, names, rich: bool):
    """the cases of one signature: automatic + explicit templates x (base tuple + mutants) x all call forms,
    plus a malformed stream (unbindable calls, '' and ':' in values, fields that are no parameters)"""
    out = []

    def family(scalar):
        bounds = [kc.gen_bound(rng, sig, scalar=scalar)]
        for _ in range(3 if rich or scalar else 2):
            nb, _ = kc.mutate_bound(rng, sig, rng.choice(bounds), same_type=scalar or rng.random() < 0.8)
            if nb is not None and kc.bound_canon(sig, nb) not in {kc.bound_canon(sig, b) for b in bounds}:
                bounds.append(nb)
        return [{"calls": kc.call_forms(rng, sig, b, limit=6 if scalar else 12)} for b in bounds]

    groups = family(False)
    sgroups = family(True) if sig else None
    tmpls = [{"auto": []}]
    pkeys = [kc.param_key(k, n) for k, n, _ in sig]
    if pkeys and rng.random() < 0.3:
        tmpls.append({"auto": [rng.choice(pkeys)]})
    tmpls.append({"items": kc.gen_explicit_template(rng, sig, separated=True)})
    if rich or rng.random() < 0.5:
        tmpls.append({"items": kc.gen_explicit_template(rng, sig)})
    for t in tmpls:
        r = rng.random()
        via = "decorator" if r < 0.15 and not ("auto" in t and t["auto"]) else "default" if r < 0.3 and t == {"auto": []} else "direct"
        case = {"names": names, "sig": sig, "tmpl": t, "ctx": gen_ctx(rng, sig) if rng.random() < 0.15 else None,
                "via": via, "prefix": rng.choice(["", "", "pp", "v1:x"]) if via == "decorator" and "items" in t else "",
                "groups": copy.deepcopy(groups), "stream": "wellformed"}
        out.append(case)
        if sgroups and ("auto" in t or kc.is_separated(t["items"])):
            out.append(dict(case, via="direct" if via == "default" else via, ctx=None, groups=copy.deepcopy(sgroups), stream="scalar"))
            if via == "decorator" and rng.random() < 0.5:
                # the same calls in overlapping pairs (single flight)
                out[-1]["flight"] = rng.choice(["cache", "early", "soft"])
        if via == "decorator" and rng.random() < 0.6:
            # the same calls through the facade options that wrap the function before the key template is derived
            out.append(dict(out[-1], groups=copy.deepcopy(out[-1]["groups"]), opts=dict(rng.choice(kc.WRAP_OPTIONS))))
            out[-1].pop("flight", None)
            if rng.random() < 0.4:
                out[-1]["stack"] = rng.choice(kc.STACK_KINDS)
        if via == "decorator" and rng.random() < 0.6:
            # the same calls made inside the body of an enclosing decorated function with the same parameter names
            out.append(dict(out[-1], groups=copy.deepcopy(out[-1]["groups"]), inside=rng.choice(kc.INSIDE_KINDS)))
            out[-1].pop("flight", None)
    # through noself(cache)(...): the template is the generated one without the parameter named `self`
    receiver = bool(sig) and sig[0][0] == "p" and sig[0][1] in kc.RECEIVERS
    if rng.random() < (0.8 if receiver else 0.12):
        for g, stream in ((groups, "wellformed"), (sgroups, "scalar")):
            if g:
                out.append({"names": names, "sig": sig, "tmpl": {"auto": ["self"]}, "ctx": None, "via": "noself", "prefix": "",
                            "groups": copy.deepcopy(g), "stream": stream})
                if receiver and rng.random() < 0.5:
                    out[-1]["recv"] = "obj"
                if rng.random() < 0.3:
                    out[-1]["reuse"] = True
                elif rng.random() < 0.4:
                    out[-1]["inside"] = rng.choice(kc.INSIDE_KINDS)
                if not out[-1].get("flight") and rng.random() < 0.4:
                    out[-1]["opts"] = dict(rng.choice(kc.WRAP_OPTIONS))
                if stream == "scalar" and rng.random() < 0.5:
                    out[-1]["flight"] = rng.choice(["cache", "early", "soft"])
    # malformed stream
    mgroups = []
    pnames = [n for _, n, _ in sig]
    for _ in range(4 if rich else 2):
        nargs = rng.choice([0, 0, 1, 2, 3, 5])
        args = [kc.enc(kc.gen_value(rng, malformed=True)) for _ in range(nargs)]
        kwn = rng.sample(pnames + kc.EXTRA_KW_NAMES, rng.randint(0, 3))
        mgroups.append({"calls": [{"args": args, "kwargs": [[n, kc.enc(kc.gen_value(rng, malformed=True))] for n in kwn]}]})
    mb = kc.gen_bound(rng, sig, malformed=True)
    mgroups.append({"calls": kc.call_forms(rng, sig, mb, limit=6)})
    items = kc.gen_explicit_template(rng, sig)
    if rng.random() < 0.5:
        items = items + [["L", ":"], ["F", rng.choice(["zz", "x", "nope"])]]
    for t in ({"auto": []}, {"items": items}):
        out.append({"names": names, "sig": sig, "tmpl": t, "ctx": None, "via": "direct", "prefix": "",
                    "groups": copy.deepcopy(mgroups), "stream": "malformed"})
    return out


def known_witness_cases():
    """the bytes rendering collision (known finding): one non-UTF-8 and one hex-looking bytes value"""
    names = {"module": "m", "name": "f", "qualname": "f"}
    sig = [["p", "a", None]]
    groups = [{"calls": [{"args": [kc.enc(b"\xff")], "kwargs": []}, {"args": [], "kwargs": [["a", kc.enc(b"\xff")]]}]},
              {"calls": [{"args": [kc.enc(b"ff")], "kwargs": []}]}]
    return [
        {"names": names, "sig": sig, "tmpl": {"auto": []}, "ctx": None, "via": "direct", "prefix": "", "groups": groups, "stream": "known"},
        {"names": names, "sig": sig, "tmpl": {"auto": []}, "ctx": None, "via": "decorator", "prefix": "", "groups": groups, "stream": "known"},
    ]


def probe_cases():
    """fixed pairs of bound tuples that are one rendering or separator slip away from sharing a key
    (concatenations that agree: 'a'+'bc' = 'ab'+'c'), for one-, two-parameter and *args signatures"""
    names = {"module": "m", "name": "f", "qualname": "f"}
    e = kc.enc
    pairs = [(("a", "bc"), ("ab", "c")), ((1, 23), (12, 3)), ((b"a", b"bc"), (b"ab", b"c")), ((True, "x"), (True, "y")),
             (("a", "a:"), ("a", "a")), ((None, "x"), (None, "y"))]
    out = []
    for x, y in pairs:
        two = [{"calls": [{"args": [e(x[0]), e(x[1])], "kwargs": []}, {"args": [], "kwargs": [["b", e(x[1])], ["a", e(x[0])]]}]},
               {"calls": [{"args": [e(y[0]), e(y[1])], "kwargs": []}]}]
        one = [{"calls": [{"args": [e(x)], "kwargs": []}]}, {"calls": [{"args": [e(y)], "kwargs": []}]}]
        twop = [{"calls": two[0]["calls"][:1]}, two[1]]
        for sig, groups in (([["p", "a", None], ["p", "b", None]], two), ([["s", "args", None]], twop),
                            ([["p", "a", None], ["s", "args", None]], twop), ([["p", "a", None]], one)):
            tmpls = [{"auto": []}]
            if len(sig) == 2 and sig[1][0] == "p":
                tmpls.append({"items": [["F", "a"], ["L", ":"], ["F", "b"]]})
            for t in tmpls:
                for via in ("direct", "decorator"):
                    out.append({"names": names, "sig": sig, "tmpl": t, "ctx": None, "via": via, "prefix": "",
                                "groups": copy.deepcopy(groups), "stream": "probe"})
    return out


def name_cases(rng, rich: bool):
    """the parameter-name stream (fixed): a receiver (`self`, `cls` or none) followed by parameters whose names are pieces
    of the receivers' names, extend them, or are prefixes of each other; calls that differ in exactly one of them; through
    noself(cache)(...), plain @cache, and get_cache_key with the generated template / with `self` excluded"""
    out = []
    e = kc.enc
    pieces = kc.RECEIVER_PIECES + ["self_", "_self", "myself", "cls_", "a", "ab", "abc"]
    for recv in ("self", "cls", None):
        names = {"module": "m", "name": "f", "qualname": "K.f" if recv else "f"}
        for i, n in enumerate(pieces):
            other = pieces[(i + 5) % len(pieces)]
            if not rich and recv is None and i % 3:
                continue
            sig = ([["p", recv, None]] if recv else []) + [["p", n, None], ["k", other, e("dflt")]]
            head = [e("eu")] if recv else []
            head2 = [e("us")] if recv else []
            groups = [{"calls": [{"args": head + [e("a.txt")], "kwargs": []},
                                 {"args": head, "kwargs": [[n, e("a.txt")]]},
                                 {"args": head + [e("a.txt")], "kwargs": [[other, e("dflt")]]}]},
                      {"calls": [{"args": head + [e("b.txt")], "kwargs": []}]},
                      {"calls": [{"args": head + [e("b.txt")], "kwargs": [[other, e("latin1")]]}]}]
            if recv:
                groups.append({"calls": [{"args": head2 + [e("a.txt")], "kwargs": []}]})
            for via, tmpl in (("noself", {"auto": ["self"]}), ("decorator", {"auto": []}), ("direct", {"auto": ["self"]}), ("direct", {"auto": [n]})):
                if via == "direct" and not rich and i % 2:
                    continue
                c = {"names": names, "sig": sig, "tmpl": tmpl, "ctx": None, "via": via, "prefix": "",
                     "groups": copy.deepcopy(groups), "stream": "names"}
                if recv and via != "direct" and i % 2 == 0:
                    c["recv"] = "obj"
                if via != "direct" and i % 4 == 0:
                    c["flight"] = ("cache", "early", "soft")[(i // 4) % 3]
                if via == "noself" and i % 3 == 0:
                    c["reuse"] = True
                out.append(c)
    # a parameter called like the first parameter of cashews.formatter.default_format(template, **values)
    e2 = kc.enc
    for sig, groups in (
        ([["p", "template", None]], [{"calls": [{"args": [e2("x")], "kwargs": []}, {"args": [], "kwargs": [["template", e2("x")]]}]},
                                     {"calls": [{"args": [e2("y")], "kwargs": []}]}]),
        ([["p", "self", None], ["p", "a", None], ["k", "template", e2("t.html")]],
         [{"calls": [{"args": [e2("u"), e2(1)], "kwargs": []}, {"args": [e2("u"), e2(1)], "kwargs": [["template", e2("t.html")]]}]},
          {"calls": [{"args": [e2("u"), e2(1)], "kwargs": [["template", e2("s.html")]]}]}]),
        ([["p", "values", None], ["p", "format_string", None], ["w", "kwargs", None]],
         [{"calls": [{"args": [e2(1), e2("x")], "kwargs": []}, {"args": [], "kwargs": [["format_string", e2("x")], ["values", e2(1)]]}]},
          {"calls": [{"args": [e2(1), e2("y")], "kwargs": []}]}]),
    ):
        recv = sig[0][1] == "self"
        for via, tmpl in (("direct", {"auto": []}), ("decorator", {"auto": []}), ("noself", {"auto": ["self"]})):
            out.append({"names": {"module": "m", "name": "f", "qualname": "K.f" if recv else "f"}, "sig": sig, "tmpl": tmpl, "ctx": None,
                        "via": via, "prefix": "", "groups": copy.deepcopy(groups), "stream": "names"})
    return out


def flight_cases(rng, rich: bool):
    """the overlap stream (fixed): methods on two receivers and plain functions through cache / early / soft (single
    flight is on by default), plain and through noself, generated and explicit templates, with and without a prefix;
    every two groups are run as an overlapping pair, and so are two forms of one call"""
    out = []
    e = kc.enc

    def call(args=(), **kw):
        return {"args": [e(x) for x in args], "kwargs": [[n, e(v)] for n, v in kw.items()]}

    S, P, Q = ["p", "self", None], ["p", "path", None], ["k", "q", e(1)]
    meth = [{"calls": [call(["eu", "/users"]), call(["eu"], path="/users")]}, {"calls": [call(["us", "/users"])]},
            {"calls": [call(["eu", "/orders"])]}]
    meth_q = [{"calls": [call(["eu", "/u"]), call(["eu", "/u"], q=1), call(["eu"], q=1, path="/u")]}, {"calls": [call(["us", "/u"])]},
              {"calls": [call(["eu", "/u"], q=2)]}, {"calls": [call(["us", "/u"], q=2)]}]
    plain = [{"calls": [call([1, "x"]), call([1], b="x"), call(b="x", a=1)]}, {"calls": [call([1, "y"])]}, {"calls": [call([True, "x"])]}]
    star = [{"calls": [call(["a", "b"])]}, {"calls": [call(["a"])]}, {"calls": [call(["a", "c"])]}]
    kws = [{"calls": [call(["eu"], x=1, y=2), call(["eu"], y=2, x=1)]}, {"calls": [call(["us"], x=1, y=2)]}, {"calls": [call(["eu"], x=1)]}]
    table = [
        ([S, P], {"auto": []}, "decorator", meth, "K.get"),
        ([S, P], {"auto": ["self"]}, "noself", meth, "K.get"),
        ([S, P, Q], {"auto": []}, "decorator", meth_q, "K.get"),
        ([S, P, Q], {"auto": ["self"]}, "noself", meth_q, "K.get"),
        ([S, P], {"items": [["L", "api:"], ["F", "self"], ["L", ":"], ["F", "path"]]}, "decorator", meth, "K.get"),
        ([S, P], {"items": [["L", "api:"], ["F", "path"]]}, "decorator", meth, "K.get"),
        ([["p", "cls", None], P], {"auto": []}, "decorator", meth, "K.get"),
        ([["p", "cls", None], P], {"auto": ["self"]}, "noself", meth, "K.get"),
        ([["p", "a", None], ["p", "b", None]], {"auto": []}, "decorator", plain, "f"),
        ([["p", "a", None], ["p", "b", None]], {"items": [["F", "a"], ["L", ":"], ["F", "b"]]}, "decorator", plain, "f"),
        ([["s", "args", None]], {"auto": []}, "decorator", star, "f"),
        ([S, ["w", "kwargs", None]], {"auto": []}, "decorator", kws, "K.get"),
        ([S, ["w", "kwargs", None]], {"auto": ["self"]}, "noself", kws, "K.get"),
    ]
    for sig, tmpl, via, groups, qual in table:
        for kind in ("cache", "early", "soft"):
            for recv in (("obj", None) if sig[0][1] in kc.RECEIVERS else (None,)):
                for prefix in (("", "v1") if "items" in tmpl and via == "decorator" else ("",)):
                    c = {"names": {"module": "m", "name": qual.split(".")[-1], "qualname": qual}, "sig": sig, "tmpl": tmpl, "ctx": None,
                         "via": via, "prefix": prefix, "groups": copy.deepcopy(groups), "stream": "flight", "flight": kind}
                    if recv:
                        c["recv"] = recv
                    out.append(c)
    return out


def option_cases(rng, rich: bool):
    """the wrapping-options stream (fixed): call-form canonicity and separation cases through cache(ttl=.., <options>) without
    key= (and through noself, and with an explicit template), for every option of the facade that wraps the function or
    changes how the decorator is applied before the key template is derived - time_condition=, lock=True, upper=True,
    protected=False and combinations - and with the cache decorator stacked on another cashews decorator"""
    out = []
    e = kc.enc

    def call(args=(), **kw):
        return {"args": [e(x) for x in args], "kwargs": [[n, e(v)] for n, v in kw.items()]}

    table = [
        ("load", [["p", "user", None], ["p", "page", e(1)]], {"auto": []}, "decorator",
         [{"calls": [call(["bob", 2]), call(user="bob", page=2), call(["bob"], page=2)]}, {"calls": [call(["ann"]), call(["ann", 1]), call(user="ann")]}]),
        ("K.get", [["p", "self", None], ["p", "path", None], ["k", "q", e(None)]], {"auto": []}, "decorator",
         [{"calls": [call(["eu", "/u"]), call(["eu"], path="/u"), call(["eu", "/u"], q=None)]}, {"calls": [call(["us", "/u"])]}]),
        ("K.get", [["p", "self", None], ["p", "path", None], ["k", "q", e(None)]], {"auto": ["self"]}, "noself",
         [{"calls": [call(["eu", "/u"]), call(["eu"], path="/u"), call(["eu", "/u"], q=None)]}, {"calls": [call(["eu", "/v"])]}]),
        ("f", [["p", "a", None], ["s", "args", None], ["k", "c", e("d")], ["w", "kwargs", None]], {"auto": []}, "decorator",
         [{"calls": [call(["v", 1], x="q"), call(["v", 1], c="d", x="q")]}, {"calls": [call(["v", 1], x="r")]}, {"calls": [call(["w"]), call(a="w")]}]),
        ("load", [["p", "user", None], ["p", "page", e(1)]], {"items": [["L", "u:"], ["F", "user"], ["L", ":"], ["F", "page"]]}, "decorator",
         [{"calls": [call(["bob", 2]), call(user="bob", page=2)]}, {"calls": [call(["ann"]), call(["ann", 1])]}]),
    ]
    for name, sig, tmpl, via, groups in table:
        names = {"module": "m", "name": name.split(".")[-1], "qualname": name}
        base = {"names": names, "sig": sig, "tmpl": tmpl, "ctx": None, "via": via, "prefix": "", "groups": groups, "stream": "options"}
        for opts in kc.WRAP_OPTIONS:
            out.append(dict(copy.deepcopy(base), opts=dict(opts)))
        for i, st in enumerate(kc.STACK_KINDS):
            out.append(dict(copy.deepcopy(base), stack=st))
            out.append(dict(copy.deepcopy(base), stack=st, opts=dict(kc.WRAP_OPTIONS[i % len(kc.WRAP_OPTIONS)])))
    return out


def inside_cases(rng, rich: bool):
    """the enclosing-context stream (fixed): cached functions called inside the body of a function that has the same
    parameter names, is decorated with each cashews decorator (invalidate first of all: it is the one that opens a key
    context of its own) and is called with other values; and the same under a user-written key_context that holds a
    value for every parameter (non-rewrite: the call's values win)"""
    out = []
    e = kc.enc

    def call(args=(), **kw):
        return {"args": [e(x) for x in args], "kwargs": [[n, e(v)] for n, v in kw.items()]}

    U = ["p", "user_id", None]
    table = [
        ("get_profile", [U], {"items": [["L", "profile:"], ["F", "user_id"]]}, "decorator",
         [{"calls": [call(["u1"]), call(user_id="u1")]}, {"calls": [call(["u2"]), call(user_id="u2")]}]),
        ("f", [["p", "a", None], ["p", "b", e(5)]], {"auto": []}, "decorator",
         [{"calls": [call([1]), call(a=1), call([1, 5])]}, {"calls": [call([2])]}, {"calls": [call([1], b=6)]}]),
        ("K.get", [["p", "self", None], ["p", "path", None]], {"auto": ["self"]}, "noself",
         [{"calls": [call(["eu", "/u"]), call(["eu"], path="/u")]}, {"calls": [call(["eu", "/v"])]}]),
        ("K.get", [["p", "self", None], ["p", "path", None]], {"auto": []}, "decorator",
         [{"calls": [call(["eu", "/u"]), call(["eu"], path="/u")]}, {"calls": [call(["us", "/u"])]}]),
        ("f", [["p", "a", None], ["s", "args", None], ["k", "c", e("d")], ["w", "kwargs", None]], {"auto": []}, "decorator",
         [{"calls": [call(["v", 1], x="q"), call(["v", 1], c="d", x="q")]}, {"calls": [call(["v", 1], x="r")]}, {"calls": [call(["w"])]}]),
        ("f", [["w", "kwargs", None]], {"auto": []}, "decorator", [{"calls": [call(x=1, y=2), call(y=2, x=1)]}, {"calls": [call(x=1)]}, {"calls": [call()]}]),
    ]
    for name, sig, tmpl, via, groups in table:
        names = {"module": "m", "name": name.split(".")[-1], "qualname": name}
        base = {"names": names, "sig": sig, "tmpl": tmpl, "ctx": None, "via": via, "prefix": "", "groups": groups, "stream": "inside"}
        for kind in kc.INSIDE_KINDS:
            out.append(dict(copy.deepcopy(base), inside=kind))
        named = [n for k, n, _ in sig if k in "pk"]
        for rewrite_free_vals in ([[n, e(kc.OUTER_PREFIX + n)] for n in named], [[n, e(kc.OUTER_PREFIX + n)] for n in named + ["x", "site"]]):
            if rewrite_free_vals:
                out.append(dict(copy.deepcopy(base), ctx={"rewrite": False, "vals": rewrite_free_vals}))
                out.append(dict(copy.deepcopy(base), ctx={"rewrite": False, "vals": rewrite_free_vals}, inside="invalidate"))
    return out


def text_cases(rng, rich: bool):
    """the look-alike text stream: every family of `kc.TEXT_FAMILIES` (pairwise different strings that a normalising,
    folding, trimming or re-encoding renderer would merge), one group of call forms per member, at every place a `str`
    can reach the formatter.  Places whose field text is the string itself (or a 1-tuple of it) are inside the
    separation domain - every pair of members is a separation pair; places that add a ':' (longer tuples, dict and
    **kwargs values, nested containers) and key-context values are compared with the model."""
    names = {"module": "m", "name": "f", "qualname": "f"}
    e = kc.enc
    out = []
    A, B, C = ["p", "a", None], ["p", "b", None], ["k", "c", None]
    STAR, KW = ["s", "args", None], ["w", "kwargs", None]

    def call(args=(), **kw):
        return {"args": [e(x) for x in args], "kwargs": [[n, e(v)] for n, v in kw.items()]}

    def add(sig, tmpl, groups, vias=("direct", "decorator"), ctx=None, prefix=""):
        for via in vias:
            out.append({"names": names, "sig": sig, "tmpl": tmpl, "ctx": ctx, "via": via,
                        "prefix": prefix if via == "decorator" and "items" in tmpl else "",
                        "groups": copy.deepcopy(groups), "stream": "text"})

    for fam, members in kc.TEXT_FAMILIES.items():
        first = members[0]
        # -- inside the separation domain: all members, always (fixed, independent of the seed)
        add([A], {"auto": []}, [{"calls": [call([m]), call(a=m)]} for m in members])
        add([A], {"items": [["L", "k:"], ["F", "a"], ["L", ":end"]]}, [{"calls": [call([m]), call(a=m)]} for m in members], prefix="v1")
        add([A, B], {"auto": []}, [{"calls": [call(["k", m]), call(["k"], b=m), call(b=m, a="k")]} for m in members], vias=("direct",))
        add([A, B], {"items": [["F", "b"], ["L", ":"], ["F", "a"]]}, [{"calls": [call([m, m]), call(b=m, a=m)]} for m in members], vias=("direct",))
        add([STAR], {"auto": []}, [{"calls": [call([m])]} for m in members])
        add([A, STAR], {"auto": []}, [{"calls": [call(["k", m])]} for m in members], vias=("direct",))
        add([A], {"auto": []}, [{"calls": [call([(m,)]), call(a=(m,))]} for m in members], vias=("direct",))
        # a default that is one member: leaving the argument out is the call with that member, and only with that one
        add([A, ["k", "c", e(first)]], {"auto": []},
            [{"calls": [call(["k"], c=m)] + ([call(["k"]), call(a="k")] if m == first else [])} for m in members])
        add([["p", "a", e(first)]], {"auto": []}, [{"calls": [call([m])] + ([call()] if m == first else [])} for m in members], vias=("direct",))
        # the same texts as (valid UTF-8) bytes
        add([A], {"auto": []}, [{"calls": [call([m.encode()]), call(a=m.encode())]} for m in members])
        add([STAR], {"auto": []}, [{"calls": [call([m.encode()])]} for m in members], vias=("direct",))
        # -- outside it (the field text has a ':'): model correspondence; a sample of the members in the quick tier
        ms = members if rich or len(members) <= 3 else [first] + rng.sample(members[1:], 2)
        add([A], {"auto": []}, [{"calls": [call([(m, "z")])]} for m in ms] + [{"calls": [call([("z", m)])]} for m in ms], vias=("direct",))
        add([A], {"auto": []}, [{"calls": [call([{"k": m}])]} for m in ms] + [{"calls": [call([{"k": (m, m.encode())}])]} for m in ms])
        add([KW], {"auto": []}, [{"calls": [call(x=m)]} for m in ms] + [{"calls": [call(zz=m, x=1), call(x=1, zz=m)]} for m in ms])
        add([A, KW], {"auto": []}, [{"calls": [call([m], x=m), call(x=m, a=m)]} for m in ms], vias=("direct",))
        add([A, STAR, C, KW], {"auto": []}, [{"calls": [call([m, m, m.encode()], c=m, y=m)]} for m in ms], vias=("direct",))
        for m in ms[:3] if rich else ms[:2]:
            add([A], {"items": [["F", "a"], ["L", ":"], ["F", "site"]]}, [{"calls": [call(["k"])]}], vias=("direct",),
                ctx={"rewrite": False, "vals": [["site", e(m)]]})
    return out


def corpus_cases():
    d = ROOT / "corpus" / PROP
    for f in sorted(d.glob("*.json")):
        c = json.loads(f.read_text())
        yield f.name, c["case"]


def value_correspondence(chk, stats):
    """rendering of single values, model vs implementation: the whole alphabet, every 1- and 2-byte bytes value
    (thorough; sampled in quick) and structured 3/4-byte sequences around the UTF-8 validity boundaries"""
    from cashews.formatter import default_format

    vals = [v for pool in kc.POOLS.values() for v in pool] + list(kc.MALFORMED)
    # text outside ASCII: the look-alike families (as str, as UTF-8 bytes, inside containers), every member also with
    # every other member around it, and random strings over a code-point palette (combining marks of several classes,
    # precomposed / compatibility / full-width forms, spaces, zero-width and control characters, the edges of the BMP
    # and of the surrogate gap, non-BMP) - a str must come out as itself
    vals += [v for pool in kc.UPOOLS.values() for v in pool]
    for members in kc.TEXT_FAMILIES.values():
        for a in members:
            vals += [(a,), (a, a.encode()), {"k": a}, {a: 1}, {"k": {"j": (a, None)}}]
            vals += [a + "|" + b for b in members if b != a]
        vals.append(tuple(members))
        vals.append({m: m for m in members})
    palette = [0x20, 0x41, 0x61, 0x65, 0x69, 0x7F, 0x80, 0x85, 0xA0, 0xAD, 0xB2, 0xC5, 0xDF, 0xE9, 0x130, 0x131, 0x300, 0x301, 0x307,
               0x30A, 0x323, 0x327, 0x345, 0x34F, 0x3A9, 0x3C2, 0x3C3, 0x430, 0x5D0, 0x661, 0x1100, 0x1161, 0x11A8, 0x1E9E, 0x1EA1,
               0x2009, 0x200B, 0x200D, 0x200E, 0x2028, 0x2060, 0x2126, 0x212B, 0x2461, 0x3000, 0x8C48, 0xAC00, 0xD7FF, 0xE000, 0xF900,
               0xFB01, 0xFE0F, 0xFEFF, 0xFF11, 0xFF21, 0xFFFD, 0xFFFF, 0x10000, 0x1D400, 0x1F1E9, 0x1F3FD, 0x1F44D, 0x1F600, 0x10FFFF]
    for _ in range(chk.budget(1500, 15000)):
        t = "".join(chr(chk.rng.choice(palette)) for _ in range(chk.rng.randint(1, 5)))
        vals.append(t)
        if chk.rng.random() < 0.3:
            vals.append(t.encode("utf-8"))
    for _ in range(chk.budget(500, 5000)):
        cp = chk.rng.randrange(0x80, 0x110000)
        if not 0xD800 <= cp <= 0xDFFF:
            vals.append(chr(cp) + chr(chk.rng.choice(palette)))
    vals += [bytes([b]) for b in range(256)]
    two = [bytes([a, b]) for a in range(256) for b in range(256)]
    vals += two if chk.thorough else chk.rng.sample(two, 3000)
    edge = [0x00, 0x7F, 0x80, 0x8F, 0x90, 0x9F, 0xA0, 0xBF, 0xC0]
    for b0 in [0xE0, 0xE1, 0xEC, 0xED, 0xEE, 0xEF]:
        vals += [bytes([b0, b1, b2]) for b1 in edge for b2 in edge]
    for b0 in [0xF0, 0xF1, 0xF3, 0xF4, 0xF5]:
        vals += [bytes([b0, b1, b2, b3]) for b1 in edge for b2 in (0x7F, 0x80, 0xBF, 0xC0) for b3 in (0x7F, 0x80, 0xBF, 0xC0)]
    for _ in range(chk.budget(500, 5000)):
        n = chk.rng.randint(1, 6)
        vals.append(bytes(chk.rng.choice([chk.rng.randrange(256), chk.rng.choice([0x41, 0xC3, 0xA9, 0xE2, 0x82, 0xAC, 0xF0, 0x9F, 0x98, 0x80])]) for _ in range(n)))
    for _ in range(chk.budget(300, 3000)):
        vals.append(chk.rng.randint(-10 ** chk.rng.randint(1, 25), 10 ** chk.rng.randint(1, 25)))
    for _ in range(chk.budget(300, 3000)):
        vals.append(tuple(kc.gen_value(chk.rng, malformed=chk.rng.random() < 0.2) for _ in range(chk.rng.randint(0, 3))))
        vals.append({k: kc.gen_value(chk.rng) for k in chk.rng.sample(["b", "a", "é", "Z", "aa", "", "k:", "e\u0301", "\U0001f600", "\uffff", "\u212b"], chk.rng.randint(0, 4))})
    answers = DRIVER.ask(["text " + kc.enc(v) for v in vals])
    bad = []
    for v, a in zip(vals, answers):
        parts = dict(p.split("=", 1) for p in a.split(" ")) if a.startswith("fast=") else None
        if parts is None:
            raise HarnessError(f"model driver could not render {v!a}: {a}")
        fast = default_format("{v}", v=v)                 # every field present: str.format fast path
        slow = default_format("{v}{missing}", v=v)        # a missing field: string.Formatter slow path
        mfast = bytes.fromhex(parts["fast"]).decode("utf-8")
        mslow = bytes.fromhex(parts["slow"]).decode("utf-8")
        if fast != mfast or slow != mslow:
            bad.append((v, fast, mfast, slow, mslow))
    stats["value_renderings_compared"] = len(vals)
    stats["bytes_values_compared"] = sum(isinstance(v, bytes) for v in vals)
    stats["non_ascii_str_values_compared"] = sum(isinstance(v, str) and not v.isascii() for v in vals)
    return bad


def report_value_diffs(chk, bad):
    uniq = {kc.enc(b[0]): b for b in bad}
    for v, fast, mfast, slow, mslow in [uniq[k] for k in sorted(uniq, key=lambda k: (len(k), k))[:2]]:   # the smallest values
        case = {"names": {"module": "m", "name": "f", "qualname": "f"}, "sig": [["p", "a", None]],
                "tmpl": {"items": [["F", "a"]]}, "ctx": None, "via": "direct", "prefix": "",
                "groups": [{"calls": [{"args": [kc.enc(v)], "kwargs": []}]}]}
        chk.violation(f"correspondence broken (value rendering differs from the model Key.typeFmt/fmtField) for {v!a}: "
                      f"impl fast {fast!a} slow {slow!a}, model fast {mfast!a} slow {mslow!a}; no input was found on which the "
                      "implementation contradicts the property",
                      {"case": case, "value": ascii(v), "broken": "formatter rendering of one value"}, signature=None, no_input=True)


def run(chk: Check) -> int:
    proof = proof_stage(PROP, "driver_c08", chk.thorough) if not getattr(chk, "skip_proof", False) else None
    rng = chk.rng
    stats: dict = {}
    found = 0
    evaluations = 0
    calls_total = 0
    shapes = kc.all_shapes(4)
    reps = chk.budget(2, 25)
    chosen = [(s, rep) for rep in range(reps) for s in shapes]
    cases = []
    origin = []
    for name, c in corpus_cases():
        cases.append(c)
        origin.append("corpus:" + name)
    ncorpus = len(cases)
    for c in known_witness_cases():
        cases.append(c)
        origin.append("known-witness")
    for c in probe_cases():
        cases.append(c)
        origin.append("probe")
    for c in text_cases(rng, chk.thorough):
        cases.append(c)
        origin.append("text")
    for c in name_cases(rng, chk.thorough):
        cases.append(c)
        origin.append("names")
    for c in flight_cases(rng, chk.thorough):
        cases.append(c)
        origin.append("flight")
    for c in inside_cases(rng, chk.thorough):
        cases.append(c)
        origin.append("inside")
    for c in option_cases(rng, chk.thorough):
        cases.append(c)
        origin.append("options")
    sig_count = 0
    for shape, rep in chosen:
        first_self = rng.choice(["self", "self", "self", "cls"]) if shape[0] > 0 and rng.random() < 0.2 else False
        sig = kc.make_sig(rng, shape, first_self=first_self, alt_names=rng.random() < 0.3, pool_names=rng.random() < 0.4)
        names = {"module": rng.choice(["m", "pkg.mod"]), "name": "f", "qualname": "K.f" if first_self else "f"}
        sig_count += 1
        for c in gen_cases_for_sig(rng, sig, names, rich=chk.thorough):
            cases.append(c)
            origin.append(f"gen:{sig_count}")
    value_diffs = value_correspondence(chk, stats)
    distinct = set()
    hist = {"via": {}, "stream": {}, "template": {}, "nparams": {}}
    samples = []
    spec_fails, corr_fails = [], []
    B = 200
    for start in range(0, len(cases), B):
        batch = cases[start:start + B]
        for k, (case, impl, model, _) in enumerate(check_cases(batch, judge=False)):
            local: dict = {}
            fails = evaluate(case, impl, model, local)
            evaluations += 1
            n = sum(len(g["calls"]) for g in case["groups"])
            calls_total += n
            for key, v in local.items():
                stats[key] = stats.get(key, 0) + v
            interesting = {k for k in local if k in (
                "formatter_slow_path", "keyword_only_call_defaults_applied", "raw_kwargs_fallback",
                "separation_pairs_checked", "call_form_pairs_compared", "unbindable_positional_call_typeerror",
                "decorated_cache_hits", "separation_pairs_lookalike_text", "overlapping_call_pairs",
                "calls_inside_an_enclosing_decorated_function")}
            if interesting:
                distinct.add(json.dumps([case["sig"], case["tmpl"], case["ctx"], case["via"], case["groups"]], sort_keys=True))
            hist["via"][case["via"]] = hist["via"].get(case["via"], 0) + 1
            st = case.get("stream", "corpus")
            hist["stream"][st] = hist["stream"].get(st, 0) + 1
            tk = "auto" if "auto" in case["tmpl"] else "explicit_separated" if kc.is_separated(case["tmpl"]["items"]) else "explicit_unseparated"
            hist["template"][tk] = hist["template"].get(tk, 0) + 1
            hist["nparams"][str(len(case["sig"]))] = hist["nparams"].get(str(len(case["sig"])), 0) + 1
            if case.get("ctx"):
                stats["cases_with_key_context"] = stats.get("cases_with_key_context", 0) + 1
            if len(samples) < 3 and interesting and case.get("stream") == "wellformed" and n <= 8 and len(case["sig"]) >= 2:
                samples.append({"signature": pretty_sig(case), "template": impl.get("tmpl"), "via": case["via"],
                                "calls": [[pretty_call(c) for c in g["calls"]] for g in case["groups"]],
                                "keys": [c["key"] for c in impl["calls"]]})
            for f in fails:
                (spec_fails if f["kind"] in SPEC_KINDS else corr_fails).append((case, f, origin[start + k]))
        if len([1 for _, f, _ in spec_fails if not f.get("signature")]) >= 40 or len(corr_fails) >= 400:
            break
    # verdicts: failing inputs of the property first; a broken correspondence is reported as such only when the
    # whole budget produced no input on which the implementation contradicts the statement
    seen_sig = set()
    for case, f, org in spec_fails:
        if f.get("signature"):
            if f["signature"] in seen_sig:
                continue
            seen_sig.add(f["signature"])
        elif found >= 3 or (f["kind"], "reported") in seen_sig:
            continue
        before = len(chk.violations)
        report(chk, case, f, org)
        if len(chk.violations) > before:
            found += 1
            if not f.get("signature"):      # a finding with a signature of its own does not stand for the other failures of its kind
                seen_sig.add((f["kind"], "reported"))
    if not found and value_diffs:
        report_value_diffs(chk, value_diffs)
        found += 1
    if not found:
        kinds = set()
        for case, f, org in corr_fails:
            if f["kind"] in kinds:
                continue
            kinds.add(f["kind"])
            report(chk, case, f, org)
            found += 1
    if proof is not None:
        chk.proof_broken(proof, found > 0)
    chk.coverage.update({
        "evaluations": evaluations,
        "distinct_nontrivial": len(distinct),
        "rule": "one evaluation = one (signature, template, key context, entry point) with its groups of calls; signatures: "
                + f"every one of the {len(shapes)} shapes of <= 4 parameters over positional-or-keyword / keyword-only / *args / **kwargs with and "
                  f"without defaults, {reps} time(s) with different default values, names and argument values"
                + "; templates: generated, generated with an excluded parameter, explicit separated and explicit arbitrary; "
                "calls: two families (any value types / scalars only) of a base bound tuple and up to 3 one-place mutants from the typed alphabet, each in every equivalent call form "
                "(k leading positionals x keyword / omitted-default choices x keyword orders x dict insertion orders), plus a malformed stream (unbindable calls, "
                "'' and ':' texts, fields that are no parameters); a fixed text stream: every family of look-alike strings (canonically / "
                "compatibility equivalent, case variants, leading / trailing / inner white space, zero-width and control characters, lossy "
                f"re-encodings, non-BMP, homoglyphs; {len(kc.USTRS)} strings in {len(kc.TEXT_FAMILIES)} families), one group per member, as a direct argument, second argument, *args "
                "item, 1-tuple, default value, UTF-8 bytes (inside the separation domain: all pairs of one family must get different keys) and as "
                "an item of longer tuples, a dict value, a **kwargs value, nested, a key-context value (compared with the model); the same strings "
                "are 30% of the str / bytes draws of the generated stream and the preferred one-place mutants of each other; "
                "a fixed name stream: a receiver (self / cls / none) followed by parameters named with every piece of 'self' and 'cls', names extending "
                "them and prefixes of each other, and parameters named template / values / format_string, through noself(cache)(..), plain cache(..) and "
                "get_cache_key with and without an exclusion (40% of the generated signatures draw their names from the same pool, 20% start with "
                "a receiver, most of those are also run through noself, some with the decorator object first applied to a sibling function); "
                "a fixed overlap stream: methods on two receivers and plain functions through cache / early / soft, plain and through noself, "
                "generated / explicit templates, with / without prefix - every two groups and two forms of one group are run as a pair of "
                "overlapping calls (the first parked inside the function body), and so are half of the decorated scalar cases of the generated stream; "
                "a fixed enclosing-context stream: cached functions (explicit / generated / noself templates, *args, **kwargs) called inside the body of a "
                "function with the same parameter names decorated with each of " + str(len(kc.INSIDE_KINDS)) + " cashews decorators / context managers and called with other values, "
                "and under user key contexts holding a value for every parameter; 60% of the generated decorated cases are run a second time inside such a body. "
                "a fixed wrapping-options stream: call-form and separation cases through cache(ttl=.., time_condition= / lock=True / upper=True / protected=False "
                "and combinations) without key=, through noself, with an explicit template, and stacked on locked / rate_limit / slice_rate_limit / circuit_breaker / "
                "invalidate; 60% of the generated decorated cases are run once more through a random option set (40% of those stacked). "
                "A case is non-trivial iff it compared at least two call forms of one "
                "bound tuple, checked a separation pair inside the stated domain, took the keyword-only path with defaults applied, the raw-kwargs "
                "fallback, the formatter's slow path, a TypeError from bind, a decorated cache hit, or ran a pair of overlapping calls; distinct = distinct case contents",
        "exhaustive": True,
        "exhaustive_subspace": ("all %d signature shapes with <= 4 parameters (default values, argument values and explicit templates are sampled); "
                                "all 256 one-byte bytes values for the rendering; all pairs inside each of the %d look-alike text families at "
                                "every placement of the text stream" % (len(shapes), len(kc.TEXT_FAMILIES)))
                               + ("; all 65536 two-byte bytes values" if chk.thorough else ""),
        "signature_shapes_total": len(shapes),
        "signatures_run": sig_count,
        "calls_compared": calls_total,
        "samples": samples,
        "corpus_cases": ncorpus,
        "histograms": hist,
        "interesting_states": stats,
        "trusted_base": TRUSTED,
        "partial": PARTIAL,
    })
    chk.assumptions.extend(TRUSTED)
    return chk.finish(proof)


def replay(chk: Check, path: str) -> int:
    data = json.loads(Path(path).read_text())
    case = data["case"]
    (_, impl, model, fails), = check_cases([case])
    print(pretty_sig(case), " template:", impl.get("tmpl"), " model template:", model["tmpl"], " via:", case["via"])
    i = 0
    for g in case["groups"]:
        for c in g["calls"]:
            print(f"  {pretty_call(c):40s} impl={impl['calls'][i]['key']!a} model={model_key(model['calls'][i]['key'])!a}")
            i += 1
    unlisted = []
    for f in fails:
        print(" ", f["kind"], f.get("signature") or "", f["detail"])
        known = any(k.get("status") == "known" and k.get("signature") == f.get("signature") for k in chk.known) if f.get("signature") else False
        if known:
            print(f"KNOWN-FINDING: property={PROP} {f['signature']}")
        else:
            unlisted.append(f)
    if not unlisted:
        print("replay: no disagreement" if not fails else "replay: only known findings")
        return 0
    print(f"VIOLATION property={PROP} replay={path}")
    return 1
