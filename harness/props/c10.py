"""C10 - signed storage: corrupted or foreign data never becomes a value.

proof: lean/CashewsVerif/Props/C10.lean (the unpickler / custom decoders are reached only through a verified MAC over
       key||payload; integrity for an idealised MAC with the key||payload residual stated exactly; error family).
tie:   mutation sweep on the real code: values are written through Cache.setup('mem://?secret=...') with an instrumented
       pickler installed through `Serializer.set_pickler`; every stored blob is corrupted (all single-byte substitutions /
       deletions / insertions, truncation at every offset, extensions, splices with other blobs, multi-byte edits), copied
       under other keys (incl. keys that are prefixes of each other), read with another secret, relabelled; each corrupted
       blob is put back with set_raw and read through get, get_many and get_match.  The model runs in two phases
       (dec2 = decision before the unpickler, dec3 = classification given the REAL pickler's verdict); the MACs the model
       asks for are computed with the stdlib hmac.  Compared: (a) implementation == model on unpickler calls and results;
       (b) the property itself: an altered blob with its digest label intact never yields a value and never reaches the
       unpickler unless the independent MAC check passes.

Confusable texts: the MAC is computed over key.encode() and _to_bytes(secret); pairs of DIFFERENT key texts that some
lossy conversion (error handlers ignore/replace/backslashreplace/..., normalisation, case folding, truncation) would map
to the same bytes are written and each blob copied under the other key; groups of DIFFERENT secret texts that numeric
parsing / str() rendering would identify are configured (settings url, str and bytes keywords) and each blob read under
the others.  A configuration that cannot sign on the tree under test (probed) is a violation (defect D42, repaired c2756b4).

Known finding D25 (MAC over key||payload without a separator): reported as KNOWN-FINDING, exit 0; any other tampered
blob that becomes a value is a VIOLATION.
"""
from __future__ import annotations

import json
import resource
import unicodedata
from pathlib import Path

from .. import serial as S
from .. import vtime
from ..core import ROOT, Check, Driver, HarnessError, proof_stage
from .c09 import conf_from_json, conf_to_json, pairs_eval, pairs_src

PROP = "C10"
DRIVER = Driver("driver_c10", "Drivers/C10.lean")
D25 = "D25-key-payload-ambiguity"
TX_MODES = ["fast", "locked", "serializable"]
NEIGHBOUR = "zz:neighbour"

TRUSTED = [
    "Lean 4.33.0 kernel; axioms of every theorem audited to be within {propext, Classical.choice, Quot.sound}",
    "hand-written model lean/CashewsVerif/Model/Serial.lean of cashews/serialize.py, tied to the code by this run's mutation sweep",
    "idealised MAC: tampered_never_value and its corollaries assume a MAC that is collision-free in (secret, message) (MacInjective); "
    "no real hash is, the hypothesis stands for 'signatures can be copied, not computed'. unpickle_only_if_mac_verifies, value_only_if, "
    "error_family assume nothing about the MAC",
    "the real pickler's behaviour on a verified payload is an input of the model (instrumented pickler), not modelled",
    "harness: instrumented pickler, stdlib hmac as the MAC oracle, mutation generator, canonical form of values",
    "EncInjective (the conversions key text -> bytes and configured secret -> bytes are injective) is a hypothesis of the *_text "
    "theorems; strict UTF-8 is injective (trusted, not proved in Lean); the harness probes the REAL conversions on generated pairs of "
    "confusable keys / secret spellings (a copied blob that verifies is a collision), its own oracle encodes keys with strict UTF-8",
]


def split_blob(blob: bytes):
    """(header, payload) around the first '_' - used only by the spec oracle and the mutation generator"""
    if not isinstance(blob, bytes) or b"_" not in blob:
        return None, None
    h, p = blob.split(b"_", 1)
    return h, p


def independently_verifies(blob: bytes, key: str, secret: bytes, digest: str, payload: bytes) -> bool:
    """the property's own notion of 'signature verified against the configured secret and the key being read',
    evaluated with the stdlib hmac: blob = [label:]mac(secret, key || payload) + '_' + payload"""
    kb = S.key_bytes(key)
    if kb is None:
        return False            # a key text without an encoding: no MAC over key || payload exists
    for label in S.DIGESTS:
        if blob == label.encode() + b":" + S.real_mac(label, secret, kb + payload) + b"_" + payload:
            return True
    return blob == S.real_mac(digest, secret, kb + payload) + b"_" + payload


# ----------------------------------------------------------------------------------------------------
# mutation generator
# ----------------------------------------------------------------------------------------------------
def subst_bytes(rng, c: int, thorough: bool):
    if thorough:
        return [b for b in range(256) if b != c]
    # c ^ 0x20: the other case of a letter (a comparison made case-insensitive / through int(sig, 16))
    cand = {c ^ 1, c ^ 0x80, c ^ 0x20, 0x5f, 0x3a, 0x30, rng.randrange(256)}
    cand.discard(c)
    return sorted(cand)


# bytes that lenient parsers let through around a token: "$" matches before a trailing \n, strip() drops blanks,
# int(x, 16) accepts blanks / "+" / "0x" / leading zeroes, C strings stop at NUL
WIDE_INSERT = False        # thorough tier: the wider insertion alphabet at every offset of every blob
INSERT_QUICK = [0x5f, 0x3a, 0x30, 0x61, 0x0a, 0x20]
INSERT_THOROUGH = INSERT_QUICK + [0x00, 0x80, 0x2e, 0x0d, 0x09, 0x2b]
PADS = [b"\n", b"\r\n", b" ", b"\t", b"\x00", b"\n\n", b"0x", b"+", b"\x0b", b"\x0c", b"\x1c", b"\x85"]


def structural_positions(blob: bytes):
    """offsets adjacent to the structural separators of `label:sig_payload`: (insertion offsets, substitution offsets)"""
    n = len(blob)
    c = blob.find(b":")
    u = blob.find(b"_")
    ins = {0, n}
    sub = {0, n - 1}
    if 0 <= c < (u if u >= 0 else n):
        ins |= {c, c + 1, c + 2}                 # before ':', before / after the first signature byte
        sub |= {c - 1, c, c + 1}                 # last label byte, ':', first signature byte
    if u >= 0:
        ins |= {u - 1, u, u + 1, u + 2}          # before / after the last signature byte (= before '_'), before / after the first
        sub |= {u - 1, u, u + 1}                 # payload byte;  last signature byte, '_', first payload byte
    return sorted(p for p in ins if 0 <= p <= n), sorted(p for p in sub if 0 <= p < n)


def structural_mutations(key: str, blob: bytes, sec: str):
    """ALL 256 byte values inserted / ALL 255 others substituted at every offset adjacent to a structural separator, and the
    lenient-parser paddings at the four token boundaries of the header"""
    ins, sub = structural_positions(blob)
    for pos in ins:
        for b in range(256):
            yield "insert_structural", key, blob[:pos] + bytes([b]) + blob[pos:], sec
    for pos in sub:
        for b in range(256):
            if b != blob[pos]:
                yield "substitute_structural", key, blob[:pos] + bytes([b]) + blob[pos + 1:], sec
    c, u = blob.find(b":"), blob.find(b"_")
    for pos in {0, c + 1, u, len(blob)} if 0 <= c < u else {0, len(blob)}:
        for pad in PADS:
            yield "pad", key, blob[:pos] + pad + blob[pos:], sec


def mutations(rng, key: str, blob: bytes, legit: dict, conf: S.Conf, thorough: bool, stride: int = 1):
    """yield (class, read_key, blob', reader_secret)"""
    sec = conf.secret
    n = len(blob)
    hdr, payload = split_blob(blob)
    for pos in range(0, n, stride):
        for b in subst_bytes(rng, blob[pos], thorough):
            yield "substitute", key, blob[:pos] + bytes([b]) + blob[pos + 1:], sec
    for pos in range(0, n, stride):
        yield "delete", key, blob[:pos] + blob[pos + 1:], sec
    for pos in range(0, n + 1, stride):
        for b in (INSERT_THOROUGH if (thorough or WIDE_INSERT) else INSERT_QUICK):
            yield "insert", key, blob[:pos] + bytes([b]) + blob[pos:], sec
    for pos in range(0, n):
        yield "truncate", key, blob[:pos], sec
    for extra in (b"x", b"_", b":", b"0", b"_" + payload, b".", b"\n", payload):
        yield "extend", key, blob + extra, sec
    # the signature kept, the payload replaced wholesale
    for repl in (b"", b"123", b"0", b"1", b"N.", b"null", b"true", b"bytes:x", b"bytes:", b"\x80\x05N.", b"_", payload[::-1]):
        if repl != payload:
            yield "payload_replace", key, hdr + b"_" + repl, sec
    # multi-byte edits
    for _ in range(12 if not thorough else 200):
        m = bytearray(blob)
        for _ in range(rng.randrange(2, 5)):
            op = rng.randrange(3)
            pos = rng.randrange(len(m) + (op == 2)) if m else 0
            if op == 0 and m:
                m[pos] = rng.randrange(256)
            elif op == 1 and m:
                del m[pos]
            else:
                m.insert(pos, rng.randrange(256))
        if bytes(m) != blob:
            yield "multi", key, bytes(m), sec
    # splices with the other legitimate blobs; key swaps
    for k2, b2 in legit.items():
        h2, p2 = split_blob(b2)
        if k2 != key:
            yield "keyswap", k2, blob, sec                      # blob copied under another key
            yield "splice", key, hdr + b"_" + p2, sec            # own signature, foreign payload
            yield "splice", key, h2 + b"_" + payload, sec        # foreign signature, own payload
            for _ in range(3 if not thorough else 20):
                i, j = rng.randrange(n + 1), rng.randrange(len(b2) + 1)
                sp = blob[:i] + b2[j:]
                if sp != blob:
                    yield "splice", key, sp, sec
        # D25 shapes: the key difference moved into / out of the payload
        kb, k2b = key.encode(), k2.encode()
        if k2 != key and kb.startswith(k2b):                     # blob signed for `key`, read under its prefix k2
            yield "keyswap_prefix", k2, hdr + b"_" + kb[len(k2b):] + payload, sec
        if k2 != key and k2b.startswith(kb):                     # read under the longer key k2
            r = k2b[len(kb):]
            if payload.startswith(r):
                yield "keyswap_prefix", k2, hdr + b"_" + payload[len(r):], sec
    # keys that extend this key by a prefix of the payload (json floats: key 'k' payload '1.5' -> key 'k1.' payload '5')
    for cut in (1, 2, 3):
        try:
            ext_key = (key.encode() + payload[:cut]).decode("utf8")
        except UnicodeDecodeError:
            continue
        if len(payload) > cut and "*" not in ext_key:
            yield "keyswap_prefix", ext_key, hdr + b"_" + payload[cut:], sec
    # another secret reads the blob
    for other in ("other", sec + "x", sec[:-1] or "y", sec.upper() if sec.upper() != sec else sec.lower()):
        if other != sec and other:
            yield "secretswap", key, blob, other
    # label games: outside the property's quantifier ("digest label left intact"); implementation vs model only
    label = conf.digest.encode()
    sig = hdr[len(label) + 1:]
    yield "label", key, sig + b"_" + payload, sec                                    # label removed
    yield "label", key, b"sha512:" + sig + b"_" + payload, sec                       # unknown label
    yield "label", key, b":" + sig + b"_" + payload, sec                             # empty label
    yield "insert", key, label + b"::" + sig + b"_" + payload, sec                   # second ':' (D23), label intact
    yield "insert", key, label + b":" + label + b":" + sig + b"_" + payload, sec
    for other in S.DIGESTS:
        if other != conf.digest:
            yield "label", key, other.encode() + b":" + sig + b"_" + payload, sec    # relabelled, old signature
            good = S.real_mac(other, sec.encode(), key.encode() + payload)
            yield "label", key, other.encode() + b":" + good + b"_" + payload, sec   # relabelled by someone who knows the secret
    for digits in (b"123", b"0", b"007", b"-5", b"-0", b"-", b"--1", b"-1_2", b"+5", b" 5", b"5\n"):
        yield "digits", key, digits, sec


def unsigned_mutations(rng, key: str, blob: bytes, thorough: bool):
    """corruptions of an UNSIGNED stored blob (json / NonPickler configurations): outside C10's statement, run only to
    compare the model's decode with the code on its remaining branches (custom decode defaults, DecodeError, digits)"""
    n = len(blob)
    for pos in range(n):
        for b in subst_bytes(rng, blob[pos], thorough):
            yield "unsigned", key, blob[:pos] + bytes([b]) + blob[pos + 1:], None
        yield "unsigned", key, blob[:pos] + blob[pos + 1:], None
        yield "unsigned", key, blob[:pos], None
    for pos in range(n + 1):
        for b in (0x5f, 0x3a, 0x30, 0x2b):
            yield "unsigned", key, blob[:pos] + bytes([b]) + blob[pos:], None
    for whole in (b"", b"123", b"007", b"-12", b"-", b"bytes", b"bytes:", b":x", b"nosuchtype:x", b"Item:x", b"Item:+x", b"Item:", b"Item",
                  b"Item:+", b"int:1", b"md5:abc_x", b"_", b"a_b", "Ωmega:+x".encode(),
                  b"bytes:bytes:x", b"d:+", b"e:-"):
        yield "unsigned", key, whole, None


# ----------------------------------------------------------------------------------------------------
# one scenario on the implementation
# ----------------------------------------------------------------------------------------------------
def run_scenario(conf: S.Conf, writes, rng, thorough, stride=1, attacks=None, structural=0, write_log=None, tx_mode=None):
    """writes: [(key, value)].  Returns (legit {key: blob}, attack records).  structural = number of blobs of the scenario
    that additionally get the full-alphabet sweep at the structural positions.  attacks: None (generate), a list, or a
    function of the legitimate blobs.  An attack's 4th component is the reader's secret text, or (secret text, via) for a
    reader configured another way than the writer.  write_log (a list): one record per write incl. those that raised (a key
    that has no UTF-8 encoding cannot be signed); without it a raising write is a harness error.  tx_mode ("fast" | "locked" |
    "serializable"): the reader opens a transaction of that mode for every attack, puts the blob back with set_raw INSIDE it and
    reads it through the three paths inside the transaction (a second record, phase "inside ..."), lets the transaction commit,
    and reads again (the ordinary record, phase "after the commit of ...")."""
    from cashews.wrapper.transaction import TransactionMode

    async def go():
        wcache, _, wrec = conf.setup()
        legit = {}
        for k, v in writes:
            wrec.reset()
            try:
                await wcache.set(k, v)
                res = True
            except Exception as exc:  # noqa: BLE001
                if write_log is None:
                    raise
                res = "raised:" + type(exc).__name__
            raw = await wcache.get_raw(k)
            if write_log is not None:
                write_log.append({"conf": conf, "key": k, "value": v, "res": res, "raw": raw, "dumps": list(wrec.dumps_calls)})
            if res is not True:
                continue
            legit[k] = raw
            if not isinstance(legit[k], bytes):
                raise HarnessError(f"stored form of {v!r} is not bytes: nothing to corrupt")
        await wcache.set(NEIGHBOUR, "neighbour")
        nb_blob = await wcache.get_raw(NEIGHBOUR)
        readers = {}
        recs = []
        if callable(attacks):
            todo = attacks(legit)
        elif attacks is not None:
            todo = attacks
        elif conf.secret is None:
            todo = [a for k, b in legit.items() for a in unsigned_mutations(rng, k, b, thorough)]
        else:
            todo = [a for k, b in legit.items() for a in mutations(rng, k, b, legit, conf, thorough, stride)]
            for k, b in list(legit.items())[:structural]:
                todo.extend(structural_mutations(k, b, conf.secret))
        for cls, rkey, blob2, rsec in todo:
            rsec, rvia = rsec if isinstance(rsec, tuple) else (rsec, conf.via)
            if (rsec, rvia) == (conf.secret, conf.via) and legit.get(rkey) == blob2:
                continue  # not an alteration
            if (rsec, rvia) not in readers:
                rconf = S.Conf(conf.pickle_type, rsec, conf.digest, rvia)
                rc, rb, rr = rconf.setup()
                if (rsec, rvia) == (conf.secret, conf.via):
                    await rc.set_raw(NEIGHBOUR, nb_blob)
                    # warm the reader: it has already read every legitimate entry successfully before it meets an
                    # attacked blob (a signer that remembers what it verified must not let that widen what it accepts)
                    for wk, wblob in legit.items():
                        await rc.set_raw(wk, wblob)
                        await S.read(rc.get(wk, default=S.SENT))
                        await S.read(rc.get_many(wk, NEIGHBOUR, default=S.SENT))
                        await rc.delete(wk)
                readers[(rsec, rvia)] = (rconf, rc, rr)
            rconf, rc, rr = readers[(rsec, rvia)]

            async def gm():
                return [kv async for kv in rc.get_match(rkey)]

            if tx_mode is None:
                await rc.set_raw(rkey, blob2)
            else:
                async with rc.transaction(mode=TransactionMode(tx_mode), timeout=10):
                    await rc.set_raw(rkey, blob2)
                    rr.reset()
                    t_get = await S.read(rc.get(rkey, default=S.SENT))
                    trec = {"class": cls, "key": rkey, "blob": blob2, "secret": rsec, "via": rvia, "get": t_get,
                            "loads": list(rr.loads_calls), "tx": tx_mode, "phase": f"inside a {tx_mode} transaction"}
                    rr.reset()
                    trec["many"] = await S.read(rc.get_many(rkey, NEIGHBOUR, default=S.SENT))
                    trec["many_loads"] = [p for p, _, _ in rr.loads_calls]
                    rr.reset()
                    trec["match"] = await S.read(gm())
                    trec["match_loads"] = [p for p, _, _ in rr.loads_calls]
                    recs.append(trec)
            rr.reset()
            o_get = await S.read(rc.get(rkey, default=S.SENT))
            calls = [(p, kind, res) for p, kind, res in rr.loads_calls]
            rec = {"class": cls, "key": rkey, "blob": blob2, "secret": rsec, "via": rvia, "get": o_get, "loads": calls}
            if tx_mode is not None:
                rec.update({"tx": tx_mode, "phase": f"after the commit of a {tx_mode} transaction"})
            # the other read paths
            rr.reset()
            rec["many"] = await S.read(rc.get_many(rkey, NEIGHBOUR, default=S.SENT))
            rec["many_loads"] = [p for p, _, _ in rr.loads_calls]
            rr.reset()
            rec["match"] = await S.read(gm())
            rec["match_loads"] = [p for p, _, _ in rr.loads_calls]
            await rc.delete(rkey)
            recs.append(rec)
        return legit, recs, split_blob(nb_blob)[1]

    # a broken implementation may feed corrupted bytes to pickle.loads: cap the address space while the real code
    # runs (soft limit only, restored afterwards so that the Lean tools started later are not affected)
    soft, hard = resource.getrlimit(resource.RLIMIT_AS)
    try:
        resource.setrlimit(resource.RLIMIT_AS, (16 << 30, hard))
    except (ValueError, OSError):
        pass
    try:
        return vtime.run(go)
    finally:
        try:
            resource.setrlimit(resource.RLIMIT_AS, (soft, hard))
        except (ValueError, OSError):
            pass


# ----------------------------------------------------------------------------------------------------
# model + oracles
# ----------------------------------------------------------------------------------------------------
# attack classes that are NOT alterations in the property's sense: the same secret configured another way
MIRROR_ONLY = ("label", "digits", "same_secret_other_type", "reader_secret_unusable", "secretswap_hmac_equivalent")


def judge(conf: S.Conf, legit: dict, recs, ids: S.Ids, stats: dict, nb_payload: bytes = b""):
    """returns list of (rec, kind, signature, text); kind in {'spec', 'model'}.  A record may carry its own context
    r["ctx"] = (writer configuration, legitimate blobs, neighbour payload): records of several scenarios are judged in one
    batch of driver calls."""
    if not recs:
        return []
    dflt_ctx = (conf, legit, nb_payload)

    def base(r):
        c = r.get("ctx", dflt_ctx)[0]
        rconf = S.Conf(c.pickle_type, r["secret"], c.digest, r.get("via", c.via))
        f = rconf.fields()
        if r["class"] == "reader_secret_unusable":      # what reached HashSigner is not bytes after _to_bytes (probed)
            f = "sec=o " + f.split(" ", 1)[1]
        return f"{f} {S.key_field(r['key'])} w=b:{r['blob'].hex()} same=0"

    l1 = ["dec1 " + base(r) for r in recs]
    a1 = S.ask_par(DRIVER, l1)
    l2 = ["dec2 " + base(r) + " " + S.mac_field(a, r["secret"]) for r, a in zip(recs, a1)]
    a2 = S.ask_par(DRIVER, l2)

    def verdict(r):
        if len(r["loads"]) == 1:
            _, kind, res = r["loads"][0]
            return "ok:" + S.show_val(res, ids) if kind == "ok" else kind
        return "-"

    l3 = [l.replace("dec2 ", "dec3 ", 1) + " loads=" + verdict(r) for l, r in zip(l2, recs)]
    a3 = S.ask_par(DRIVER, l3)
    out = []
    nb_val = ("value", "neighbour")
    for r, q, p2, p3, line in zip(recs, a1, a2, a3, l3):
        conf, legit, nb_payload = r.get("ctx", dflt_ctx)
        label = conf.digest.encode() + b":"
        for ans in (q, p2, p3):
            if ans == "bad-op":
                raise HarnessError(f"driver could not parse: {line[:200]}")
            if "miss=1" in ans:
                raise HarnessError(f"model asked for a MAC the driver did not announce: {line[:200]} -> {ans}")
        pre = p2.split()[0][4:]
        res = p3.split()[0][4:]
        sec = (r["secret"] or "").encode()
        same_reader = (r["secret"], r.get("via", conf.via)) == (conf.secret, conf.via)
        key_ok = S.key_bytes(r["key"]) is not None
        # ---------------- (a) implementation vs model
        expect_calls = [bytes.fromhex(pre.split(":", 1)[1])] if pre.startswith("loads:") else []
        called = [p for p, _, _ in r["loads"]]
        if called != expect_calls:
            out.append((r, "model", None, f"unpickler calls on get: impl {called!r}, model {expect_calls!r} ({pre[:60]})"))
        i_res = S.show_outcome(r["get"], ids, r["key"])
        if r["class"] == "reader_secret_unusable" and r["get"] == ("raised", "TypeError"):
            i_res = "macerr:secret"
        if i_res != res:
            out.append((r, "model", None, f"get{' ' + r['phase'] if r.get('phase') else ''}: impl {i_res[:100]} ({r['get'][1]!r}), model {res[:100]}"))
        # get_many / get_match agree with get (same decode, same key)
        kind, val = r["get"]
        if kind in ("unsecure", "raised"):
            want_many = (kind, val)
            want_match = (kind, val)
        else:
            nb = nb_val if same_reader else ("dflt", None)
            want_many = ("value", ((S.SENT if kind == "dflt" else val), (S.SENT if nb[0] == "dflt" else nb[1])))
            want_match = ("value", [(r["key"], None if kind == "dflt" else val)])
        def _norm(o):
            if o[0] != "value":
                return o
            return ("value", json.dumps([("<default>" if x is S.SENT else S.canon(x)) for x in o[1]]) if isinstance(o[1], tuple)
                    else json.dumps([[k, S.canon(x)] for k, x in o[1]]))
        if _norm(r["many"]) != _norm(want_many):
            out.append((r, "model", None, f"get_many differs from get: {r['many']!r} vs get {r['get']!r}"))
        if _norm(r["match"]) != _norm(want_match):
            out.append((r, "model", None, f"get_match differs from get: {r['match']!r} vs get {r['get']!r}"))
        # ---------------- (b) the property
        # (b1) the unpickler is never run on bytes whose signature did not verify (every attack, every read path)
        for path, calls in (("get", called), ("get_many", r["many_loads"]), ("get_match", r["match_loads"])):
            for p in (calls if r["secret"] is not None else []):
                if path == "get_many" and same_reader and p == nb_payload:
                    continue
                if not independently_verifies(r["blob"], r["key"], sec, conf.digest, p):
                    out.append((r, "spec", "unpickler-on-unverified",
                                f"{path}{' ' + r['phase'] if r.get('phase') else ''}: unpickler was run on {p[:40]!r} although no signature over key||payload verifies "
                                f"for key {r['key']!r}"))
        # (b2) an altered blob with the label intact never comes back as a value, only unsafe-data error or default
        in_scope = (r["secret"] is not None and conf.digest in S.KEYED and r["blob"].startswith(label)
                    and r["class"] not in MIRROR_ONLY)
        stats["attacks_" + r["class"]] = stats.get("attacks_" + r["class"], 0) + 1
        stats["decision_" + pre.split(":")[0]] = stats.get("decision_" + pre.split(":")[0], 0) + 1
        if in_scope:
            stats["in_scope"] = stats.get("in_scope", 0) + 1
            for path in ("get", "many", "match"):
                kind, val = r[path]
                if kind == "value" and path == "many":
                    bad = val[0] is not S.SENT
                    shown = val[0]
                elif kind == "value" and path == "match":
                    bad = any(v is not None for _, v in val)
                    shown = val
                else:
                    # a key text without an encoding (lone surrogate) makes `key.encode()` raise before anything is verified:
                    # never a value; the UnicodeEncodeError is mirrored by the model (macError) and not held against the
                    # error family, which is stated for keys that are text
                    bad = kind == "value" or (kind == "raised" and not (val == "UnicodeEncodeError" and not key_ok))
                    shown = val
                if not bad:
                    continue
                sig = D25 if is_d25(r, legit, conf) else ("error-family" if kind == "raised" else "tampered-became-value")
                what = (f"{path}{' ' + r['phase'] if r.get('phase') else ''}: tampered blob ({r['class']}) put back with set_raw "
                        f"and read under key {r['key']!r}{'' if same_reader else ' with another secret'} "
                        + (f"raised {shown}" if kind == "raised" else f"came back as the value {shown!r}"))
                out.append((r, "spec", sig, what))
                break
    return out


def is_d25(r, legit: dict, conf: S.Conf) -> bool:
    """the residual of tampered_never_value: same secret, the signature of a legitimate (key0, p0) with key0 != key',
    and key' || p' == key0 || p0"""
    if r["secret"] != conf.secret:
        return False
    h2, p2 = split_blob(r["blob"])
    kb = S.key_bytes(r["key"])
    if h2 is None or kb is None:
        return False
    for k0, b0 in legit.items():
        h0, p0 = split_blob(b0)
        k0b = S.key_bytes(k0)
        if h0 == h2 and k0 != r["key"] and k0b is not None and kb + p2 == k0b + p0:
            return True
    return False


# ----------------------------------------------------------------------------------------------------
# keys and secrets that a lossy conversion would identify
# ----------------------------------------------------------------------------------------------------
# The MAC is computed over bytes: key.encode() and _to_bytes(secret).  "Copied under a different key" / "written with a
# different secret" are statements about the caller's TEXTS, so both conversions must be injective (Props/C10.lean:
# EncInjective; colliding_keys_accept_copy / colliding_secrets_accept show that this is necessary).  The real conversions
# are probed on pairs of different texts that SOME plausible lossy conversion maps to the same bytes.
def _sp(k: str) -> bytes:
    return k.encode("utf-8", "surrogatepass")


def _norm(form):
    return lambda k: _sp(unicodedata.normalize(form, k))


def _trunc(n):
    # the first n bytes, cut back to a character boundary
    return lambda k: _sp(k)[:n].decode("utf-8", "ignore").encode("utf-8")


LOSSY = [(f"utf-8/{h}", (lambda h: lambda k: k.encode("utf-8", h))(h))
         for h in ("ignore", "replace", "backslashreplace", "xmlcharrefreplace", "namereplace", "surrogateescape")]
LOSSY += [(f"ascii/{h}", (lambda h: lambda k: k.encode("ascii", h))(h))
          for h in ("ignore", "replace", "backslashreplace", "xmlcharrefreplace", "namereplace")]
LOSSY += [(f"latin-1/{h}", (lambda h: lambda k: k.encode("latin-1", h))(h)) for h in ("ignore", "replace")]
LOSSY += [(f, _norm(f)) for f in ("NFC", "NFD", "NFKC", "NFKD")]
LOSSY += [("casefold", lambda k: _sp(k.casefold())), ("lower", lambda k: _sp(k.lower())), ("strip", lambda k: _sp(k.strip())),
          ("utf-16 round trip", lambda k: _sp(k.encode("utf-16", "surrogatepass").decode("utf-16", "surrogatepass"))),
          ("cut at NUL", lambda k: _sp(k.split("\x00")[0])), ("first 32 bytes", _trunc(32)), ("first 64 bytes", _trunc(64))]

CONFUSABLE_BASE = ["name:\ud83d", "k\udc80", "k\udcc3\udca9", "\ud800", "caf\u00e9", "cafe\u0301", "\ufb01le", "k\U0001f600",
                   "k\ud83d\ude00", "Key", "stra\u00dfe", "k ", " k", "k\x00x", "\u2126", "\u2460", "a\u00a0b", "\u0130",
                   "user:" + "x" * 40 + ":1", "user:" + "\u00e9" * 40 + ":1", "k\ud83d", "k:\udfff_"]


def confusable_key_pairs():
    """[(key, other key, the lossy conversion that identifies them)]: different texts, both valid dict / redis keys"""
    seen, out = set(), []
    for k in CONFUSABLE_BASE:
        for name, f in LOSSY:
            try:
                b = f(k)
                k2 = b.decode("utf-8")
                same = f(k2) == b
            except (UnicodeError, ValueError):
                continue
            if k2 == k or not same or "*" in k2 or not k2 or (k, k2) in seen or (k2, k) in seen:
                continue
            seen.add((k, k2))
            out.append((k, k2, name))
    for a, b, _ in out:
        ka, kb = S.key_bytes(a), S.key_bytes(b)
        if ka is not None and ka == kb:
            raise HarnessError(f"the harness' own key encoding (strict UTF-8) identifies {a!r} and {b!r}")
    return out


# spellings that the settings-url parser (int() / float() of numeric-looking text) or a str() rendering would identify,
# and non-numeric controls.  Every member of a group is a DIFFERENT secret text.
SECRET_GROUPS = [["0042", "042", "42", "42.0", "+42", " 42"], ["1e3", "1000.0", "1000.00", "1_000.0", "1000"],
                 ["nan", "NaN", "-nan"], ["inf", "Infinity", "+inf"], ["\u0661\u0662\u0663", "123"], ["0", "00", "0.0", "-0"],
                 ["s3cret", "S3CRET", "s3cret "], ["caf\u00e9", "cafe\u0301"], ["20240117", "20240118", "2024011.7e1"]]
# secrets that contain a separator-like character, next to their parts, their first part with another tail, the parts in the
# other order, the text with a leading / trailing separator: what ANY splitting of the configured text (a "list of secrets" in
# one string: `new,old`) would turn into overlapping sets of keys.  The configured text is ONE secret, as a whole
# (Model/Serial.lean toBytes; Props/C10.lean any_secret_verifier_accepts_foreign_secret shows what a verifier that tries
# several secrets does): every pair of different texts below must be refused, as settings url / str keyword / bytes keyword.
SEPARATORS = [",", ";", ":", "|", " ", "\t"]
SEPARATORS_THOROUGH = ["\n", "&", "/", "+", "=", ".", "-"]


def separator_groups(thorough: bool):
    out = [["alpha,beta", "alpha", "beta", "alpha,gamma", "beta,alpha"], ["s3cr3t", "s3cr3t,", ",s3cr3t"],
           ["pass,word", "pass", "word", "password", "pass, word"]]
    for sep in SEPARATORS + (SEPARATORS_THOROUGH if thorough else []):
        out.append([f"new{sep}old", "new", "old", f"old{sep}new", f"new{sep}", f"{sep}new", f"new{sep}other"]
                   + ([f"new{sep}{sep}old"] if thorough else []))
    return out


# secrets that HMAC ITSELF identifies: the key is zero-padded to the hash's block size, so b"k" and b"k\x00" are one HMAC key
# (likewise a key longer than the block and its digest - binary, not expressible as a secret text here).  Inherent to HMAC,
# not to cashews: outside `MacInjective`, inside `MacInjectiveUpTo` (Props/C10.lean, mac_equivalent_secrets_accept).  Swapped
# like the spellings, but mirrored only (class secretswap_hmac_equivalent): the blob IS accepted, by the code and by the model.
HMAC_EQUIVALENT_SECRETS = [["k", "k\x00", "k\x00\x00"], ["s3cret", "s3cret\x00"]]
SECRET_VIAS = ("url", "kwstr", "kw")


def swap_scenarios(chk: Check):
    """[(origin, conf, writes, attacks(legit))] for the confusable keys and the secret spellings; probes: {description: verdict}"""
    out, probes = [], {}
    pairs = confusable_key_pairs()
    keys = []
    for a, b, _ in pairs:
        for k in (a, b):
            if k not in keys:
                keys.append(k)
    picklers = ["default", "json", None]
    nconf = chk.budget(3, 9)
    for i in range(nconf):
        conf = S.Conf(picklers[(i + i // 3 + chk.seed) % 3], "s3cret", S.KEYED[i % 3], ["url", "kwstr", "kw"][(i // 3) % 3])
        writes = [(k, (f"value #{j}" if j % 3 else f"bytes #{j}".encode())) for j, k in enumerate(keys)]

        def attacks(legit, conf=conf):
            todo = []
            for a, b, why in pairs:
                for src, dst in ((a, b), (b, a)):
                    if src in legit:
                        todo.append(("keyswap_confusable", dst, legit[src], conf.secret))
            return todo

        out.append((f"keys:{conf.name()}", conf, writes, attacks))
    groups = SECRET_GROUPS + separator_groups(chk.thorough)
    for gi, group in enumerate(groups + HMAC_EQUIVALENT_SECRETS):
        swap_class = "secretswap_spelling" if gi < len(groups) else "secretswap_hmac_equivalent"
        digest = S.KEYED[(gi + chk.seed) % 3]
        pt = ["default", "json", None][(gi + chk.seed) % 3] if chk.thorough or gi % 2 else "default"
        for via in ("url", "kwstr"):
            usable = {}
            for sec in group:
                for v2 in SECRET_VIAS:
                    c = S.Conf(pt, sec, digest, v2)
                    usable[(sec, v2)] = c.probe()
                    if v2 == "url" or usable[(sec, v2)] != "signed":
                        probes[f"{v2}:secret={sec!r}"] = usable[(sec, v2)]
            for sec in group:
                if usable[(sec, via)] != "signed":
                    continue
                conf = S.Conf(pt, sec, digest, via)

                def attacks(legit, group=group, sec=sec, via=via, usable=usable, swap_class=swap_class):
                    todo = []
                    for other in group:
                        for rv in ("url", "kwstr"):
                            if other != sec and usable[(other, rv)] == "signed":
                                todo.append((swap_class, "k", legit["k"], (other, rv)))
                            elif other != sec and usable[(other, rv)].startswith("raises"):
                                todo.append(("reader_secret_unusable", "k", legit["k"], (other, rv)))
                    for v2 in SECRET_VIAS:
                        if v2 != via and usable[(sec, v2)] == "signed":
                            todo.append(("same_secret_other_type", "k", legit["k"], (sec, v2)))
                    return todo

                out.append((f"secrets:{gi}:{via}:{sec!r}", conf, [("k", f"written under secret {sec!r}")], attacks))
    return out, probes, pairs


def check_writes(write_log, ids: S.Ids):
    """stored forms of the swap scenarios' writes vs the model (a key without an encoding cannot be signed: stored=err)"""
    if not write_log:
        return []
    def line(w):
        d = "dumps=" + S.show_val(w["dumps"][-1][1], ids) if w["dumps"] else "dumps=-"
        return f"{w['conf'].fields()} {S.key_field(w['key'])} v={S.show_val(w['value'], ids)} {d}"
    l1 = ["enc1 " + line(w) for w in write_log]
    a1 = S.ask_par(DRIVER, l1)
    l2 = ["enc2 " + line(w) + " " + S.mac_field(a, w["conf"].secret) for w, a in zip(write_log, a1)]
    a2 = S.ask_par(DRIVER, l2)
    out = []
    for w, ans, ln in zip(write_log, a2, l2):
        if ans == "bad-op" or "miss=1" in ans:
            raise HarnessError(f"driver could not answer a write of a swap scenario: {ln[:200]} -> {ans}")
        impl = "stored=" + (S.show_val(w["raw"], ids) if w["res"] is True else "err")
        if ans.split()[0] != impl:
            out.append((w, f"write of {w['value']!r} under key {w['key']!r} ({w['conf'].name()}): impl {impl[:100]} "
                           f"({w['res']}), model {ans.split()[0][:100]}"))
    return out


# ----------------------------------------------------------------------------------------------------
# scenarios
# ----------------------------------------------------------------------------------------------------
def c10_confs():
    out = []
    for pt in ("default", "json", None):
        for d in S.KEYED:
            out.append(S.Conf(pt, "s3cret", d))
    out.append(S.Conf("default", "a_b:c", "sha1", "kw"))
    out.append(S.Conf("json", "é∑", "md5"))
    out.append(S.Conf("default", "s3cret", "sum"))       # not a keyed hash: implementation vs model only
    return out


KEY_GROUPS = [["k", "kbytes:", "K"], ["k", "kN.", "kk"], ["a:b", "a:bbytes:", "a:"], ["é", "ébytes:"], ["k_", "k"],
              ["user:1", "user:12", "user:1bytes:"], ["0", "00"], ["k", "k1."]]


def gen_writes(rng, conf: S.Conf):
    keys = list(rng.choice(KEY_GROUPS))
    writes = []
    for k in keys:
        r = rng.random()
        if r < 0.15:
            v = S.gen_boxed(rng)
            v = type(v)(v.payload[:24])
        elif r < 0.3:
            v = rng.choice(S.ADV_BYTES)
        elif conf.is_json:
            v = rng.choice([1.5, 12.25, "abc", [1, 2], {"a": 1}, True, None, "x_y:z", [], 0.5]) if rng.random() < 0.6 \
                else S.gen_json_value(rng, 2)
        else:
            v = S.gen_value(rng, 2)
        if type(v) is int:
            v = str(v)                                   # ints are stored raw (no blob to corrupt)
        writes.append((k, v))
    return writes


def report(chk: Check, conf, writes, legit, item):
    r, kind, sig, text = item
    # keep only the writes the attack derives from (same key, or a blob sharing the signature header)
    h2 = split_blob(r["blob"])[0]
    keep = [k for k, b in legit.items() if k == r["key"] or (h2 is not None and split_blob(b)[0] == h2)]
    if keep:
        writes = [(k, v) for k, v in writes if k in keep]
        legit = {k: b for k, b in legit.items() if k in keep}
    replay = {
        "config": conf_to_json(conf),
        "writes": pairs_src(writes),
        "legit": {k: b.hex() for k, b in legit.items()},
        "attack": {"class": r["class"], "read_key": r["key"], "blob": r["blob"].hex(), "reader_secret": r["secret"],
                   "reader_via": r.get("via", conf.via), **({"tx": r["tx"], "phase": r["phase"]} if r.get("tx") else {})},
        "observed": {"get": repr(r["get"]), "get_many": repr(r["many"]), "get_match": repr(r["match"]),
                     "unpickler_calls": [p.hex() for p, _, _ in r["loads"]]},
        "replay_cmd": "./check C10 --replay <this file>",
    }
    if kind == "spec":
        chk.violation(f"signed storage ({conf.name()}): {text}"[:600], replay, signature=sig)
    else:
        chk.violation(f"correspondence broken: cashews/serialize.py differs from model Serial on a corrupted blob "
                      f"({conf.name()}, {r['class']}): {text}"[:600],
                      dict(replay, broken="correspondence Serial model <-> cashews/serialize.py"), signature=None, no_input=True)


def corpus_cases():
    for f in sorted((ROOT / "corpus" / PROP).glob("*.json")):
        c = json.loads(f.read_text())
        a = c["attack"]
        yield (f.name, conf_from_json(c["config"]), pairs_eval(c["writes"]),
               a if "derive" in a else (a["class"], a["read_key"], bytes.fromhex(a["blob"]), _reader(a, a["reader_secret"])))


def _reader(a: dict, secret):
    """the reader of a corpus / replay attack: its secret text, or (secret text, via) when it is configured another way"""
    return (secret, a["reader_via"]) if a.get("reader_via") else secret


def derive_attack(a, legit, conf):
    """corpus attacks may be given symbolically (so that they follow the stored format): see corpus/C10"""
    blob = legit[a["from_key"]]
    hdr, payload = split_blob(blob)
    kind = a["derive"]
    if kind == "copy":
        b2 = blob
    elif kind == "move_key_suffix_into_payload":
        b2 = hdr + b"_" + a["from_key"].encode()[len(a["read_key"].encode()):] + payload
    elif kind == "second_colon":
        lab = conf.digest.encode()
        b2 = lab + b"::" + hdr[len(lab) + 1:] + b"_" + payload
    elif kind == "flip_last_payload_byte":
        b2 = blob[:-1] + bytes([blob[-1] ^ 1])
    elif kind == "truncate_before_underscore":
        b2 = hdr
    elif kind == "pad_signature":                       # extra bytes between the genuine signature and the '_' / after the ':'
        lab = conf.digest.encode()
        b2 = lab + b":" + bytes.fromhex(a.get("pre", "")) + hdr[len(lab) + 1:] + bytes.fromhex(a.get("post", "")) + b"_" + payload
    else:
        raise HarnessError(f"unknown corpus derivation {kind}")
    return (a.get("class", kind), a["read_key"], b2, _reader(a, a.get("reader_secret", conf.secret)))


def run(chk: Check) -> int:
    S.register_boxes()
    proof = proof_stage(PROP, "driver_c10", chk.thorough) if not getattr(chk, "skip_proof", False) else None
    found = 0
    try:
        S.check_labels(DRIVER)
    except S.LabelMismatch as exc:
        chk.violation(f"digest table of the model differs from HashSigner._digestmods: {exc}",
                      {"broken": "Digest.label table <-> HashSigner._digestmods", "model": exc.model, "code": exc.code},
                      no_input=True)
        found += 1
    ids = S.Ids()
    stats: dict = {}
    evaluations = 0
    distinct = set()
    samples = []
    conf_hist: dict = {}
    scenarios = []
    ncorpus = 0
    for name, conf, writes, attack in corpus_cases():
        scenarios.append(("corpus:" + name, conf, writes, attack))
        ncorpus += 1
    confs = c10_confs()
    n = chk.budget(24, 66)
    n_full = chk.budget(0, 6)          # scenarios swept with ALL 255 substitute bytes at every offset (thorough only)
    for i in range(n):
        conf = confs[i % len(confs)]
        scenarios.append((f"gen:{i}", conf, gen_writes(chk.rng, conf), None))
    for i in range(chk.budget(4, 16)):
        conf = [S.Conf("json", None, "md5"), S.Conf(None, None, "md5")][i % 2]
        writes = []
        for k in chk.rng.choice(KEY_GROUPS):
            v = S.gen_boxed(chk.rng) if chk.rng.random() < 0.5 else chk.rng.choice(S.ADV_BYTES)
            if isinstance(v, S.Boxed):
                v = type(v)(v.payload[:16])
            writes.append((k, v))
        scenarios.append((f"unsigned:{i}", conf, writes, None))
    # transactions x signed storage: the same attacks with the blob put back INSIDE an open transaction (each mode), read
    # inside it and again after its commit
    for i in range(chk.budget(3, 9)):
        conf = S.Conf(["default", "json", None][(i + i // 3 + chk.seed) % 3], "s3cret", S.KEYED[i % 3])
        mode = TX_MODES[(i + i // 3 + chk.seed) % 3]
        scenarios.append((f"tx:{mode}:{i}", conf, gen_writes(chk.rng, conf), None))
    tx_attacks: dict = {}
    exhaustive_blobs = 0
    full_blobs = 0
    # full-alphabet sweep at the structural positions: quick = one blob per keyed digest, each under another pickler (which
    # digest meets which pickler rotates with the seed); thorough = the first blob of every generated scenario
    global WIDE_INSERT
    WIDE_INSERT = chk.thorough
    if chk.thorough:
        structural_scenarios = set(range(n))
    else:
        structural_scenarios = {3 * b + (b + chk.seed) % 3 for b in range(3)}
    structural_blobs = []
    corpus_skipped = []
    for origin, conf, writes, attack in scenarios:
        if attack is not None:
            rd = attack if isinstance(attack, dict) else {}
            rprobe = S.Conf(conf.pickle_type, rd["reader_secret"], conf.digest, rd.get("reader_via", conf.via)).probe() \
                if rd.get("reader_secret") else "signed"
            if conf.probe() != "signed" or rprobe != "signed":
                corpus_skipped.append(f"{origin}: writer {conf.probe()}, reader {rprobe}")
                continue
            tx = attack.get("tx") if isinstance(attack, dict) else None
            if isinstance(attack, dict):
                # symbolic attack: needs the stored forms first
                legit0, _, _ = run_scenario(conf, writes, chk.rng, False, attacks=[], write_log=[])
                attack = derive_attack(attack, legit0, conf)
            legit, recs, nbp = run_scenario(conf, writes, chk.rng, chk.thorough, attacks=[attack], write_log=[], tx_mode=tx)
        elif origin.startswith("tx:"):
            mode = origin.split(":")[1]
            legit, recs, nbp = run_scenario(conf, writes, chk.rng, False, stride=chk.budget(12, 3), tx_mode=mode)
            tx_attacks[mode] = tx_attacks.get(mode, 0) + len(recs) // 2
        else:
            # quick: every offset of every blob, a handful of substitute bytes; thorough: all 255 substitutes
            gi = int(origin.split(":")[1]) if origin.startswith("gen:") else None
            full = gi is not None and gi < n_full
            structural = 1 if gi is not None and gi in structural_scenarios and conf.secret else 0
            legit, recs, nbp = run_scenario(conf, writes, chk.rng, full, structural=structural)
            exhaustive_blobs += len(legit)
            full_blobs += len(legit) if full else 0
            if structural:
                k0 = next(iter(legit))
                structural_blobs.append({"config": conf.name(), "key": k0, "blob_len": len(legit[k0]),
                                         "insert_offsets": structural_positions(legit[k0])[0],
                                         "substitute_offsets": structural_positions(legit[k0])[1]})
        items = judge(conf, legit, recs, ids, stats, nbp)
        evaluations += len(recs)
        conf_hist[conf.name()] = conf_hist.get(conf.name(), 0) + len(recs)
        for r in recs:
            distinct.add((r["key"], r["blob"], r["secret"]))
        if len(samples) < 3 and recs:
            r = recs[len(recs) // 2]
            samples.append({"config": conf.name(), "writes": pairs_src(writes)[:200], "attack_class": r["class"], "read_key": r["key"],
                            "blob": r["blob"].hex()[:160], "observed_get": repr(r["get"])[:80]})
        seen_sig = set()
        for it in sorted(items, key=lambda it: it[1] != "spec"):
            r, kind, sig, text = it
            if (kind, sig) in seen_sig:
                continue
            seen_sig.add((kind, sig))
            before = len(chk.violations)
            report(chk, conf, writes, legit, it)
            if len(chk.violations) > before:
                found += 1
            if found >= 3:
                break
        if found >= 3:
            break
    # ---- keys / secrets that a lossy conversion would identify (all records judged in one batch of driver calls)
    swap_cov: dict = {}
    if found < 3:
        swaps, probes, key_pairs = swap_scenarios(chk)
        swap_recs, write_log, ctx_of = [], [], {}
        for origin, conf, writes, attacks in swaps:
            wl: list = []
            legit, recs, nbp = run_scenario(conf, writes, chk.rng, False, attacks=attacks, write_log=wl)
            write_log.extend(wl)
            for r in recs:
                r["ctx"] = (conf, legit, nbp)
                ctx_of[id(r)] = (origin, conf, writes, legit)
                distinct.add((r["key"], r["blob"], r["secret"], r["via"]))
            swap_recs.extend(recs)
            conf_hist[conf.name()] = conf_hist.get(conf.name(), 0) + len(recs)
        evaluations += len(swap_recs)
        sw_stats: dict = {}
        items = judge(swaps[0][1], {}, swap_recs, ids, sw_stats) if swap_recs else []
        stats.update({k: stats.get(k, 0) + v for k, v in sw_stats.items()})
        seen_sig = set()
        for it in sorted(items, key=lambda it: it[1] != "spec"):
            r, kind, sig, text = it
            if (kind, sig, r["class"]) in seen_sig or found >= 3:
                continue
            seen_sig.add((kind, sig, r["class"]))
            origin, conf, writes, legit = ctx_of[id(r)]
            before = len(chk.violations)
            report(chk, conf, writes, legit, it)
            found += len(chk.violations) > before
        for w, text in check_writes(write_log, ids)[:1]:
            if found < 3:
                chk.violation(f"correspondence broken: cashews/serialize.py differs from model Serial on a write: {text}"[:600],
                              {"config": conf_to_json(w["conf"]), "writes": pairs_src([(w["key"], w["value"])]),
                               "attack": {"class": "none", "read_key": w["key"], "blob": "", "reader_secret": w["conf"].secret},
                               "broken": "correspondence Serial model <-> cashews/serialize.py (encode)"},
                              signature=None, no_input=True)
                found += 1
        unusable = {k: v for k, v in probes.items() if v != "signed"}
        swap_cov = {
            "confusable_key_pairs": len(key_pairs),
            "confusable_key_pairs_by_conversion": {w: sum(1 for _, _, x in key_pairs if x == w) for w in sorted({x for _, _, x in key_pairs})},
            "keys_without_an_encoding_not_writable": sorted({ascii(w["key"]) for w in write_log if w["res"] is not True}),
            "secret_groups": len(SECRET_GROUPS) + len(separator_groups(chk.thorough)),
            "secret_spellings": sum(len(g) for g in SECRET_GROUPS + separator_groups(chk.thorough)),
            "swap_scenarios": len(swaps), "swap_attacks": len(swap_recs),
            "attacks_by_class": {c: sum(1 for r in swap_recs if r["class"] == c) for c in sorted({r["class"] for r in swap_recs})},
            "secret_probe_not_signing": unusable,
            "rule": "keys: every pair (k, k') of different key texts such that one of " + str(len(LOSSY)) + " lossy conversions (utf-8 / "
                    "ascii / latin-1 with the ignore, replace, backslashreplace, xmlcharrefreplace, namereplace, surrogateescape "
                    "handlers; NFC/NFD/NFKC/NFKD; casefold, lower, strip; a utf-16 round trip; cut at NUL; first 32 / 64 bytes) maps "
                    "both to the same bytes, k from a list of keys with lone surrogates, combining / compatibility characters, "
                    "non-BMP characters, blanks, NUL and long keys: both keys are written (a key without a UTF-8 encoding cannot be "
                    "signed: mirrored by the model, stored=err / macerr:key), each blob is copied under the other key and read "
                    "through get, get_many, get_match - acceptance of such a copy IS a collision of the real key conversion. "
                    "secrets: groups of different secret texts that int()/float() parsing or a str() rendering identifies (0042/042/"
                    "42/42.0, 1e3/1000.0, nan/NaN, Arabic-Indic digits, zeroes) plus controls, and groups built around a separator-like "
                    "character (',', ';', ':', '|', blank, TAB; thorough: more): new<sep>old with its parts, the parts in the other order, "
                    "the first part with another tail, leading / trailing separator - a configured text is ONE secret; configured through the settings url and "
                    "as str keyword; every configuration is first probed (can it sign?); a blob written under one spelling is read by "
                    "readers configured with each other spelling (judged) and with the same text given as url / str / bytes (the same "
                    "secret: model comparison only)",
        }
        if unusable:
            # defect D42 (repaired in /repo as c2756b4): a cache the user configured with a secret that verifies nothing
            # (`unsigned`) or cannot be used at all is a violation of "reads ... never return a value"'s premise - signed storage
            chk.violation(
                f"{len(unusable)} secret configurations cannot sign on this tree (a numeric-looking secret in the settings url reaches "
                f"HashSigner as int/float: every write raises TypeError; 'secret=0' silently builds an unsigned cache): {sorted(unusable)[:6]}",
                {"probes": unusable, "how": "Cache().setup('mem://?secret=<text>&digestmod=md5'); await cache.set('probe', 'p'); "
                                            "await cache.get_raw('probe')"},
                signature="D42:url-numeric-secret")
            found += 1
    if proof is not None:
        chk.proof_broken(proof, found > 0)
    chk.coverage.update({
        "evaluations": evaluations,
        "distinct_nontrivial": len(distinct),
        "rule": "a case = (reader configuration, key read, corrupted blob): for every blob stored by a generated write under "
                "{default,json,omitted pickler} x {md5,sha1,sha256} (+ one sum configuration, model comparison only): a substitution at EVERY "
                "offset (quick: 5-7 substitute bytes per offset incl. the other case of a letter; thorough: all 255), deletion at every offset, "
                "insertion at every offset (quick: '_', ':', '0', 'a', newline, blank; thorough: + NUL, 0x80, '.', CR, TAB, '+'), for at least "
                "one blob per keyed digest (quick: 3 blobs, digest x pickler rotating with the seed; thorough: one blob of every scenario) "
                "ALL 256 byte values inserted and ALL 255 other values substituted at every offset adjacent to a structural separator "
                "(blob start/end, around the ':' after the label, first and last signature byte, around the '_' before the payload, first "
                "payload byte: classes insert_structural / substitute_structural, exhaustive at those offsets) and 12 paddings a lenient "
                "parser would swallow (newline, CRLF, blank, TAB, NUL, '0x', '+', ...) at the four token boundaries of the header (class pad), "
                "truncation at every offset, extensions, random multi-byte edits, splices with the other blobs of the scenario, copies under "
                "the other keys (key groups contain keys that are prefixes of each other, with the D25 rearrangement of the payload), four "
                "other secrets, relabelling and digit-only blobs (the last two outside the property's quantifier: model comparison and the "
                "unpickler oracle only); plus corruptions of unsigned json / NonPickler blobs (class 'unsigned': model comparison only, they "
                "exercise the default / DecodeError branches of the custom decoders). Every case is read through get, get_many and get_match. Every case is non-trivial (a corrupted or "
                "foreign blob reaching decode); distinct = distinct (key, blob, reader secret).",
        "samples": samples,
        "corpus_cases": ncorpus,
        "corpus_cases_skipped_secret_cannot_sign": corpus_skipped,
        "scenarios": len(scenarios),
        "blobs_swept_at_every_offset": exhaustive_blobs,
        "blobs_swept_with_all_255_substitutes_at_every_offset": full_blobs,
        "blobs_swept_with_all_256_bytes_at_structural_positions": structural_blobs,
        "structural_sweep_exhaustive": True,
        "exhaustive": False,
        "configurations": conf_hist,
        "interesting_states_cases": stats,
        "confusable_texts": swap_cov,
        "attacks_inside_transactions": {
            "by_mode": tx_attacks,
            "rule": "for one scenario per transaction mode (quick; thorough: every mode x every keyed digest) the reader opens "
                    "cache.transaction(mode), puts each corrupted / foreign blob back with set_raw inside it, reads it through get, get_many "
                    "and get_match inside the transaction, lets the transaction commit and reads again: both phases are judged and "
                    "compared with the model like a read outside any transaction (a raw write is not a transactional write: it goes "
                    "to the backend, the overlay never holds stored forms)",
        },
        "trusted_base": TRUSTED,
        "partial": "the MAC is abstract in the proof (idealised as collision-free for the integrity theorem) and real (stdlib hmac) in the "
                   "sweep; blobs whose digest label was changed are outside C10's quantifier: a reader configured with md5 accepts a blob "
                   "relabelled 'sum:' if its sum-'MAC' is right (computable by whoever can guess sum(secret)), and a bare digit string is read "
                   "as an integer without any signature - both are mirrored by the model (value_only_if) and not judged",
    })
    chk.assumptions.extend(TRUSTED)
    return chk.finish(proof)


def replay(chk: Check, path: str) -> int:
    S.register_boxes()
    c = json.loads(Path(path).read_text())
    conf = conf_from_json(c["config"])
    writes = pairs_eval(c["writes"])
    a = c["attack"]
    if conf.probe() != "signed":
        print(f"replay: the writer's configuration cannot sign on this tree ({conf.probe()}): nothing to judge")
        return 0
    if "derive" in a:
        legit0, _, _ = run_scenario(conf, writes, chk.rng, False, attacks=[], write_log=[])
        attack = derive_attack(a, legit0, conf)
    else:
        attack = (a["class"], a["read_key"], bytes.fromhex(a["blob"]), _reader(a, a["reader_secret"]))
    legit, recs, nbp = run_scenario(conf, writes, chk.rng, False, attacks=[attack], write_log=[], tx_mode=a.get("tx"))
    if "legit" in c:
        legit = {k: bytes.fromhex(v) for k, v in c["legit"].items()}
    items = judge(conf, legit, recs, S.Ids(), {}, nbp)
    for r in recs:
        print(f"read {r['key']!r}{' ' + r['phase'] if r.get('phase') else ''} blob={r['blob']!r}\n  get={r['get']!r} get_many={r['many']!r} get_match={r['match']!r} "
              f"unpickler_calls={[p for p, _, _ in r['loads']]!r}")
    bad = 0
    for r, kind, sig, text in items:
        known = kind == "spec" and any(f.get("status") == "known" and f.get("signature") == sig for f in chk.known)
        print(f"  [{kind}{' known:' + sig if known else ''}] {text}")
        bad += 0 if known else 1
    if not bad:
        print("replay: no (unlisted) disagreement")
        return 0
    print(f"VIOLATION property={PROP} replay={path}")
    return 1
