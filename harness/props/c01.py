"""C01 - the in-memory store is a TTL map for every command history.

proof: lean/CashewsVerif/Props/C01.lean (Mem refines TtlMap, corollaries).
tie:   generated histories run on the real `Memory` / `Cache` facade under the virtual clock and on the
       model driver; compared line by line:  impl == model (correspondence)  and  impl == spec (the property).
       The real purge task runs next to the harness task; what it does to the store is observed on the store
       (not on how `_remove_expired` is written) and spliced into the history as `purge` lines - see memhist.py.
       Through the facade two thirds of the histories spell every TTL the way an application may (int, float,
       timedelta - with a non-zero `days` field from one day on -, duration strings '90s' / '1d1m30s' / ' 1D ' / bare
       digits), one third of them with TTLs of hours and days and time advances aimed at those deadlines; the model
       keeps working in ticks (the harness converts the intended duration itself, never through cashews.ttl); the
       Lean side of this glue is Props/C01 `facade_spellings_refine` (over C02's parser lemmas).
"""
from __future__ import annotations

import json
from pathlib import Path

from .. import memhist
from ..core import ROOT, Check, Driver, ddmin, proof_stage

PROP = "C01"
DRIVER = Driver("driver_c01", "Drivers/C01.lean")
NKEYS = 4
SIZE = 1000
CFGS = ["raw", "facade", "facade_secret", "raw_purge", "facade_purge", "facade_pickle",
        "raw_fine", "facade_fine", "facade_secret_fine", "raw_purge_fine", "facade2", "facade2_mixed",
        "raw_purge", "facade_purge"]          # the purge-task configurations twice per round: they need the most histories

TRUSTED = [
    "Lean 4.33.0 kernel; axioms of every theorem audited to be within {propext, Classical.choice, Quot.sound}",
    "hand-written model lean/CashewsVerif/Model/Mem.lean of cashews/backends/memory.py, tied to the code by this run's history correspondence",
    "harness: virtual clock (harness/vtime.py), canonicalisation of results, observation of the purge task on the store itself "
    "(harness/memhist.py: `ObservedMemory.store` is an OrderedDict subclass reporting every mutation and the task that made it; "
    "background mutations of one instant not separated by a command are spliced in as one `purge` line)",
    "the purge sweep is atomic with respect to commands (no suspension point inside Memory.get; asyncio does not preempt): assumed by "
    "the model's single `purge` operation, made explicit in Model/Sweep.lean / theorem sweeps_invisible; not proved - exercised by "
    "commands landing at the very instant of a purge tick, before and after the purge task's step (interesting_states_cases: "
    "command_at_the_instant_of_a_sweep_after_it, sweep_at_the_instant_of_a_command_after_it; sweep_split_by_commands stays absent)",
    "serializer configurations are run but not modelled: C09 covers decode(encode v) = v",
    "TTL spellings: harness/memhist.py `spell` builds the Python object (int / float / timedelta / str) for a number of ticks and hands "
    "the plain tick count to the model - the two sides never share a conversion; Python's own timedelta normalisation and str/int are trusted",
    "clock resolution: the `*_fine` configurations tell the driver their ticks per second on the `case` line; only get_expire depends on it (Model/Fine.lean getExpireR, "
    "proved equal to the ideal map's at every resolution and to getExpire at 8: theorem ttl_query_at_any_resolution)",
    "container values are opaque tokens for the model (theorem get_many_returns_any_value quantifies over every Val); the harness maps them by type and equality",
    "two-backend configurations: the harness names the keys (odd model keys get the prefix of the second backend); the facade's grouping of multi-key commands is modelled in "
    "Model/Routed.lean (theorem two_backends_get_many_positional) and otherwise observed end to end against the single ideal map",
    "capacity eviction excluded (size=1000 >> keys); see C11",
]


def model_lines(eff, cfg):
    res = memhist.res_of(cfg)
    return [f"case {SIZE}" if res == 8 else f"case {SIZE} {res}"] + [l for l, _ in eff]


def compare(eff, answers):
    """first index where impl differs from model / from spec (None if none)"""
    d_model = d_spec = None
    for i, ((line, out), ans) in enumerate(zip(eff, answers[1:])):
        if line.startswith("?"):
            return i, i
        parts = dict(p.split("=", 1) for p in ans.split(" ", 1)) if ans.startswith("model=") else None
        if parts is None:
            return i, i
        if d_model is None and out != parts["model"]:
            d_model = i
        if d_spec is None and out != parts["spec"]:
            d_spec = i
    return d_model, d_spec


def run_case(cfg, ops):
    eff, stats = memhist.execute(cfg, SIZE, ops)
    answers = DRIVER.ask(model_lines(eff, cfg))
    return eff, answers, stats


def fails(cfg, ops) -> bool:
    eff, answers, _ = run_case(cfg, ops)
    dm, ds = compare(eff, answers)
    return dm is not None or ds is not None


def signature(eff, idx) -> str:
    """structural signature of a failing history: the command that answered wrongly and whether it hit an
    expired-unpurged entry - used only to match known findings"""
    return eff[idx][0].split()[0] if idx is not None and idx < len(eff) else "?"


def report(chk: Check, cfg, ops, origin):
    small = ddmin(ops, lambda o: fails(cfg, o))
    eff, answers, _ = run_case(cfg, small)
    dm, ds = compare(eff, answers)
    idx = ds if ds is not None else dm
    replay = {
        "config": cfg,
        "ops": small,
        "trace": [{"line": l, "impl": o, "driver": a} for (l, o), a in zip(eff, answers[1:])],
        "first_diff_vs_model": dm,
        "first_diff_vs_spec": ds,
        "origin": origin,
        "ttl_spellings": [d for d in (memhist.describe(l, memhist.res_of(cfg)) for l in small) if d],
        "replay_cmd": "./check C01 --replay <this file>",
    }
    how = f"; as handed to the code: {', '.join(replay['ttl_spellings'])}" if replay["ttl_spellings"] else ""
    if ds is not None:
        chk.violation(
            f"in-memory backend disagrees with the ideal TTL map at step {ds}: `{eff[ds][0]}` -> impl {eff[ds][1]}, {answers[ds + 1]} (config {cfg}){how}",
            replay, signature=signature(eff, ds))
    else:
        chk.violation(
            f"correspondence broken: implementation differs from model Mem at step {dm} `{eff[dm][0]}` but agrees with the ideal map{how}",
            dict(replay, broken="correspondence Mem model <-> cashews/backends/memory.py"), signature=None, no_input=True)


def corpus_cases():
    d = ROOT / "corpus" / PROP
    for f in sorted(d.glob("*.json")):
        c = json.loads(f.read_text())
        yield f.name, c["config"], c["ops"]


def run(chk: Check) -> int:
    proof = proof_stage(PROP, "driver_c01", chk.thorough) if not getattr(chk, "skip_proof", False) else None
    n = chk.budget(10500, 154000)
    found = 0
    evaluations = 0
    distinct = set()
    hist = {}
    interesting = {}
    spellings = {}
    samples = []
    cases = [("corpus:" + name, cfg, ops) for name, cfg, ops in corpus_cases()]
    ncorpus = len(cases)
    for i in range(n):
        cfg = CFGS[i % len(CFGS)]
        maxlen = 40 if i % 3 else 12
        # purge task on: every other history is phase-locked to the purge ticks (see memhist.PHASE_ADVS)
        rnd = i // len(CFGS)
        locked = bool(memhist.CONFIGS[cfg]["purge"]) and rnd % 2 == 1
        # facade: rounds 1, 2 mod 3 spell every TTL (memhist.spell); round 2 mod 3 adds TTLs of hours and days and time
        # advances aimed at their deadlines (purge task on: never more than ten minutes at once - every purge tick is
        # a turn of the real loop; the long deadlines are then queried and read, not crossed)
        spelled = memhist.CONFIGS[cfg]["facade"] and rnd % 3 != 0
        big = spelled and rnd % 3 == 2 and not locked
        # every other round the value alphabet also holds container / empty payloads (set, frozenset, list, dict, tuple,
        # nested, empty ones, b"", ""): every read command has to hand them back as they are, in every configuration
        vals = memhist.VALS + memhist.CONTAINER_VALS if rnd % 2 == 0 else None
        weights = None
        if memhist.CONFIGS[cfg].get("second"):
            # two backends behind the facade: more multi-key commands, longer key lists (their keys interleave the backends)
            weights = {"setmany": 12, "getmany": 22, "delmany": 6}
        res = memhist.res_of(cfg)
        if res != 8:
            # the finer clock (ticks of 2**-20 s): TTLs that are not a whole number of milli- / microseconds, down to one
            # tick; half of the time advances aim at a pending deadline (1000 / 300 / 40 / 8 / 1 ticks before it - i.e.
            # inside its last millisecond -, exactly at it, 1 / 8 ticks after it)
            cases.append((f"gen:{i}", cfg, memhist.gen_history(
                chk.rng, NKEYS, maxlen, advs=memhist.FINE_ADVS, ttls=memhist.FINE_TTLS, vals=vals, chase=True, res=res,
                forms=["f", "f", "td", "i", "ss"] if spelled else None,
                maxadv=8 * 1024 if memhist.CONFIGS[cfg]["purge"] else None)))
            continue
        cases.append((f"gen:{i}", cfg, memhist.gen_history(
            chk.rng, NKEYS, maxlen, advs=memhist.PHASE_ADVS if locked else None, ttls=memhist.PHASE_TTLS if locked else None,
            forms=memhist.SPELL_FORMS if spelled else None, bigttls=memhist.BIG_TTLS if big else None,
            maxadv=4800 if memhist.CONFIGS[cfg]["purge"] else None, vals=vals, weights=weights, manykeys=6 if weights else 4)))
    # run the implementation on every case, then the model driver ONCE on all of them (one `case` line resets it)
    runs = []
    for origin, cfg, ops in cases:
        eff, stats = memhist.execute(cfg, SIZE, ops)
        runs.append((origin, cfg, ops, eff, stats))
    lines, spans = [], []
    for _, cfg, _, eff, _ in runs:
        ml = model_lines(eff, cfg)
        spans.append((len(lines), len(lines) + len(ml)))
        lines.extend(ml)
    all_answers = DRIVER.ask(lines) if lines else []
    for (origin, cfg, ops, eff, stats), (a, b) in zip(runs, spans):
        answers = all_answers[a:b]
        evaluations += 1
        for l, _ in eff:
            w = l.split()
            name = w[0] + ("_" + w[4] if w[0] == "set" else "")
            hist[name] = hist.get(name, 0) + 1
        for k, v in stats.items():
            if k.startswith("spelling:"):
                spellings[k[9:]] = spellings.get(k[9:], 0) + v
            else:
                interesting[k] = interesting.get(k, 0) + 1
        stats = {k: v for k, v in stats.items() if not k.startswith("spelling:")}
        if stats:
            distinct.add((cfg, tuple(ops)))
        if len(samples) < 4 and stats and len(ops) <= 14 and (len(samples) < 3 or any("/td" in o for o in ops)):
            samples.append({"config": cfg, "ops": ops, "impl": [o for _, o in eff]})
        dm, ds = compare(eff, answers)
        if dm is not None or ds is not None:
            found += 1
            report(chk, cfg, ops, origin)
            if found >= 3:
                break
    if proof is not None:
        chk.proof_broken(proof, found > 0)
    chk.coverage.update({
        "evaluations": evaluations,
        "distinct_nontrivial": len(distinct),
        "rule": "histories of 1..40 commands over 4 keys generated from VERIF_SEED, round-robin over configurations "
                + ",".join(CFGS) + "; with the purge task on every other history is phase-locked to the purge ticks (all time "
                "advances are multiples of the purge interval or idle yields, TTLs at most two intervals), so that commands land at the "
                "instant of a tick on either side of the purge task's step; through the facade two histories in three spell every TTL as int / float / "
                "timedelta / duration string (ttl_spellings_commands counts the commands per Python type handed over; timedelta_with_days = `days` field non-zero), "
                "one in three with TTLs from 90 s to 30 days and half of its time advances aimed at 8 / 1 ticks before, exactly at, 1 / 8 ticks after a pending deadline "
                "(purge task on: advances of at most ten minutes); the `*_fine` configurations run on a clock of 2**20 ticks per second (all instants and TTLs dyadic, so "
                "every float sum and comparison in the code is exact): TTLs of 1, 2, 500 ... ticks, a tick under / over 1, 2, 5, 10 ms, 1/1024 s, 1 s +- a tick, half of the advances aimed "
                "at 1000 / 300 / 40 / 8 / 1 ticks before, exactly at, 1 / 8 ticks after a pending deadline, purge interval 1/1024 s in raw_purge_fine; every other round the value alphabet also "
                "holds container / empty payloads (set, frozenset, list, dict, tuple, nested and empty ones, b'', ''), opaque tokens for the model, recognised by type and equality on the way back; "
                "facade2 / facade2_mixed put two prefix-routed backends behind one facade (odd keys behind 'b:'; the second one signed in facade2_mixed) with more and longer multi-key commands, "
                "so that get_many / set_many / delete_many meet keys that interleave the backends (counted: *_with_keys_interleaving_the_backends); the model stays one ideal map; "
                "a case is non-trivial iff at least one command touched an expired-but-unpurged entry, "
                "answered exactly at a deadline, or a real purge sweep was spliced in; distinct = distinct (config, op list)",
        "samples": samples,
        "corpus_cases": ncorpus,
        "op_histogram": hist,
        "interesting_states_cases": interesting,
        "ttl_spellings_commands": spellings,
        "trusted_base": TRUSTED,
        "partial": "non-dyadic TTLs (decimal TTLs such as 2.01 are represented by dyadic neighbours at 2**-20 s: the sum `now + ttl` would not be exact for them), get_match (not a command of the property), more than 4 keys / 40 commands and the float formula of get_expire beyond eighths are not sampled; "
                   "TTL spellings not sampled here: callables (the commands do not accept them), strings with trailing digits after a unit or with "
                   "characters the parser refuses (C02), negative durations; deadlines of hours and days are crossed with the purge task off only",
    })
    chk.assumptions.extend(TRUSTED)
    return chk.finish(proof)


def replay(chk: Check, path: str) -> int:
    c = json.loads(Path(path).read_text())
    eff, answers, _ = run_case(c["config"], c["ops"])
    dm, ds = compare(eff, answers)
    for op in c["ops"]:
        d = memhist.describe(op, memhist.res_of(c["config"]))
        if d:
            print(f"# `{op}`: {d} handed to the code; the model gets ticks / opaque tokens")
    for (l, o), a in zip(eff, answers[1:]):
        print(f"{l:40s} impl={o:20s} {a}")
    if dm is None and ds is None:
        print("replay: no disagreement")
        return 0
    print(f"VIOLATION property={PROP} replay={path}")
    return 1
