"""C02 helper: runs one *case* (a call history of a function wrapped by `cache.cache` or `cache.iterator`)
on the real cashews code under the virtual clock, renders it for the model driver, and evaluates the spec
oracle (the property statement itself) on what the implementation was observed to do.

A case is a JSON-able dict:
  kind      "simple" | "iter"
  config    "plain" | "secret"            (mem:// with the null pickler / with secret= -> HashSigner + pickle)
  sig       "ab" | "kw" | "va" | "vk"     (async def f(a, b=0) / f(a, *, b=0) / f(a, *rest) / f(a, **opts))
  keytpl    None | "{a}:{b}" | ...        (key= of the decorator)     prefix: str (simple only)
  protected bool                          (simple only; calls are sequential, so single-flight must be invisible)
  cond      condition in driver notation  (all | nn | we:.. | oe:.. | tc:<ticks> | fn:<6 letters> | tc:<ticks>&<cond>:
            time_condition= together with condition=, both have to accept)
  condv     int: which Python spelling of that condition is used
  ttl       TTL in driver notation        (i<secs> | f<ticks> | d<ticks> | s<hex> | ck:.. | cr:..)
  ttlv      int: for callables, 0 = accepts `result=`, 1 = does not (TypeError fallback path of ttl_to_seconds)
  script    simple: ["v:1","n","f2","e1:3","e1p2",...] behaviour[:duration] of execution 0,1,...
            iter:   ["v,f0:2,v/0", "v,e1:8/0", "-/0"]  steps/findur of run 0,1,...
            e<c> raises the plain class E<c>; e<c>p<s> raises class c with *payload shape* s (see SHAPES: message built
            in __init__, several / keyword-only constructor arguments, re-ordered args, attributes and notes,
            `raise ... from cause`, own __reduce__); an exception the caller receives is canonicalised by a complete
            observation (type, args, str(), attributes, notes, cause) - see `observe` / `canon`
            iterator items beyond v / n / f<j>:  f4.. are odd constants (a tuple, bytes, 0.0, a user object that merely looks
            like the library's RaiseException wrapper, a dict);  y<c>[p<s>] YIELDS an exception instance of class c
            (payload shape s) as a value - a replay has to yield it too, never raise it;  m updates ONE dict object that the
            run keeps and yields that same object again (row["i"] = i; yield row): the replay has to be the sequence of the
            item's STATES at the moments it was yielded (for the model an m step is a v step)
  ops       [["call", arg_index, form_index], ["adv", ticks], ...]
            arg_index indexes ARGS: bound (a, b) tuples, some of which are EQUAL BUT DIFFERENT arguments (1 / True / 1.0,
            0 / False / 0.0, 2 / 2.0): "the same bound arguments" is the rendered key of C08 (1 -> '1', True -> 'true',
            1.0 -> '1.0'), never python's ==
            calls of the basic decorator may carry a 4th element "lost": the caller's task is cancelled while the function
            is running - under thunder protection (protected=True) the call is shielded and completes, without it the
            execution is cut short as it starts to work (it is then no execution: it consumes no script entry)
            iterator calls may carry a 4th element, what the consumer does with the stream:
              ["take", n, how]  receives n >= 1 elements and stops: how 0 = break + aclose(), 1 = break and drop the
                                stream (finalised by the event loop), 2 = the consumer's task is cancelled between two
                                items (in its own body; the stream is dropped with the task's frame)
              ["cancel", n]     the consumer's task is cancelled while the wrapped generator works on its step n, i.e.
                                after n items (step = len(steps) is the final stretch); a replay has no such point:
                                on a hit this consumer drains
            absent = `async for` to the end.  A real run is thus completed / raised / abandoned / cancelled ("ended" in
            the execution log); only a run that ended by itself may ever be replayed.
"""
from __future__ import annotations

import asyncio
import gc
import inspect
import os
from datetime import timedelta

from . import vtime
from .vtime import CLOCK, TICK

from cashews import Cache  # noqa: E402
from cashews.cache_condition import NOT_NONE, only_exceptions, with_exceptions  # noqa: E402
from cashews.ttl import ttl_to_seconds  # noqa: E402

from .core import HarnessError  # noqa: E402


class E0(Exception):
    pass


class E1(Exception):
    pass


class E2(Exception):
    pass


EXC = [E0, E1, E2]


# Payload shapes of a raised exception.  Shape s > 0 of class c is a subclass of E<c> (so the library's
# isinstance-based conditions select it exactly like E<c>) with a constructor of its own, or the plain class raised
# with more than its args.  What the model calls the *payload* of an exception is everything `observe` sees.
def _init_msg(self, ident):                       # message built in __init__: args != constructor arguments
    Exception.__init__(self, f"item {ident} not found")
    self.ident = ident


def _init_two(self, status, reason):              # two mandatory positional arguments, one arg handed to super()
    Exception.__init__(self, f"{status}: {reason}")
    self.status = status
    self.reason = reason


def _init_kwonly(self, *, limit):                 # keyword-only constructor argument
    Exception.__init__(self, limit)
    self.limit = limit


def _init_swap(self, message, code=500):          # args re-ordered on the way to super()
    Exception.__init__(self, code, message)
    self.message = message
    self.code = code


def _reduce_two(self):                            # a class that tells pickle / copy how to rebuild it
    return type(self), (self.status, self.reason), dict(self.__dict__)


def _init_errs(self, n, errors=()):               # an error collection: the instance is falsy when it holds no errors
    Exception.__init__(self, n, errors)


def _len_errs(self):
    return len(self.args[1])


# shape id -> (name, class body or None for the plain class, survives a pickle round trip?)
SHAPES = {
    0: ("plain", None, True),
    1: ("msg-built-in-init", {"__init__": _init_msg}, False),
    2: ("two-positional-args", {"__init__": _init_two}, False),
    3: ("keyword-only-arg", {"__init__": _init_kwonly}, False),
    4: ("plain-with-cause", None, False),             # raise E(n) from ValueError(...): __cause__ is not pickled
    5: ("plain-with-attributes-and-note", None, True),
    6: ("args-reordered", {"__init__": _init_swap}, False),
    7: ("two-args-own-reduce", {"__init__": _init_two, "__reduce__": _reduce_two}, True),
    8: ("falsy-instance", {"__init__": _init_errs, "__len__": _len_errs}, True),
}
# Shapes that are valid in a case / replay file but that the generators do not draw yet.
# 8: on the pinned tree `if _exc: raise _exc` (simple.py:74; same in early.py, hit.py) tests the *truth value* of the
#    exception: a falsy instance is handed to the caller as a return value instead of being raised (a new finding of this
#    check, see proposed_fixes/C02_falsy_exception_returned.diff and its witness).  Drawing it would make the check
#    report that finding on every run; add it to the draw once the repair is in /repo or the finding is registered.
#    (development: VERIF_C02_PENDING=1 draws them too, to try a repaired tree given by VERIF_REPO.)
PENDING_SHAPES = set()  # shape 8 (falsy exception) was pending until /repo commit 983b1af repaired the decorators
GENERATED_SHAPES = sorted(set(SHAPES) - PENDING_SHAPES)
PICKLE_FAITHFUL = sorted(s for s, (_, _, ok) in SHAPES.items() if ok and s not in PENDING_SHAPES)
SHAPE_CLS: dict = {}
for _c, _base in enumerate(EXC):
    for _s, (_name, _body, _) in SHAPES.items():
        if _body is None:
            SHAPE_CLS[(_c, _s)] = _base
        else:
            _cls = type(f"E{_c}S{_s}", (_base,), dict(_body))
            _cls.__module__ = __name__
            globals()[_cls.__name__] = _cls      # picklable by reference
            SHAPE_CLS[(_c, _s)] = _cls


def raise_exc(c: int, shape: int, n: int):
    """what the scripted function does for `e<c>p<shape>` in execution n"""
    cls = SHAPE_CLS[(c, shape)]
    if shape == 0:
        raise cls(n)
    if shape == 1:
        raise cls(n)
    if shape in (2, 7):
        raise cls(400 + n, f"reason-{n}")
    if shape == 3:
        raise cls(limit=n)
    if shape == 4:
        raise cls(n) from ValueError(f"root-{n}")
    if shape == 5:
        exc = cls(n)
        exc.detail = {"n": n, "path": ["a", n]}
        exc.add_note(f"while computing {n}")
        raise exc
    if shape == 6:
        raise cls(f"message-{n}", code=n)
    if shape == 8:
        raise cls(n, ())
    raise HarnessError(f"bad exception shape {shape}")


def observe(exc: BaseException) -> tuple:
    """identity-independent but complete observation of an exception as a caller can see it"""
    cause = exc.__cause__
    return (type(exc).__module__, type(exc).__qualname__, repr(exc.args), str(exc),
            repr(sorted((k, repr(v)) for k, v in vars(exc).items())),
            None if cause is None else (type(cause).__qualname__, repr(cause.args)))


_EXPECT: dict = {}


def _expectations():
    if not _EXPECT:
        for (c, shape) in SHAPE_CLS:
            for n in range(40):
                try:
                    raise_exc(c, shape, n)
                except Exception as exc:  # noqa: BLE001
                    _EXPECT[observe(exc)] = f"x{c}.{n}" if shape == 0 else f"x{c}p{shape}.{n}"
    return _EXPECT


def describe_exc(exc: BaseException) -> str:
    """short, comma- and blank-free rendering of an exception that is none of the scripted ones"""
    cause = exc.__cause__
    text = f"{type(exc).__qualname__}({'|'.join(repr(a) for a in exc.args)})"
    extra = sorted(vars(exc))
    if extra:
        text += "+attrs:" + "/".join(extra)
    if cause is not None:
        text += "+cause:" + type(cause).__qualname__
    return "X:" + text.replace(",", ";").replace(" ", "_")[:120]
class RaiseException:
    """a USER's class that merely looks like the library's internal wrapper (same name, same attribute): an item like any
    other"""

    def __init__(self, exc):
        self.exc = exc

    def __eq__(self, other):
        return type(other) is type(self) and observe(other.exc) == observe(self.exc)

    def __hash__(self):
        return hash(observe(self.exc))

    def __repr__(self):
        return f"LookAlikeRaiseException({self.exc!r})"


FALSY = [0, "", [], False]
# constants an execution can return / a generator can yield: the falsy ones, then other odd values ("whatever the items are")
CONSTS = FALSY + [(1, "a"), b"raw", 0.0, RaiseException(ValueError("inner")), {"k": 1, "z": None}]
# payload shapes of an exception instance that is YIELDED as an item: those that both copy.copy (in-memory backend) and pickle
# rebuild faithfully and whose instances are truthy (a condition that hands the item back is asked for its truth value)
EOBJ_SHAPES = [0, 5, 7]


def make_exc(c: int, shape: int, n: int) -> Exception:
    """the exception instance that `raise_exc(c, shape, n)` raises, as an object"""
    try:
        raise_exc(c, shape, n)
    except Exception as exc:  # noqa: BLE001
        return exc.with_traceback(None)
    raise HarnessError("raise_exc did not raise")
# bound (a, b); index = key id of the model.  0-3: one type only; from 4 on: values that are == to an earlier one but are
# different arguments (another type): "same bound arguments" is decided by type and value - as C08's key rendering does
# (1 -> '1', True -> 'true', 1.0 -> '1.0') -, never by ==/hash.
ARGS = [(1, 0), (2, 0), (1, 5), (2, 5),
        (True, 0), (1.0, 0), (1, False), (1, 0.0), (2.0, 0), (0, 0), (False, 0), (0.0, 0), (True, False), (2, 5.0)]


def render_arg(v) -> str:
    """how C08's key formatter renders an argument value (the part of it used here): bool lower-cased, else str()"""
    return str(v).lower() if isinstance(v, bool) else str(v)


if len({(render_arg(a), render_arg(b)) for a, b in ARGS}) != len(ARGS):      # the alphabet must be distinct as keys
    raise HarnessError("ARGS: two argument tuples render to the same key")


def arg_index(a, b) -> int:
    """key id of the bound arguments (a, b): identity by type and value"""
    for i, (x, y) in enumerate(ARGS):
        if type(x) is type(a) and type(y) is type(b) and x == a and y == b:
            return i
    raise HarnessError(f"arguments {(a, b)!r} are not in the alphabet")


def _eq_classes():
    out = {}
    for i, t in enumerate(ARGS):
        out.setdefault(t, []).append(i)          # dict lookup by ==/hash: exactly the confusion to be exercised
    return [ids for ids in out.values() if len(ids) > 1]


# functions with a variadic parameter: bound (a, rest) of `f(a, *rest)` and (a, sorted items of opts) of `f(a, **opts)`;
# the overflow is part of the bound arguments like any named parameter
ARGS_VA = [(1, ()), (1, (20,)), (1, (20, 30)), (1, (40,)), (2, ()), (2, (20,)), (1, (20, 30, 40)), (1, (30, 20)),
           # 8, 9: not drawn by the generators - the iterator decorator keeps item i of a run under "<key>:<i>", so with the
           # default key template item 3 of f(1, 2) sits under the very key that marks a cached run of f(1, 2, 3)
           # (known finding C02:iterator-chunk-key-is-a-marker-key, witness corpus/C02/B2_*)
           (1, (2,)), (1, (2, 3))]
VA_COLLIDING = (8, 9)
ARGS_VK = [(1, ()), (1, (("x", 20),)), (1, (("y", 20),)), (1, (("x", 20), ("y", 30))), (2, ()), (2, (("x", 20),)), (1, (("x", 30),)),
           (1, (("x", 30), ("y", 20)))]


def alphabet(sig: str):
    return {"ab": ARGS, "kw": ARGS, "va": ARGS_VA, "vk": ARGS_VK}[sig]


def bound_index(sig: str, a, b) -> int:
    """key id of the bound arguments of a call of signature `sig`"""
    if sig in ("ab", "kw"):
        return arg_index(a, b)
    try:
        return alphabet(sig).index((a, b))
    except ValueError:
        raise HarnessError(f"arguments {(a, b)!r} are not in the alphabet of signature {sig}") from None


def eq_class_of(sig: str, k: int):
    """key ids whose arguments compare equal to those of key k (other than by being the same arguments)"""
    return EQ_CLASS_OF.get(k, ()) if sig in ("ab", "kw") else ()


EQ_CLASSES = _eq_classes()       # key ids whose argument tuples compare equal: [[0,4,5,6,7,12], [1,8], [3,13], [9,10,11]]
EQ_CLASS_OF = {i: ids for ids in EQ_CLASSES for i in ids}
UNIT_SECS = {"d": 86400, "h": 3600, "m": 60, "s": 1}   # the property's meaning of the units (not read from the code)


# ----------------------------------------------------------------------------------------------
# canonical forms
def canon(value) -> str:
    """a returned / yielded value or a raised exception in the driver's notation"""
    if isinstance(value, BaseException):
        # x<c>[p<shape>].<n> iff the exception is, in every observable respect (type, args, str(), attributes, notes,
        # cause), what execution n raises for that class and payload shape - anything else is named as it looks
        return _expectations().get(observe(value)) or describe_exc(value)
    if value is None:
        return "n"
    if isinstance(value, str) and value.startswith("v"):
        body = value[1:]
        return "v" + body if "." in body else f"v{body}.0"
    if type(value) is dict and set(value) == {"run", "i"}:       # the row object of an `m` step, as it is right now
        return f"v{value['run']}.{value['i']}"
    for j, f in enumerate(CONSTS):
        if type(value) is type(f) and value == f:
            return f"f{j}"
    return "?" + repr(value)[:30]


def canon_item(x) -> str:
    """an item a consumer was handed: an exception instance that is YIELDED is y<c>[p<s>].<n> (x... is reserved for what is
    raised)"""
    if isinstance(x, BaseException):
        c = canon(x)
        return "y" + c[1:] if c.startswith("x") else "yielded:" + c
    return canon(x)


def kind_of(c: str) -> str:
    """v | n | f | e<c> of a canonical result"""
    if c.startswith("v"):
        return "v"
    if c == "n":
        return "n"
    if c.startswith("f"):
        return "f"
    if c.startswith("x"):
        return "e" + c[1:].split(".")[0]
    if c.startswith("y"):
        return "y" + c[1:].split(".")[0]
    return "?"


def base_kind(kind: str) -> str:
    """the kind without its payload shape: e1p3 -> e1 (conditions and TTL callables see the class only)"""
    return kind.split("p")[0] if kind[:1] in ("e", "y") else kind


def exc_of_kind(kind: str):
    """(class index, payload shape) of an exception kind e<c> / e<c>p<s>"""
    c, _, shape = kind[1:].partition("p")
    return int(c), int(shape or 0)


class _KindIdx(dict):
    def __missing__(self, kind):
        return self[base_kind(kind)] if kind != base_kind(kind) else dict.__getitem__(self, kind)


KIND_IDX = _KindIdx({"v": 0, "n": 1, "f": 2, "e0": 3, "e1": 4, "e2": 5, "y0": 3, "y1": 4, "y2": 5, "m": 0})


def res_idx(kind: str) -> int:
    return 3 if kind.startswith("e") else KIND_IDX[kind]


# ----------------------------------------------------------------------------------------------
# TTL spellings
def unhex(h: str) -> str:
    return bytes.fromhex(h).decode("ascii")


def tohex(s: str) -> str:
    return s.encode("ascii").hex()


def plain_py(p: str):
    """Python object for a plain TTL spelling"""
    t, r = p[0], p[1:]
    if t == "i":
        return int(r)
    if t == "f":
        return int(r) * TICK
    if t == "d":
        return timedelta(seconds=int(r) * TICK)
    if t == "s":
        return unhex(r)
    raise HarnessError(f"bad ttl spelling {p}")


def str_secs_spec(s: str):
    """what a well-formed duration string means according to the property: sum of <number><unit> segments
    (d/h/m/s = 86400/3600/60/1), or a bare number of seconds.  None = not a well-formed duration string."""
    s = s.strip().lower()
    if s.isascii() and s.isdigit():
        return int(s)
    total, num, seen = 0, "", False
    for ch in s:
        if ch.isascii() and ch.isdigit():
            num += ch
        elif ch in UNIT_SECS and num:
            total += int(num) * UNIT_SECS[ch]
            num, seen = "", True
        else:
            return None
    if num or not seen:
        return None
    return total


def plain_ticks_spec(p: str):
    t, r = p[0], p[1:]
    if t == "i":
        return 8 * int(r)
    if t in "fd":
        return int(r)
    secs = str_secs_spec(unhex(r))
    return None if secs is None else 8 * secs


def ttl_ticks_spec(ttl: str, key: int, kind: str):
    """ticks the TTL spelling denotes for a call with key id `key` whose result has kind `kind` (spec side)"""
    if ttl.startswith("ck:"):
        ps = ttl[3:].split(",")
        return plain_ticks_spec(ps[min(key, len(ps) - 1)])
    if ttl.startswith("cr:"):
        ps = ttl[3:].split(",")
        return plain_ticks_spec(ps[res_idx(kind)])
    return plain_ticks_spec(ttl)


def _result_kind(result) -> str:
    """what a user's ttl callable makes of the `result` it is handed: an exception (`isinstance(result, Exception)`), None,
    a falsy value - or an ordinary answer, which is also what any object it does not know (an internal wrapper, say) is"""
    if isinstance(result, BaseException):
        return "e0"
    k = kind_of(canon(result))
    return k if k in ("v", "n", "f") else "v"


TTL_SEEN: list = []     # (result handed to a result-dependent ttl callable), in call order; cleared by `execute` per call


def ttl_py(ttl: str, variant: int, key_of):
    """Python object for a TTL spelling; `key_of(args, kwargs)` gives the key id"""
    if not (ttl.startswith("ck:") or ttl.startswith("cr:")):
        return plain_py(ttl)
    ps = [plain_py(p) for p in ttl[3:].split(",")]
    by_key = ttl.startswith("ck:")

    def pick(args, kwargs, result):
        if by_key:
            return ps[min(key_of(args, kwargs), len(ps) - 1)]
        return ps[res_idx(_result_kind(result))]

    if variant == 0 or not by_key:
        def ttl_fn(*args, result=None, **kwargs):
            if not by_key:
                TTL_SEEN.append(result)
            return pick(args, kwargs, result)
    else:
        def ttl_fn(*args, **kwargs):          # does not take `result`: ttl_to_seconds falls back to ttl(*args, **kwargs)
            if "result" in kwargs:
                raise TypeError("unexpected keyword argument 'result'")
            return pick(args, kwargs, None)
    return ttl_fn


# ----------------------------------------------------------------------------------------------
# conditions
def cond_accepts_spec(cond: str, kind: str, dur: int, *, item: bool = False) -> bool:
    """does the caching condition select this outcome for caching - the property's reading:
    all: every returned value; not-none: every value but None; with_exceptions(S): every value and the listed
    exceptions; only_exceptions(S): the listed exceptions only; time condition: values of executions slower
    than the limit; a callable: values for which it returns True (simple decorator: the bool `True`; iterator:
    any truthy value) and exceptions it returns."""
    kind = base_kind(kind)      # the payload of an exception plays no part in its selection
    is_exc = kind.startswith("e")
    if kind.startswith("y"):
        # an exception INSTANCE yielded as an item: conditions that look at the class (`isinstance(result, exceptions)`) see an
        # instance of it and hand it back - for an item any truthy answer accepts
        if not item:
            raise HarnessError("an exception object as a return value of the basic decorator is outside the alphabet")
        if cond in ("all", "nn"):
            return True
        if cond[:3] in ("we:", "oe:"):
            sel = [int(x) for x in cond[3:].split("+") if x]
            return (not sel or int(kind[1:]) in sel) or cond.startswith("we:")
        if cond.startswith("fn:"):
            return cond[3:][KIND_IDX[kind]] in "TyX"
        raise HarnessError(f"bad condition {cond} for an item")
    if kind == "m":
        kind = "v"
    if "&" in cond:             # time_condition= together with condition=: stored only if both accept
        tc, inner = cond.split("&", 1)
        return dur > int(tc[3:]) and cond_accepts_spec(inner, kind, dur, item=item)
    if cond == "all":
        return not is_exc
    if cond == "nn":
        return not is_exc and kind != "n"
    if cond.startswith("we:") or cond.startswith("oe:"):
        sel = [int(x) for x in cond[3:].split("+") if x]
        if is_exc:
            return not sel or int(kind[1:]) in sel
        return cond.startswith("we:")
    if cond.startswith("tc:"):
        return not is_exc and dur > int(cond[3:])
    if cond.startswith("fn:"):
        letter = cond[3:][KIND_IDX[kind]]
        if is_exc:
            return letter == "X"
        if letter == "X":       # "returns the exception it was handed" on a non-exception: a truthy non-bool
            letter = "y"
        return letter == "T" or (item and letter == "y")
    raise HarnessError(f"bad condition {cond}")


def cond_py(cond: str, variant: int):
    """(condition=, time_condition=) arguments for the decorator"""
    if "&" in cond:
        tc, inner = cond.split("&", 1)
        return cond_py(inner, variant)[0], cond_py(tc, variant)[1]
    if cond == "all":
        return [None, "all", any][variant % 3], None
    if cond == "nn":
        return [NOT_NONE, "skip_none"][variant % 2], None
    if cond.startswith("we:") or cond.startswith("oe:"):
        sel = [EXC[int(x)] for x in cond[3:].split("+") if x]
        return (with_exceptions if cond.startswith("we:") else only_exceptions)(*sel), None
    if cond.startswith("tc:"):
        ticks = int(cond[3:])
        spell = [ticks * TICK, timedelta(seconds=ticks * TICK)]
        if ticks % 8 == 0:
            spell += [ticks // 8, f"{ticks // 8}s"]
        return None, spell[variant % len(spell)]
    if cond.startswith("fn:"):
        table = cond[3:]

        def condition(result, args, kwargs, key=None):
            letter = table[KIND_IDX[_kind_exact(result)]]
            if letter == "T":
                return True
            if letter == "F":
                return False
            if letter == "y":
                return [1, "yes"][variant % 2]
            if letter == "z":
                return [0, None][variant % 2]
            return result if isinstance(result, Exception) else "the-exception"
        return condition, None
    raise HarnessError(f"bad condition {cond}")


def _kind_exact(result) -> str:
    if isinstance(result, BaseException):
        for c, cls in enumerate(EXC):
            if isinstance(result, cls):
                return f"e{c}"
        return "e0"
    return kind_of(canon(result))


# ----------------------------------------------------------------------------------------------
# call forms
def make_sig(sig: str):
    """a function with the signature that gives back the normalised bound arguments of a call"""
    if sig == "ab":
        def shape(a, b=0):
            return (a, b)
    elif sig == "kw":
        def shape(a, *, b=0):
            return (a, b)
    elif sig == "va":
        def shape(a, *rest):
            return (a, tuple(rest))
    elif sig == "vk":
        def shape(a, **opts):
            return (a, tuple(sorted(opts.items())))
    else:
        raise HarnessError(f"bad signature {sig}")
    return shape


SIG_TEXT = {"ab": "a, b=0", "kw": "a, *, b=0", "va": "a, *rest", "vk": "a, **opts"}


def forms(sig: str, a, b):
    """every way to spell the call with bound arguments (a, b) for the signature: list of (args, kwargs)"""
    if sig == "va":         # extra positionals can only follow a positional `a`
        return [((a, *b), {})] + ([((), {"a": a})] if not b else [])
    if sig == "vk":
        opts = dict(b)
        return [((a,), opts), ((), {"a": a, **opts}), ((), {**opts, "a": a}), ((a,), dict(reversed(list(opts.items()))))]
    out = [((a,), {"b": b}), ((), {"a": a, "b": b}), ((), {"b": b, "a": a})]
    if sig == "ab":
        out.insert(0, ((a, b), {}))
    if type(b) is int and b == 0:       # only the default itself may be left out (False and 0.0 are other arguments)
        out += [((a,), {}), ((), {"a": a})]
    return out


def call_forms(sig: str, key: int):
    return forms(sig, *alphabet(sig)[key])


def key_of_factory(sig: str):
    shape = make_sig(sig)

    def key_of(args, kwargs) -> int:
        kwargs = {k: v for k, v in kwargs.items() if k != "result"}
        return bound_index(sig, *shape(*args, **kwargs))
    return key_of


# ----------------------------------------------------------------------------------------------
def parse_beh(b: str):
    k, _, d = b.partition(":")
    return k, int(d or 0)


def parse_run(r: str):
    steps, _, fd = r.partition("/")
    return ([] if steps == "-" else [parse_beh(s) for s in steps.split(",")]), int(fd or 0)


def expected_exc_text(res: str) -> str:
    """how the exception behind the canonical result x<c>[p<s>].<n> looks (for messages)"""
    c, shape = exc_of_kind(kind_of(res))
    try:
        raise_exc(c, shape, int(res.rsplit(".", 1)[1]))
    except Exception as exc:  # noqa: BLE001
        return describe_exc(exc)[2:] + f" [{SHAPES[shape][0]}]"


def check_case(case: dict):
    """preconditions of a case that the generators guarantee (hand-written replay files may not)"""
    kinds = []
    for b in case["script"]:
        kinds += [parse_beh(b)[0]] if case["kind"] == "simple" else [k for k, _ in parse_run(b)[0]]
    for k in kinds:
        if k.startswith("y"):
            c, shape = exc_of_kind(k)
            if case["kind"] == "simple" or shape not in EOBJ_SHAPES or c >= len(EXC):
                raise HarnessError(f"bad item kind {k}")
        if k == "m" and case["kind"] == "simple":
            raise HarnessError("m steps are for generators")
        if k.startswith("f") and int(k[1:]) >= len(CONSTS):
            raise HarnessError(f"bad constant {k}")
        if k.startswith("e"):
            c, shape = exc_of_kind(k)
            if (c, shape) not in SHAPE_CLS:
                raise HarnessError(f"bad exception kind {k}")
            if case["config"] == "secret" and not SHAPES[shape][2]:
                # with secret= every stored value goes through pickle: an exception that pickle itself does not
                # rebuild faithfully is outside what the decorator can promise (the serializer is C09/C10's subject)
                raise HarnessError(f"exception shape {shape} does not survive pickling; not a valid case for config 'secret'")


def setup_cache(config: str) -> Cache:
    cache = Cache()
    if config == "plain":
        cache.setup("mem://?check_interval=0&size=10000")
    elif config == "secret":
        cache.setup("mem://?check_interval=0&size=10000", secret="s3cr3t", digestmod="md5")
    else:
        raise HarnessError(f"bad config {config}")
    return cache


async def _pass_time(ticks: int):
    """time spent inside the wrapped function"""
    if ticks > 0:
        CLOCK.advance(ticks)


def execute(case: dict):
    """Run the case on the real code.  Returns (trace, log):
    trace: one entry per op - {"line": driver line, "impl": canonical answer, "now": ticks before the op, "key": key id}
    log:   one entry per real execution of the wrapped function -
           simple: {"n","key","t","kind","dur","res"}   iter: {"n","key","start","outs","kinds","complete"}"""
    kind = case["kind"]
    sig = case["sig"]
    check_case(case)
    key_of = key_of_factory(sig)
    log: list[dict] = []
    script = case["script"]

    async def go():
        try:
            return await go_inner()
        except HarnessError:
            raise
        except Exception as exc:  # noqa: BLE001 - anything the library raises outside the scripted outcomes
            return [{"line": "setup", "impl": f"raised {type(exc).__name__}: {str(exc)[:80]}", "now": CLOCK.ticks(), "crash": True}]

    async def go_inner():
        loop = asyncio.get_running_loop()

        def quiet(loop, context):
            # a shielded call whose caller was cancelled may raise its scripted exception to nobody: that is the script
            if isinstance(context.get("exception"), tuple(EXC)):
                return
            loop.default_exception_handler(context)
        loop.set_exception_handler(quiet)
        cache = setup_cache(case["config"])
        condition, time_condition = cond_py(case["cond"], case.get("condv", 0))
        ttl = ttl_py(case["ttl"], case.get("ttlv", 0), key_of)
        if kind == "simple":
            async def body(a, b):
                n = len(log)
                k, dur = parse_beh(script[n]) if n < len(script) else ("v", 0)
                entry = {"n": n, "key": bound_index(sig, a, b), "kind": "f" if k.startswith("f") else k, "dur": dur}
                log.append(entry)
                if ctl["block"]:            # this call's caller is going to be cancelled while the function works
                    ctl["block"] = False
                    ctl["reached"].set()
                    try:
                        await ctl["gate"].wait()
                    except asyncio.CancelledError:
                        # the cancellation reached the function itself (no thunder protection): this execution never
                        # computed anything - it is not an execution of the script
                        log.pop()
                        ctl["cut"] += 1
                        raise
                await _pass_time(dur)
                entry["t"] = CLOCK.ticks()
                if k == "v":
                    entry["res"] = f"v{n}.0"
                    return f"v{n}"
                if k == "n":
                    entry["res"] = "n"
                    return None
                if k.startswith("f"):
                    entry["res"] = k
                    return CONSTS[int(k[1:])]
                c, shape = exc_of_kind(k)
                entry["res"] = f"x{k[1:]}.{n}"
                raise_exc(c, shape, n)

            kwargs = dict(ttl=ttl, key=case.get("keytpl"), prefix=case.get("prefix", ""),
                          protected=case.get("protected", False))
            if time_condition is not None:
                kwargs["time_condition"] = time_condition
            if time_condition is None or "&" in case["cond"]:
                kwargs["condition"] = condition
            deco = cache.cache(**kwargs)
            if sig == "ab":
                @deco
                async def f(a, b=0):
                    return await body(a, b)
            elif sig == "kw":
                @deco
                async def f(a, *, b=0):
                    return await body(a, b)
            elif sig == "va":
                @deco
                async def f(a, *rest):
                    return await body(a, tuple(rest))
            else:
                @deco
                async def f(a, **opts):
                    return await body(a, tuple(sorted(opts.items())))
        else:
            async def gen_body(a, b):
                n = len(log)
                steps, findur = parse_run(script[n]) if n < len(script) else ([], 0)
                entry = {"n": n, "key": bound_index(sig, a, b), "start": CLOCK.ticks(), "outs": [], "kinds": [],
                         "complete": False, "ended": None}
                log.append(entry)
                block = ctl["cancel_at"]             # the step during which this call's consumer will be cancelled
                row: dict = {}                       # the one object that `m` steps update and yield again
                try:
                    for i, (k, delay) in enumerate(steps):
                        if block == i:
                            ctl["reached"].set()
                            await asyncio.Event().wait()         # works "forever": only a cancellation ends it
                        await _pass_time(delay)
                        if k.startswith("e"):
                            entry["outs"].append(f"x{k[1:]}.{n}")
                            entry["kinds"].append(k)
                            entry["complete"] = True
                            entry["ended"] = "raised"
                            entry["end"] = CLOCK.ticks()
                            raise_exc(*exc_of_kind(k), n)
                        entry["kinds"].append("f" if k.startswith("f") else "v" if k == "m" else k)
                        if k == "v":
                            entry["outs"].append(f"v{n}.{i}")
                            yield f"v{n}.{i}"
                        elif k == "m":
                            entry.setdefault("mutable_positions", []).append(i)
                            entry["outs"].append(f"v{n}.{i}")
                            row["run"], row["i"] = n, i
                            yield row
                        elif k == "n":
                            entry["outs"].append("n")
                            yield None
                        elif k.startswith("y"):
                            entry["outs"].append(f"y{k[1:]}.{n}")
                            yield make_exc(*exc_of_kind(k), n)
                        else:
                            entry["outs"].append(k)
                            yield CONSTS[int(k[1:])]
                    if block == len(steps):
                        ctl["reached"].set()
                        await asyncio.Event().wait()
                    await _pass_time(findur)
                    entry["complete"] = True
                    entry["ended"] = "completed"
                    entry["end"] = CLOCK.ticks()
                except GeneratorExit:
                    entry["ended"] = "abandoned"
                    raise
                except asyncio.CancelledError:
                    entry["ended"] = "cancelled"
                    raise

            deco = cache.iterator(ttl=ttl, key=case.get("keytpl"), condition=condition)
            if sig == "ab":
                @deco
                async def f(a, b=0):
                    async for x in gen_body(a, b):
                        yield x
            elif sig == "kw":
                @deco
                async def f(a, *, b=0):
                    async for x in gen_body(a, b):
                        yield x
            elif sig == "va":
                @deco
                async def f(a, *rest):
                    async for x in gen_body(a, tuple(rest)):
                        yield x
            else:
                @deco
                async def f(a, **opts):
                    async for x in gen_body(a, tuple(sorted(opts.items()))):
                        yield x

        ctl = {"cancel_at": None, "reached": None, "block": False, "gate": None, "cut": 0}

        def note(x):
            return canon_item(x)       # taken when the item is received: what the item is at that moment

        async def settle():
            """let the event loop finalise every stream that was dropped (the asyncgen hooks close them in tasks of
            their own, one nesting level per loop iteration) - nothing of a call may be left pending when the next begins"""
            for attempt in range(40):
                await asyncio.sleep(0)
                if all(x["ended"] is not None for x in log) and attempt >= 4:
                    return
                if attempt == 20:
                    gc.collect()
            raise HarnessError("a dropped stream was not finalised by the event loop")

        async def consume(f, args, kwargs, mode):
            """what the consumer of one call receives (canonical forms), for each way of reading the stream"""
            items = []
            ctl["cancel_at"], ctl["reached"] = None, asyncio.Event()
            if mode is None:
                try:
                    async for x in f(*args, **kwargs):
                        items.append(note(x))
                except Exception as exc:  # noqa: BLE001
                    items.append(canon(exc))
                return items
            if mode[0] == "take" and mode[2] in (0, 1):
                limit = mode[1]
                if limit < 1:
                    raise HarnessError("a consumer takes at least one element")
                gen = f(*args, **kwargs)
                try:
                    async for x in gen:
                        items.append(note(x))
                        if len(items) >= limit:
                            break
                except Exception as exc:  # noqa: BLE001
                    items.append(canon(exc))
                if mode[2] == 0:
                    await gen.aclose()
                del gen
                await settle()
                return items
            if mode[0] == "take" and mode[2] == 2:
                limit = mode[1]
                if limit < 1:
                    raise HarnessError("a consumer takes at least one element")
                between = asyncio.Event()

                async def consumer():
                    try:
                        async for x in f(*args, **kwargs):
                            items.append(note(x))
                            if len(items) >= limit:
                                between.set()
                                await asyncio.Event().wait()          # the consumer is busy with the item it received
                    except Exception as exc:  # noqa: BLE001
                        items.append(canon(exc))
                await run_and_cancel(consumer(), between)
                await settle()
                return items
            if mode[0] == "cancel":
                ctl["cancel_at"] = mode[1]

                async def consumer():
                    try:
                        async for x in f(*args, **kwargs):
                            items.append(note(x))
                    except Exception as exc:  # noqa: BLE001
                        items.append(canon(exc))
                await run_and_cancel(consumer(), ctl["reached"])
                ctl["cancel_at"] = None
                await settle()
                return items
            raise HarnessError(f"bad consumer {mode}")

        async def run_and_cancel(coro, event):
            """run the consumer as a task; cancel it as soon as `event` is set (if it ever is)"""
            task = asyncio.ensure_future(coro)
            waiter = asyncio.ensure_future(event.wait())
            # (the guard only matters if the code under test hangs: a wait that cannot end is a harness error, not a hang)
            done, _ = await asyncio.wait({task, waiter}, return_when=asyncio.FIRST_COMPLETED, timeout=1 << 20)
            if not done:
                task.cancel()
                waiter.cancel()
                raise HarnessError("a call neither ended nor reached the point at which its caller is cancelled")
            if not task.done():
                task.cancel()
            result = None
            try:
                result = await task
            except asyncio.CancelledError:
                pass
            waiter.cancel()
            try:
                await waiter
            except asyncio.CancelledError:
                pass
            return result

        trace = []
        for op in case["ops"]:
            now = CLOCK.ticks()
            if op[0] == "adv":
                CLOCK.advance(op[1])
                trace.append({"line": f"adv {op[1]}", "impl": "ok", "now": now})
                continue
            fs = call_forms(sig, op[1])
            args, kwargs = fs[op[2] % len(fs)]
            before = len(log)
            if kind == "simple":
                del TTL_SEEN[:]
                lost = len(op) > 3 and op[3] == "lost"
                how_lost = ("lost" if case.get("protected", False) else "cut") if lost else ""

                async def caller():
                    try:
                        value = await f(*args, **kwargs)
                        if isinstance(value, BaseException):       # an exception handed over as a *return value*
                            return "returned:" + canon(value)
                        return canon(value)
                    except Exception as exc:  # noqa: BLE001 - the wrapped function's scripted exceptions
                        return canon(exc)
                cut_before = ctl["cut"]
                if not lost:
                    got = await caller()
                else:
                    ctl["block"], ctl["reached"], ctl["gate"] = True, asyncio.Event(), asyncio.Event()
                    got = await run_and_cancel(caller(), ctl["reached"])
                    ctl["block"] = False
                    ctl["gate"].set()       # the function goes on (if it is still there: the call was shielded)
                    for attempt in range(60):
                        await asyncio.sleep(0)
                        if len(log) == before or "t" in log[before]:
                            break
                    else:
                        raise HarnessError("a call whose caller was cancelled neither ended nor was cancelled")
                    for _ in range(3):
                        await asyncio.sleep(0)
                if got is None:     # the caller was cancelled
                    impl = "lost " + ("cut" if ctl["cut"] > cut_before else "run" if len(log) > before else "nothing")
                else:
                    impl = f"{got} {'run' if len(log) > before else 'hit'}"
                rec = {"line": f"call {op[1]}" + (f" {how_lost}" if lost else ""), "impl": impl,
                       "now": now, "key": op[1], "execs": len(log) - before, "lost": how_lost}
                if len(log) > before and "t" in log[before]:
                    # what a result-dependent ttl callable was handed once the function had returned / raised
                    rec["ttl_saw"] = ["x" if isinstance(r, BaseException) and canon(r) == log[before]["res"] else canon(r)
                                      if not isinstance(r, BaseException) else "other:" + canon(r) for r in TTL_SEEN[-1:]]
                trace.append(rec)
            else:
                mode = op[3] if len(op) > 3 and op[3] else None
                items = await consume(f, args, kwargs, mode)
                rec = {"line": f"it {op[1]}" + consumer_code(mode), "impl": f"{','.join(items) or '-'} {'run' if len(log) > before else 'hit'}",
                       "now": now, "key": op[1], "execs": len(log) - before, "mode": mode}
                if len(log) > before:
                    rec["ended"] = log[before]["ended"]
                trace.append(rec)
        await cache.close()
        return trace

    trace = vtime.run(go)
    return trace, log


def model_lines(case: dict, trace=None) -> list[str]:
    head = f"{'simple' if case['kind'] == 'simple' else 'iter'} {case['cond']} {case['ttl']}"
    entries = case["script"]
    if case["kind"] != "simple":        # for the model an `m` step is a payload step: an item is what it was when it was yielded
        entries = [",".join("v" + st[1:] if st[:1] == "m" else st for st in r.split("/")[0].split(",")) + "/" + r.split("/")[1] for r in entries]
    script = ("script " if case["kind"] == "simple" else "runs ") + " ".join(entries)
    ops = []
    for op in case["ops"]:
        if op[0] == "adv":
            ops.append(f"adv {op[1]}")
        else:
            if case["kind"] == "simple":
                lost = len(op) > 3 and op[3] == "lost"
                ops.append(f"call {op[1]}" + ((" lost" if case.get("protected", False) else " cut") if lost else ""))
            else:
                ops.append(f"it {op[1]}" + (consumer_code(op[3]) if len(op) > 3 else ""))
    return [head, script.rstrip()] + ops


def consumer_code(mode) -> str:
    """driver notation of a consumer: '' (drains) | ' t<n>' | ' c<n>'"""
    if not mode:
        return ""
    return f" t{mode[1]}" if mode[0] == "take" else f" c{mode[1]}"


# ----------------------------------------------------------------------------------------------
# spec oracle: the property statement evaluated on the implementation's own observations
def oracle(case: dict, trace, log):
    """first violation of the property on the observed behaviour: (op index, message) or None"""
    cond, ttl = case["cond"], case["ttl"]
    if trace and trace[0].get("crash"):
        return 0, f"decorating / calling the function {trace[0]['impl']} (condition and ttl spelling are valid)"
    if case["kind"] == "simple":
        seen = 0
        for i, t in enumerate(trace):
            if "key" not in t:
                continue
            k, now = t["key"], t["now"]
            got, how = t["impl"].rsplit(" ", 1)
            if t["execs"] > 1:
                return i, f"one call executed the function {t['execs']} times"
            prior = log[:seen]
            stored = []
            for x in prior:
                if x["key"] != k or "t" not in x or not cond_accepts_spec(cond, x["kind"], x["dur"]):
                    continue
                tt = ttl_ticks_spec(ttl, k, x["kind"])
                if tt == 0 or now - x["t"] < tt:
                    stored.append(x)
            if how == "nothing":
                return i, "the caller was cancelled while the function was running, but the function was not running"
            if how == "cut":
                if stored:
                    return i, (f"the function was started although execution {stored[-1]['n']} (same key, accepted, "
                               f"age {now - stored[-1]['t']} ticks < ttl) is a stored fresh result")
                continue
            if how == "run":
                x = log[seen]
                seen += 1
                if stored:
                    return i, (f"the function was executed although execution {stored[-1]['n']} (same key, accepted, "
                               f"age {now - stored[-1]['t']} ticks < ttl) is a stored fresh result")
                if x["key"] != k:
                    return i, "executed with other arguments than the call's"
                if "t" not in x:
                    return i, "the call was shielded from its caller's cancellation but its execution did not complete"
                if got != "lost" and got != x["res"]:
                    return i, f"caller got {got} but the execution produced {x['res']}"
                for saw in t.get("ttl_saw", ()):
                    if saw != ("x" if x["kind"].startswith("e") else x["res"]):
                        return i, (f"the ttl callable was handed {saw} as `result` although the execution "
                                   f"{'raised' if x['kind'].startswith('e') else 'returned'} {x['res']}: a ttl that depends on the result "
                                   f"is worked out from something that is not the result")
            else:
                if not any(x["res"] == got for x in stored):
                    why = "no execution with this key produced it"
                    for x in prior:
                        if x["key"] == k and x.get("res") == got:
                            tt = ttl_ticks_spec(ttl, k, x["kind"])
                            if not cond_accepts_spec(cond, x["kind"], x["dur"]):
                                why = f"execution {x['n']} produced it but the condition rejected it"
                            else:
                                why = f"execution {x['n']} produced it {now - x['t']} ticks ago, ttl is {tt} ticks"
                    if why.startswith("no execution"):
                        for x in prior:
                            if x["key"] != k and x.get("res") == got and got[0] in "vx":
                                how_close = "which compare equal to but" if x["key"] in eq_class_of(case["sig"], k) else "which"
                                why = (f"execution {x['n']} produced it for the OTHER arguments {alphabet(case['sig'])[x['key']]!r}, {how_close} "
                                       f"are not the arguments {alphabet(case['sig'])[k]!r} of this call")
                    failures = [x for x in stored if x["kind"].startswith("e")]
                    if why.startswith("no execution") and failures:
                        y = failures[-1]
                        why = (f"the stored result is the failure of execution {y['n']}, which raised {expected_exc_text(y['res'])}; "
                               f"what the caller got is not the exception that was raised")
                    shown = f"{got} (= {expected_exc_text(got)})" if got.startswith("x") else got
                    return i, f"served {shown} from the cache: {why}"
        return None
    # iterator
    seen = 0
    for i, t in enumerate(trace):
        if "key" not in t:
            continue
        k, now = t["key"], t["now"]
        got, how = t["impl"].rsplit(" ", 1)
        items = [] if got == "-" else got.split(",")
        if t["execs"] > 1:
            return i, f"one call ran the generator {t['execs']} times"
        mode = t.get("mode")
        limit = mode[1] if mode and mode[0] == "take" else None
        if how == "run":
            x = log[seen]
            seen += 1
            if items != x["outs"] or x["key"] != k:
                return i, f"consumer received {items} but the run produced {x['outs']}"
            if mode is None and not x["complete"]:
                return i, f"the consumer drained the stream but the run was {x['ended']}"
        else:
            tt = ttl_ticks_spec(ttl, k, "n")
            ok = False
            why = "no run with this key produced exactly this sequence"

            def shows(x):
                """is what the consumer received what a replay of run x looks like to this consumer"""
                if limit is None or len(items) < limit:
                    return x["outs"] == items          # the replay ended by itself: it has to be the whole run
                return x["outs"][:limit] == items      # the consumer stopped after `limit` elements
            for x in log[:seen]:
                if x["key"] == k and x["complete"] and shows(x):
                    if not items:
                        why = "an empty replay is not a run"
                        continue
                    accepted = all(cond_accepts_spec(cond, kd, 0, item=True) for kd in x["kinds"])
                    if not accepted:
                        why = f"run {x['n']} produced it but the condition rejected one of its items"
                    elif not (now - x["start"] < tt):
                        why = f"run {x['n']} produced it but started {now - x['start']} ticks ago, ttl is {tt} ticks"
                    else:
                        ok = True
                        break
            if not ok and why.startswith("no run") and items:
                for x in log[:seen]:
                    if (x["key"] == k and x["complete"] and len(x["outs"]) == len(items) and x["outs"][:-1] == items[:-1]
                            and x["outs"][-1].startswith("x")):
                        why = (f"run {x['n']} delivered the same items and then raised {expected_exc_text(x['outs'][-1])}; "
                               f"the replay ends with {items[-1]}: not the exception that was raised")
            if not ok and why.startswith("no run") and items:
                for x in log[:seen]:
                    j = len(items) - 1
                    if (x["key"] == k and x["complete"] and j < len(x["outs"]) and x["outs"][:j] == items[:j]
                            and items[j].startswith("x") and x["outs"][j] == "y" + items[j][1:]):
                        why = (f"run {x['n']} YIELDED the exception object {expected_exc_text(items[j])} as its item {j} - a value like any "
                               f"other, followed by {len(x['outs']) - j - 1} more item(s) - but the replay RAISED it: a replay yields "
                               f"whatever the run yielded")
                    elif (x["key"] == k and x["complete"] and x.get("mutable_positions") and len(items) == len(x["outs"])
                          and all(a == b or i in x["mutable_positions"] for i, (a, b) in enumerate(zip(items, x["outs"])))):
                        why = (f"run {x['n']} yielded ONE dict object that it kept updating (items {x['mutable_positions']}): its consumer "
                               f"saw {x['outs']}, the replay shows the object in a later state - a replay is the sequence of the items as "
                               f"they were when they were yielded")
            if not ok and why.startswith("no run"):
                for x in log[:seen]:
                    if x["key"] != k and x["complete"] and shows(x) and items and any(it[0] in "vx" for it in items):
                        how_close = "which compare equal to but" if x["key"] in eq_class_of(case["sig"], k) else "which"
                        why = (f"run {x['n']} produced it for the OTHER arguments {alphabet(case['sig'])[x['key']]!r}, {how_close} are not "
                               f"the arguments {alphabet(case['sig'])[k]!r} of this call")
            if not ok and why.startswith("no run"):
                for x in log[:seen]:
                    if x["key"] == k and not x["complete"] and x["outs"][:len(items)] == items:
                        why = (f"these are the first {len(items)} of the {len(x['outs'])} items that run {x['n']} had delivered when it was "
                               f"{x['ended']} (its consumer stopped / was cancelled): a run that never ended is not a complete run "
                               f"and must not be replayed")
            if not ok:
                return i, f"replayed {items or '[]'} from the cache: {why}"
    return None
